"""A6: decision rows of small acyclic bodies. A row = the labelled branch outcomes along one entry→return path plus
the action (what is assigned to the return place). No solver: labels are symbolic names given by the rule."""
from .core import IDENT, norm_path


class TooComplex(Exception):
    pass


def enumerate_rows(prog, body, label_switch, classify_ret, start=0, stop_blocks=None, max_paths=4000, ret_local=0, sensitive=False):
    """label_switch(blk, term) -> (label, {target_block: outcome}) or None (branch is followed without a label).
    classify_ret(blk, kind, idx, obj) -> action string for a definition of `_0` (last one on the path wins).
    Returns list of (tuple(sorted decisions), action, path)."""
    cfg = prog.cfg(body)
    idx = prog.idx(body)
    ret_defs_by_blk = {}
    # the return place and the temporaries that are only ever *moved* into it (`_0 = move _r`, as left behind when a helper's
    # `return x` was looked through): what such a temporary was last given on the path is what the path returns
    chain, work = {ret_local}, [ret_local]
    while work:
        r = work.pop()
        for kind, blk, i, d, obj in idx.defs.get(r, []):
            if not d and kind == "assign" and obj.rv.k == "use" and obj.rv.ops and obj.rv.ops[0].place is not None \
                    and not obj.rv.ops[0].place.proj and obj.rv.ops[0].k == "move":
                L = obj.rv.ops[0].place.local
                if L > body.arg_count and L not in chain and len([1 for x in idx.defs.get(L, []) if not x[3]]) > 1:
                    chain.add(L)
                    work.append(L)
    for r in chain:
        for kind, blk, i, d, obj in idx.defs.get(r, []):
            if d:
                continue
            if kind == "assign" and obj.rv.k == "use" and obj.rv.ops and obj.rv.ops[0].place is not None \
                    and not obj.rv.ops[0].place.proj and obj.rv.ops[0].place.local in chain:
                continue        # the move along the chain itself
            ret_defs_by_blk.setdefault(blk, []).append((kind, i, obj))
    for v in ret_defs_by_blk.values():
        v.sort(key=lambda x: (x[1] is None, x[1] if x[1] is not None else 0))
    rows = []
    n = [0]

    if sensitive:
        cfg._ps_prepare()

    def walk(b, decisions, action, path, onpath, state=()):
        n[0] += 1
        if n[0] > max_paths:
            raise TooComplex(body.path)
        if stop_blocks and b in stop_blocks and path:
            rows.append((tuple(sorted(decisions.items())), action, path + [b]))
            return
        if b in onpath:
            raise TooComplex("loop in %s" % body.path)
        onpath = onpath | {b}
        path = path + [b]
        for (kind, i, obj) in ret_defs_by_blk.get(b, []):
            action = classify_ret(b, kind, i, obj)
        t = body.blocks[b].term
        if t.k == "return":
            rows.append((tuple(sorted(decisions.items())), action, path))
            return
        succ = cfg.succ[b]
        known = False
        if sensitive:
            # constants built on this path (`return None` of a looked-through helper) decide the switches they reach
            st_, succ = cfg._ps_step(b, dict(state))
            state = tuple(sorted(st_.items(), key=repr))
            known = cfg._ps_known
        if not succ:
            return   # unreachable / diverging
        lab = label_switch(body.blocks[b], t) if t.k == "switch" and not known else None
        for s in succ:
            d2 = decisions
            if lab is not None:
                label, outcomes = lab
                oc = outcomes.get(s)
                if oc is not None:
                    if label in decisions and decisions[label] != oc:
                        continue  # contradictory path
                    d2 = dict(decisions)
                    d2[label] = oc
            walk(s, d2, action, path, onpath, state)
    walk(start, {}, None, [], frozenset())
    return rows


def rows_as_set(rows):
    return {(d, a) for d, a, _ in rows}
