"""A6: decision rows of small acyclic bodies. A row = the labelled branch outcomes along one entry→return path plus
the action (what is assigned to the return place). No solver: labels are symbolic names given by the rule."""
from .core import IDENT, norm_path


class TooComplex(Exception):
    pass


def enumerate_rows(prog, body, label_switch, classify_ret, start=0, stop_blocks=None, max_paths=4000):
    """label_switch(blk, term) -> (label, {target_block: outcome}) or None (branch is followed without a label).
    classify_ret(blk, kind, idx, obj) -> action string for a definition of `_0` (last one on the path wins).
    Returns list of (tuple(sorted decisions), action, path)."""
    cfg = prog.cfg(body)
    idx = prog.idx(body)
    ret_defs_by_blk = {}
    for kind, blk, i, d, obj in idx.defs.get(0, []):
        if not d:
            ret_defs_by_blk.setdefault(blk, []).append((kind, i, obj))
    rows = []
    n = [0]

    def walk(b, decisions, action, path, onpath):
        n[0] += 1
        if n[0] > max_paths:
            raise TooComplex(body.path)
        if b in onpath:
            raise TooComplex("loop in %s" % body.path)
        onpath = onpath | {b}
        path = path + [b]
        for (kind, i, obj) in ret_defs_by_blk.get(b, []):
            action = classify_ret(b, kind, i, obj)
        t = body.blocks[b].term
        if t.k == "return" or (stop_blocks and b in stop_blocks):
            rows.append((tuple(sorted(decisions.items())), action, path))
            return
        succ = cfg.succ[b]
        if not succ:
            return   # unreachable / diverging
        lab = label_switch(body.blocks[b], t) if t.k == "switch" else None
        for s in succ:
            d2 = decisions
            if lab is not None:
                label, outcomes = lab
                oc = outcomes.get(s)
                if oc is not None:
                    if label in decisions and decisions[label] != oc:
                        continue  # contradictory path
                    d2 = dict(decisions)
                    d2[label] = oc
            walk(s, d2, action, path, onpath)
    walk(start, {}, None, [], frozenset())
    return rows


def rows_as_set(rows):
    return {(d, a) for d, a, _ in rows}
