"""Symbolic terms: a place is evaluated to a nested term over parameters,
constants and call results (identity steps folded away). Used for path
provenance (A5), format descriptors (C17) and field-agreement maps (C11).

Term forms (tuples, hashable):
  ("param", fn_path, index, path)          logical-fn parameter (0-based) + access path
  ("arg", body_path, local, path)          closure argument (not a capture)
  ("const", value)                         evaluated scalar / str / bytes
  ("fn", path)                             function item constant
  ("call", rpath, (args...), path)         result of a call (+ projection applied on it)
  ("agg", what, variant, ((field, term)...), path)
  ("op", opname, (operands...))
  ("fmt", (piece...))                      format!: pieces are ("lit", str) or terms
  ("pushed", base_term, (seg terms...))    PathBuf built by successive push()
  ("alt", (terms...))                      several reaching definitions
  ("unknown", why)
"""
from .core import IDENT, OKFLOW, norm_path, Origin, path_str
from .facts import Operand

MAX_DEPTH = 14

# receiver-mutating calls folded into the value of the receiver (in dominance order)
MUTATORS = ("std::path::PathBuf::push", "std::string::String::push_str",
            "std::vec::Vec::<T, A>::extend_from_slice", "digest::Digest::update",
            "digest::Update::update", "std::vec::Vec::<T, A>::push")


def decode_template(tb):
    """Decode core::fmt's template bytes into [("lit", str) | ("arg", index|None)]."""
    out = []
    i = 0
    n = len(tb)
    nxt = 0
    while i < n:
        b = tb[i]
        if b == 0:
            break
        if b & 0xC0 == 0xC0:
            i += 1
            flags = b
            if flags & 0x01:
                i += 4
            if flags & 0x02:
                i += 2
            if flags & 0x04:
                i += 2
            if flags & 0x08:
                ai = tb[i] | (tb[i + 1] << 8)
                i += 2
            else:
                ai = nxt
            nxt = ai + 1
            out.append(("arg", ai, flags))
        elif b == 0x80:
            ln = tb[i + 1] | (tb[i + 2] << 8)
            out.append(("lit", bytes(tb[i + 3:i + 3 + ln]).decode("utf-8", "replace")))
            i += 3 + ln
        else:
            ln = b
            out.append(("lit", bytes(tb[i + 1:i + 1 + ln]).decode("utf-8", "replace")))
            i += 1 + ln
    return out


class Sym:
    def __init__(self, prog):
        self.prog = prog
        self._memo = {}

    # -- entry points -----------------------------------------------------
    def of_operand(self, body, op, depth=0):
        if op.place is None:
            return self._const(op)
        return self.of_place(body, op.place.local, norm_path(op.place), depth, at=op.blk)

    def of_place(self, body, local, path=(), depth=0, at=None):
        key = (body.path, local, tuple(path), at)
        if key in self._memo:
            return self._memo[key]
        if depth > MAX_DEPTH:
            return ("unknown", "depth")
        self._memo[key] = ("unknown", "cycle")
        t = self._eval(body, local, tuple(path), depth, at)
        self._memo[key] = t
        return t

    # -- internals --------------------------------------------------------
    def _const(self, op):
        j = op.j
        if "fn" in j:
            return ("fn", j["fn"]["path"])
        if "val" in j:
            return ("const", j["val"])
        if "str" in j:
            return ("const", j["str"])
        if "bytes" in j:
            return ("const", bytes(j["bytes"]))
        if "uneval" in j:
            return ("const_item", j["uneval"])
        return ("const", "<%s>" % j.get("ty"))

    def _eval(self, body, local, path, depth, at=None):
        prog = self.prog
        origins = prog.resolve_lifted(body, local, path, IDENT, at=at)
        terms = []
        for o in sorted(origins, key=lambda o: repr(o.key())):
            terms.append(self._of_origin(o, depth))
        # PathBuf-like local mutated by push(): fold pushes
        idx = prog.idx(body)
        pushes = self._pushes(body, local, path, depth, at) if not path else None
        uniq = []
        for t in terms:
            if t not in uniq:
                uniq.append(t)
        base = uniq[0] if len(uniq) == 1 else ("alt", tuple(uniq))
        if pushes is not None:
            return ("pushed", base, tuple(pushes))
        return base

    def _pushes(self, body, local, path, depth, at=None):
        """If `local` (a PathBuf/String/Vec) receives push()-style calls, return seg terms in
        dominance order; None if there are none."""
        prog = self.prog
        idx = prog.idx(body)
        # find the storage locals this value aliases (identity), then mutating calls on them
        _, visited = idx._resolve(local, path, IDENT, want_visited=True, at=at)
        mut = idx.mutated_by()
        sites = {}
        for (l, p, _a) in visited:
            for (blk, mp, ai) in mut.get(l, []):
                t = body.blocks[blk].term
                if ai != 0 or t.callee is None:
                    continue
                if at is not None and not idx.cfg.can_reach(blk, at):
                    continue
                if t.callee.path in MUTATORS:
                    sites[blk] = t
        if not sites:
            return None
        cfg = idx.cfg
        order = sorted(sites.keys(), key=lambda b: len(cfg.dominators().get(b, ())))
        # require a dominance chain
        for a, b in zip(order, order[1:]):
            if not cfg.dominates(a, b):
                return [("unknown", "unordered pushes")]
        segs = []
        for b in order:
            t = sites[b]
            if t.callee.path == "std::path::PathBuf::push":
                segs.append(self.of_operand(body, t.args[1], depth + 1))
            else:
                segs.append(("call", t.callee.rpath if t.callee.resolved else t.callee.path,
                             tuple(self.of_operand(body, a, depth + 1) for a in t.args[1:]), (),
                             t.callee.self_ty or t.callee.impl_self or ""))
        return segs

    def _fix_path(self, path, depth):
        out = []
        for e in path:
            if e[0] == "[]" and len(e) == 3:
                b = self.prog.by_path.get(e[1])
                t = b.blocks[e[2]].term if b is not None else None
                if t is not None and len(t.args) > 1:
                    out.append(("[]", self.of_operand(b, t.args[1], depth + 1)))
                    continue
            out.append(e)
        return tuple(out)

    def _of_origin(self, o, depth):
        if any(e[0] == "[]" and len(e) == 3 for e in o.path):
            o = Origin(o.kind, o.body, o.blk, o.idx, self._fix_path(o.path, depth), o.info)
        return self._of_origin2(o, depth)

    def _of_origin2(self, o, depth):
        prog = self.prog
        k = o.kind
        if k == "param":
            pi = prog.param_index(o)
            if pi is not None:
                lf, i, rest = pi
                return ("param", lf.path, i, tuple(rest))
            return ("arg", o.body.path, o.info, tuple(o.path))
        if k == "field":
            return ("field", o.info[0], o.info[1], tuple(o.path))
        if k == "const":
            t = self._const(o.info)
            if o.path:
                return ("proj", t, tuple(o.path))
            return t
        if k == "call":
            term = o.term
            c = term.callee
            if c is None:
                return ("call", "<indirect>", tuple(self.of_operand(o.body, a, depth + 1) for a in term.args),
                        tuple(o.path))
            if o.path and o.path[0][0] == "mutarg":
                return ("unknown", "mutarg")
            # format!
            if c.path == "std::fmt::format":
                f = self._fmt(o.body, term, depth)
                if f is not None:
                    return f
            if c.path == "std::hint::must_use":
                return self.of_operand(o.body, term.args[0], depth + 1)
            args = tuple(self.of_operand(o.body, a, depth + 1) for a in term.args)
            return ("call", c.rpath if c.resolved else c.path, args, tuple(o.path), c.self_ty or c.impl_self or "")
        if k == "agg":
            rv = o.info
            a = rv.j["agg"]
            names = rv.j.get("fields")
            fields = []
            for i, op in enumerate(rv.ops):
                nm = names[i] if names and i < len(names) else str(i)
                fields.append((str(nm), self.of_operand(o.body, op, depth + 1)))
            return ("agg", rv.j.get("path", a), rv.j.get("variant", ""), tuple(fields), tuple(o.path))
        if k in ("binop", "unop"):
            rv = o.info
            return ("op", rv.j["op"], tuple(self.of_operand(o.body, x, depth + 1) for x in rv.ops),
                    tuple(o.path))
        if k == "cast":
            rv = o.info
            return ("op", "cast:" + rv.j["cast"], (self.of_operand(o.body, rv.ops[0], depth + 1),), ())
        if k == "discr":
            pl = o.info.place
            return ("op", "discr", (self.of_place(o.body, pl.local, norm_path(pl), depth + 1, at=o.blk),), ())
        if k == "repeat":
            return ("op", "repeat", (self.of_operand(o.body, o.info.ops[0], depth + 1),), ())
        if k == "resume":
            return ("unknown", "resume")
        return ("unknown", k)

    def _fmt(self, body, term, depth, argi=0):
        """std::fmt::format(Arguments::new(template, &[Argument::new_*(&x)...])); with argi=1 also the Arguments handed
        to Write::write_fmt(w, args)"""
        prog = self.prog
        leaves = prog.resolve_op(body, term.args[argi], IDENT)
        if len(leaves) != 1:
            return None
        a = next(iter(leaves))
        if a.kind != "call" or a.callee is None:
            return None
        if a.callee.path == "std::fmt::Arguments::<'a>::from_str":
            s = self.of_operand(a.body, a.term.args[0], depth + 1)
            return ("fmt", (("lit", s[1]) if s[0] == "const" else s,))
        if a.callee.path != "std::fmt::Arguments::<'a>::new":
            return None
        at = a.term
        tmpl = prog.resolve_op(a.body, at.args[0], IDENT)
        tb = None
        for x in tmpl:
            if x.kind == "const" and x.info.const_bytes is not None:
                tb = x.info.const_bytes
        if tb is None:
            return None
        arr = prog.resolve_op(a.body, at.args[1], IDENT)
        argterms = []
        for x in arr:
            if x.kind == "agg" and x.info.j["agg"] == "array":
                for op in x.info.ops:
                    ls = prog.resolve_op(x.body, op, IDENT)
                    if len(ls) == 1:
                        l = next(iter(ls))
                        if l.kind == "call" and l.callee and "fmt::rt::Argument" in l.callee.path:
                            how = l.callee.path.rsplit("::", 1)[-1]
                            argterms.append((how, self.of_operand(l.body, l.term.args[0], depth + 1)))
                            continue
                    argterms.append(("?", ("unknown", "fmt arg")))
        pieces = []
        for p in decode_template(tb):
            if p[0] == "lit":
                pieces.append(("lit", p[1]))
            else:
                ai = p[1]
                if ai is not None and ai < len(argterms):
                    pieces.append(("arg", argterms[ai][0], argterms[ai][1], p[2]))
                else:
                    pieces.append(("arg", "?", ("unknown", "fmt index"), p[2]))
        return ("fmt", tuple(pieces))


# ----------------------------------------------------------------- helpers

def term_str(t, depth=0):
    if not isinstance(t, tuple) or not t:
        return repr(t)
    k = t[0]
    if k == "param":
        return "param#%d(%s)%s" % (t[2], t[1].rsplit("::", 1)[-1], path_str(t[3]))
    if k == "arg":
        return "arg(_%s%s)" % (t[2], path_str(t[3]))
    if k == "field":
        return "%s.%s%s" % (t[1].split("::", 1)[-1] if t[1].count("::") else t[1], t[2], path_str(t[3]))
    if k == "const":
        return repr(t[1])
    if k == "fn":
        return "fn:" + t[1]
    if k == "call":
        return "%s(%s)%s" % (t[1], ", ".join(term_str(a, depth + 1) for a in t[2]), path_str(t[3]))
    if k == "agg":
        return "%s::%s{%s}%s" % (t[1], t[2], ", ".join("%s: %s" % (f, term_str(x, depth + 1)) for f, x in t[3]),
                                 path_str(t[4]))
    if k == "op":
        return "%s(%s)" % (t[1], ", ".join(term_str(a, depth + 1) for a in t[2]))
    if k == "fmt":
        s = ""
        for p in t[1]:
            if p[0] == "lit":
                s += p[1]
            else:
                s += "{" + term_str(p[2], depth + 1) + "}"
        return "format!(%r)" % s
    if k == "pushed":
        return "%s.push[%s]" % (term_str(t[1], depth + 1), ", ".join(term_str(a, depth + 1) for a in t[2]))
    if k == "alt":
        return "alt(%s)" % " | ".join(term_str(a, depth + 1) for a in t[1])
    if k == "proj":
        return "%s%s" % (term_str(t[1]), path_str(t[2]))
    return "%s" % (t,)


def walk(t):
    """Yield all sub-terms."""
    if not isinstance(t, tuple):
        return
    yield t
    k = t[0] if t else None
    if k == "call":
        for a in t[2]:
            yield from walk(a)
    elif k == "agg":
        for _, x in t[3]:
            yield from walk(x)
    elif k == "op":
        for a in t[2]:
            yield from walk(a)
    elif k == "fmt":
        for p in t[1]:
            if p[0] == "arg":
                yield from walk(p[2])
    elif k == "pushed":
        yield from walk(t[1])
        for a in t[2]:
            yield from walk(a)
    elif k == "alt":
        for a in t[1]:
            yield from walk(a)
    elif k == "proj":
        yield from walk(t[1])


def strip_types(t):
    """Drop the receiver-type annotation of call terms (5th element) recursively, for structural comparison."""
    if not isinstance(t, tuple) or not t:
        return t
    k = t[0]
    if k == "call":
        return ("call", t[1], tuple(strip_types(a) for a in t[2]), tuple(strip_types(e) if isinstance(e, tuple) else e for e in t[3]))
    if k == "agg":
        return ("agg", t[1], t[2], tuple((f, strip_types(x)) for f, x in t[3]), tuple(strip_types(e) if isinstance(e, tuple) else e for e in t[4]))
    if k == "op":
        return ("op", t[1], tuple(strip_types(a) for a in t[2])) + tuple(t[3:])
    if k in ("param", "field", "arg"):
        return t[:3] + (tuple(strip_types(e) if isinstance(e, tuple) else e for e in t[3]),)
    if k == "[]" and len(t) == 2:
        return ("[]", strip_types(t[1]))
    if k == "alt":
        return ("alt", tuple(strip_types(a) for a in t[1]))
    if k == "pushed":
        return ("pushed", strip_types(t[1]), tuple(strip_types(a) for a in t[2]))
    return t


def teq(a, b):
    return strip_types(a) == strip_types(b)


def _append_path(t, p):
    """Apply projection `p` (tuple of path elements) to term `t`."""
    if not p:
        return t
    if t[0] in ("param", "call", "field", "arg"):
        return t[:3] + (tuple(t[3]) + tuple(p),) + tuple(t[4:])
    if t[0] == "agg":
        return t[:4] + (tuple(t[4]) + tuple(p),)
    return ("proj", t, tuple(p))


def inline_private_calls(sym, prog, t, skip=(), depth=0, public_ok=False):
    """Replace calls to crate-private, non-role helper functions by their (parameter-substituted) return term, so that a value
    computed in a small helper (`fn algo(&self) -> Algorithm { self.algorithm.unwrap_or(Sha256) }`) is seen as what it is.
    Calls whose helper's return term cannot be expressed (unknown / cyclic) are left alone."""
    if depth > 3 or not isinstance(t, tuple) or not t:
        return t
    k = t[0]
    rec = lambda x: inline_private_calls(sym, prog, x, skip, depth, public_ok)
    if k == "call":
        args = tuple(rec(a) for a in t[2])
        t = ("call", t[1], args) + tuple(t[3:])
        g = prog.fns.get(t[1])
        if g is not None and t[1] not in skip and (public_ok or (not g.outer.reachable and not g.outer.impl_trait)):
            rt = sym.of_place(g.body, 0, ())
            if not any(st[0] == "unknown" for st in walk(rt)) and rt[0] != "unknown":
                def subst(x):
                    if not isinstance(x, tuple) or not x:
                        return x
                    if x[0] == "param" and x[1] == g.path:
                        return _append_path(args[x[2]], x[3]) if x[2] < len(args) else x
                    if x[0] == "call":
                        return ("call", x[1], tuple(subst(a) for a in x[2])) + tuple(x[3:])
                    if x[0] == "agg":
                        return x[:3] + (tuple((f, subst(v)) for f, v in x[3]),) + tuple(x[4:])
                    if x[0] == "op":
                        return ("op", x[1], tuple(subst(a) for a in x[2])) + tuple(x[3:])
                    if x[0] == "alt":
                        return ("alt", tuple(subst(a) for a in x[1]))
                    if x[0] == "fmt":
                        return ("fmt", tuple((p if p[0] == "lit" else (p[0], p[1], subst(p[2])) + tuple(p[3:])) for p in x[1]))
                    if x[0] == "pushed":
                        return ("pushed", subst(x[1]), tuple(subst(a) for a in x[2]))
                    return x
                out = _append_path(subst(rt), t[3])
                return inline_private_calls(sym, prog, out, skip, depth + 1, public_ok)
        return t
    if k == "agg":
        return t[:3] + (tuple((f, rec(v)) for f, v in t[3]),) + tuple(t[4:])
    if k == "op":
        return ("op", t[1], tuple(rec(a) for a in t[2])) + tuple(t[3:])
    if k == "alt":
        return ("alt", tuple(rec(a) for a in t[1]))
    if k == "pushed":
        return ("pushed", rec(t[1]), tuple(rec(a) for a in t[2]))
    return t
