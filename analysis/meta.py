"""Per-property texts used in evidence files and in MANIFEST.json."""

TRUSTED = [
    "rustc's MIR construction, trait resolution and constant evaluation (facts come from tcx.mir_built of the real build)",
    "dependency model table (analysis/effects.py): std::fs / tokio::fs / async_std::fs / tempfile / reflink_copy / memmap2 / libc functions do what their documentation says (persist = rename, create_dir_all tolerates EEXIST, O_APPEND positions atomically)",
    "ssri verifies the bytes it is given against the integrity it was built with",
    "the checker itself (validated both ways by the mutation / neutral-edit corpora under /verif/selftest)",
]

META = {}


def _m(pid, explanation, not_decided, technique, level_text, extra_assumptions=(), claimed=True, design_ref=None):
    META[pid] = {
        "explanation": explanation,
        "not_decided": not_decided,
        "technique": technique,
        "level_text": level_text,
        "assumptions": TRUSTED + list(extra_assumptions),
        "claimed": claimed,
        "design_ref": design_ref or "DESIGN.md §5 %s" % pid,
    }


_m("C01",
   "Static all-paths argument over the compiler's MIR of every feature configuration: (R1) every public checked "
   "retrieval entry point that can reach a content read sink returns success only on paths that crossed a `?`/match gate "
   "on ssri::Integrity::check / IntegrityChecker::result or on a callee already proved VERIFIED; (R2) whole-buffer reads "
   "verify the very buffer they return, against the requested integrity, read from that integrity's content path; readers "
   "whose check() gates a copy/reflink/hard-link were opened on the call's own (cache, integrity) and drained by a loop whose "
   "only non-error exit is `bytes read == 0`; (R3) Read/AsyncRead impls of types owning an IntegrityChecker cannot return "
   "success without feeding the checker the caller's buffer bounded by the inner read (only bypass: zero-length read); "
   "(R4) check() is the checker's verdict and reader construction ties file and checker to one integrity parameter; "
   "(R5) keyed wrappers pass the by-address layer the integrity found for their own key in their own cache.",
   "That ssri's digest comparison is right; concurrent modification between the verify pass and the copy; byte-level "
   "outcomes for particular damage patterns (the rule is independent of them); hangs.",
   "MIR must-pass-through (gate-cut reachability) + identity value-flow + parametric call summaries",
   "exhaustive static analysis of named structural clauses (necessary conditions of the property) over all paths of all "
   "feature configurations; not a proof of the behavioural statement")

# properties not claimed, with the reason (kept current; see DESIGN.md §9)
NOT_APPLICABLE = {}
