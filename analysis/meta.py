"""Per-property texts used in evidence files and in MANIFEST.json."""

TRUSTED = [
    "rustc's MIR construction, trait resolution and constant evaluation (facts come from tcx.mir_built of the real build)",
    "dependency model table (analysis/effects.py): std::fs / tokio::fs / async_std::fs / tempfile / reflink_copy / memmap2 / libc functions do what their documentation says (persist = rename, create_dir_all tolerates EEXIST, O_APPEND positions atomically)",
    "ssri verifies the bytes it is given against the integrity it was built with",
    "the checker itself (validated both ways by the mutation / neutral-edit corpora under /verif/selftest)",
]

META = {}


def _m(pid, explanation, not_decided, technique, level_text, extra_assumptions=(), claimed=True, design_ref=None):
    META[pid] = {
        "explanation": explanation,
        "not_decided": not_decided,
        "technique": technique,
        "level_text": level_text,
        "assumptions": TRUSTED + list(extra_assumptions),
        "claimed": claimed,
        "design_ref": design_ref or "DESIGN.md §5 %s" % pid,
    }


_m("C01",
   "Static all-paths argument over the compiler's MIR of every feature configuration: (R1) every public checked "
   "retrieval entry point that can reach a content read sink returns success only on paths that crossed a `?`/match gate "
   "on ssri::Integrity::check / IntegrityChecker::result or on a callee already proved VERIFIED; (R2) whole-buffer reads "
   "verify the very buffer they return, against the requested integrity, read from that integrity's content path; readers "
   "whose check() gates a copy/reflink/hard-link were opened on the call's own (cache, integrity) and drained by a loop whose "
   "only non-error exit is `bytes read == 0`; (R3) Read/AsyncRead impls of types owning an IntegrityChecker cannot return "
   "success without feeding the checker the caller's buffer bounded by the inner read (only bypass: zero-length read); "
   "(R4) check() is the checker's verdict and reader construction ties file and checker to one integrity parameter; "
   "(R5) keyed wrappers pass the by-address layer the integrity found for their own key in their own cache; (R6) every "
   "materialising primitive (copy, reflink, hard link) takes its source at exactly content_path(<cache>, <integrity>) of its own "
   "parameters — the path the verification pass opened — and not at something derived from it (read_link / canonicalize of it).",
   "That ssri's digest comparison is right; concurrent modification between the verify pass and the copy; byte-level "
   "outcomes for particular damage patterns (the rule is independent of them); hangs.",
   "MIR must-pass-through (gate-cut reachability) + identity value-flow + parametric call summaries",
   "exhaustive static analysis of named structural clauses (necessary conditions of the property) over all paths of all "
   "feature configurations; not a proof of the behavioural statement")

# properties not claimed, with the reason (kept current; see DESIGN.md §9)
NOT_APPLICABLE = {}

_m("C08",
   "In every COMMIT function (found by role: calls a content publication and an index insertion; put sync/async and, with "
   "link_to, both linkers) of every configuration: the index-insertion call and every success return are unreachable from "
   "entry once the edges {declared integrity is None, Integrity::matches(declared, computed) is Some} are cut, and likewise "
   "for {declared size is None, declared size == byte counter}; the operands are the right ones (WriteOpts.sri vs the "
   "integrity returned by the publication call; WriteOpts.size vs the writer's own usize counter; MIR Eq/Ne only); each "
   "mismatch arm constructs the documented error (ssri::Error::IntegrityCheckError / Error::SizeMismatch(declared, counted)) "
   "and reaches neither the insertion, nor a success return, nor any mutating filesystem effect (a rejected commit leaves every "
   "existing mapping and its content untouched). The byte counter the size guard uses is the true count (C02 c re-checked: every "
   "data-accepting method of the keyed writers adds the amount the inner writer reported).",
   "ssri's `matches` semantics for multi-hash values; that the counter is the true byte count (C02 c); behaviour for particular "
   "data/chunkings; the prior state of the key at run time.",
   "MIR gate-cut reachability (must-pass-through) + operand provenance + failure-arm dominance",
   "exhaustive static analysis of the guard structure of every commit path in every configuration (necessary conditions)")

_m("C04",
   "(a) In every COMMIT the index-insertion call is reachable only through the Ok arm of the content publication "
   "(close()/linker commit, `?` or match) — a visible entry implies published content, and that publication reports success on a failed "
   "step only under a real existence check of the address (C03 e; with link_to C19 d). (b) Every INDEX_INSERT emits its record "
   "only through all-or-error writes (write_all / write!; never a bare write whose short count is ignored) on the append handle, "
   "on one straight path outside any loop, and the concatenation of what they write decodes to the template "
   "\"\\n{HASH_ENTRY(json)}\\t{json}\" with the same json term in both placeholders (HASH_ENTRY = SHA-256-hex role) — records "
   "are self-delimiting and checksummed, leading newline first. (c) Bucket files are only opened append+create or read-only, never written/truncated "
   "in place, removed only by RemoveOpts' documented full removal; removing a key is the insertion of a tombstone whose "
   "integrity is the constant None. (d) Every bucket reader validates and skips: the trust-gate and skip-and-continue clauses of "
   "C06 are re-checked here, because a torn tail must neither be taken for a record nor hide the records appended after it.",
   "What a reader sees for each torn length and continuation history (needs execution); fsync/durability; kernel atomicity of "
   "O_APPEND writes; that the record goes out in ONE write call is a concurrency requirement and is demanded under C07 a.",
   "MIR gate-cut reachability + effect inventory constraints + format-template decoding",
   "exhaustive static analysis of ordering and record-emission structure in every configuration (necessary conditions)")

_m("C14",
   "(a) who-may-index: every caller of an INDEX_INSERT is a COMMIT (whose guards and ordering are decided under C08/C04) or "
   "inserts a constant None-integrity tombstone; (b) who-may-publish: the content-close primitive is called only from COMMITs "
   "and `persist` occurs only inside it; (c) the temp file never escapes its delete-on-drop guard: zero NamedTempFile::keep / "
   "into_temp_path / into_parts / into_file / TempPath::keep, zero mem::forget / ManuallyDrop::new / Box::leak / into_raw on a "
   "value whose type (transitively) owns a NamedTempFile, and no Drop impl on such a type has filesystem effects; (d) every "
   "spawn_blocking closure of the async writer that captures the temp owner returns State::Idle(Some(<that capture>)) on every "
   "path unless it consumes it (persist / explicit drop); (e) commit and close take the writer by value "
   "(plus compile-fail witnesses for external callers in the thorough tier); (g) only the removal API can delete content; (h) the content file a rejected "
   "writer leaves behind is valid (C03 f, g re-checked); (f) every commit's index insertion sits behind the integrity and size guards "
   "and its rejection arms reach no mutating filesystem effect (the clauses of C08, re-checked): a rejected writer cannot disturb entries committed earlier.",
   "When a detached blocking task finishes and executor drop order (runtime behaviour of the executors); that NamedTempFile's "
   "Drop really unlinks (dependency model).",
   "call-graph who-may-call + zero-count effect rules + identity value-flow per closure + signature facts",
   "exhaustive static analysis over the call graph and effect inventory of every configuration (necessary conditions)")

_m("C18",
   "(a0) What is verified is what is delivered: the checked reader was opened on the call's own (cache, integrity), is drained to the end of that "
   "file with no `take(n)` or other adaptor in between, and the file then materialised is that same content path (C01 R2 / R6 re-checked). "
   "(a) In every checked verify-and-materialise function (calls a streaming reader's check() and reaches a Copy/Reflink/HardLink "
   "effect or any other mutation of its destination parameter: create/open-for-write, data writes) every step that creates or "
   "changes the destination is reachable only through the verification gate — or, alternatively, every failing edge of the "
   "verification passes an unconditional RemoveFile of the destination before returning. (d) A destination that is written by hand is opened with truncate or "
   "create_new (a longer pre-existing file must not keep its tail), and a clean-up that is only a dropped, un-awaited future does "
   "not count. (b) Counts: a checked copy returns 0 + the sum of "
   "the amounts returned by its verification reads (identity flow from the reads' Ok payload through the AddWithOverflow "
   "accumulator; no constant, no buffer length); unchecked copies return the copy primitive's count. (c) Keyed extractors: the "
   "miss arm of the lookup reaches no filesystem effect and returns Error::EntryNotFound built from the same (cache, key) "
   "that was looked up; the hit arm passes the caller's destination parameter unchanged.",
   "Equality of destination bytes (follows from C01 + the primitive's semantics at run time); pre-existing destinations; "
   "reflink support of the filesystem; propagation of the primitives' I/O errors is decided under C13.",
   "MIR gate-cut reachability with cleanup alternative + accumulator provenance + decision arms of keyed wrappers",
   "exhaustive static analysis of ordering/count/miss-arm structure in every configuration (necessary conditions)")

_m("C15",
   "(a) Filesystem-effect inventory against a dependency model table (any call into std::fs / tokio::fs / async_std::fs / "
   "tempfile / reflink_copy / memmap2 / walkdir / libc that is not modelled is itself a violation, and so is a modelled mutating "
   "function handed over by name — `spawn_blocking(NamedTempFile::new)` — whose arguments the call site does not show): every mutating effect's "
   "path or handle, expanded interprocedurally through all call sites and struct-field construction sites up to the parameters "
   "of the public entry points, has one of the allowed shapes (cache/tmp, TempIn(cache/tmp), Content(cache,_) and its parent, "
   "Bucket(cache,_) and its parent/handle, Child(cache), or the destination explicitly given to an extraction call — for any effect kind, a hand-written copy included — / the "
   "absolutised target of a link as a symlink source only) and "
   "is rooted at the entry point's cache-directory parameter (first path-like parameter) or explicit destination; with link_to, writing *through* a content address (copy into it, open it for writing) is reported because the address "
   "may be a symlink to a file of the caller's; process-"
   "global locations (env::temp_dir, NamedTempFile::new, tempfile(), current_dir) are forbidden. (b) The key reaches a path "
   "only through a cryptographic digest call (the HASH_KEY role or a digest computed in place) fed the unchanged argument; content paths depend only on (cache, integrity); every "
   "bucket is selected by the entry point's string key travelling by identity flow (no trim/case-fold/normalise); no other "
   "effect path contains a string parameter. (a2) The two address functions (content path, bucket path), whose results clause (a) "
   "takes to lie under their first argument, really return that argument joined with further segments — no detour through "
   "text (`display()`, `to_string_lossy()`: lossy for directory names that are not UTF-8), no other root. (c) The call-graph closure of the read-only API (read*, Reader/SyncReader::*, "
   "metadata*, exists*, list_sync, index::find*/ls) contains no mutating effect.",
   "Symlink traversal below the cache root at run time; the system-call-level observation itself; behaviour for particular hostile "
   "key strings (the rule shows keys are never interpreted, for all strings at once).",
   "effect inventory + interprocedural provenance expansion + identity/taint value flow + call-graph closure",
   "exhaustive static analysis; clause (c) is complete modulo the call graph and the model table")

_m("C03",
   "(a) who-may-write a content address: over the complete effect inventory of every configuration, the only mutating effects "
   "whose destination is Content(cache, _) are an atomic publication (NamedTempFile::persist, or symlink with link_to), "
   "creation of its parent directories and RemoveFile; no Open{write/create/truncate/append}, fs::write, copy/reflink/hard-link "
   "into a content path. (b) The published temp file was created with new_in({cache}/tmp) of the *same* cache as the "
   "destination (handle and destination expand to the same entry-point parameters): publication is a same-filesystem rename. "
   "(c) Every data write (write/write_all/flush, mapped copy_from_slice, fallocate) targets the private temp handle, a mapping of "
   "it, or an append-only bucket. (f) A staging file that is pre-allocated to the declared size is either mapped — and then trimmed to the bytes "
   "actually written before publication — or given back (set_len(0)) when the mapping fails: plain writes never go into a "
   "pre-sized file, so no data+padding file can be published. The trimming function itself skips set_len only on the 'written length is not below the mapped length' "
   "edge, and cuts the file to that written length (not to the mapping's own length, a no-op). With link_to, the linkers' digest-exactness and existing-destination clauses (C19 b, d) are re-checked. (f3) The staged file is the sequence of accepted writes: no Seek on the staging "
   "file, no function receives `&mut Option<MmapMut>`, nothing take()s or replaces the mapping in place. (g) What is published matches its address: the digest/sink agreement and the address clause of C02 (a, d) are "
   "re-checked here — the digest is fed exactly the bytes the staging file accepted, and the rename target is content_path(cache, "
   "that digest). (e) close() reports success only if persist returned Ok or an existence probe of the same "
   "destination succeeded (sync: gate-cut reachability; async: every value sent on the result channel is status-tied to persist, "
   "to stat(same destination), or is an earlier step's result sent under is_err()).",
   "The state of the content area at every kill instant, torn writes, kernel rename semantics, page-cache visibility of the "
   "mapping (runtime facts); that writers cannot be used after publication is decided under C14 (e).",
   "effect inventory with provenance expansion (who-may-write) + gate-cut reachability / result-state ties on the close paths",
   "exhaustive static analysis (necessary conditions of crash atomicity; the crash quantifier itself is out of static reach)")

_m("C09",
   "For every public removal entry point (remove*, index::delete*, remove_hash*, RemoveOpts::remove*, clear*) the set of "
   "mutating filesystem effects reachable through the call graph — with each effect's path expanded to that entry point's own "
   "parameters — is bounded above and below by the documented set: key removal = append of a None-integrity tombstone to "
   "Bucket(cache, key) (+ creating its parent directories), nothing else; content removal = RemoveFile(Content(cache, sri)), "
   "nothing else; RemoveOpts = the tombstone set under remove_fully==false and exactly RemoveFile(Content(cache, "
   "lookup(cache,key).integrity)) + RemoveFile(Bucket(cache,key)) under remove_fully==true (arms separated by the flag's "
   "switch) and, on the remove_fully==true edge, no success return is reachable without passing the bucket removal (nor, except on the "
   "lookup's None arm, the content removal); clear = RemoveDirAll(Child(read_dir(cache))) inside a loop whose only non-error exit is "
   "the iterator's end and in which no iteration goes round without removing its child; a key removal reports success only after "
   "appending its *whole* tombstone record (all-or-error append) / unlinking the bucket — a bucket file standing for one whole SHA-1 of the key (last path segment = the open-ended rest of the hex digest), so that unlinking it touches no other key —, and the function that unlinks a content file has no success return that bypasses "
   "the unlink. "
   "The key / integrity selecting the bucket / content address is the entry point's own parameter travelling by identity. "
   "(e) The appended tombstone makes the key not found for reads, metadata and listing: the lookup clauses of C05 b (last record "
   "of the key wins, a None-integrity record clears) and the listing clauses of C10 b–d (last-wins de-duplication by key in file "
   "order, tombstones dropped after de-duplication) are re-checked here.",
   "Effects on other keys that share the same content file (a semantic question about data sharing); SHA-1 bucket "
   "collisions; outcomes for keys never written.",
   "parametric effect summaries instantiated at the public removal entry points (upper and lower bounds)",
   "exhaustive static analysis of the effect set of each removal entry point in every configuration (necessary conditions)")

_m("C07",
   "Four structural necessary conditions of lock-free serialisability, NOT the schedule-quantified behaviour: (a) an index "
   "record reaches the file through exactly one write_all call (not write!/BufWriter streaming, not several writes) of one "
   "self-delimiting, checksummed buffer on a descriptor opened append+create (no write/truncate flags) and not touched by any call the dependency model does not know (a buffer-size setting can split one write), outside any loop, and the record is appended only after the content publication "
   "succeeded (C04 a); (b) content becomes visible only by rename (persist) of a temp "
   "file uniquely created by new_in({cache}/tmp) of the same cache, or symlink — never by in-place writing or copying; "
   "(c) every directory creation is create_dir_all / DirBuilder.recursive(true), i.e. tolerant of concurrent creation; "
   "(d) the crate has no `static mut`, no thread-local and no non-Freeze static other than plain atomic scalars, so no "
   "in-process memo of index or integrity state can exist and every operation communicates through the filesystem only.",
   "Linearisability over interleavings of system calls; kernel guarantees for O_APPEND and rename; what a reader racing a "
   "remove_hash observes; lost updates between independent processes — none of this is decided by any static check here.",
   "effect-inventory constraints + item facts (statics) ; clauses (a),(b) reuse the C04/C03 analyses",
   "static analysis of necessary conditions only; the schedule quantifier is out of reach of this technique family")

_m("C20",
   "Every explicit panic / abort site in crate code of every configuration — unwrap/expect on Option/Result, panic!/"
   "unreachable!/assert! machinery, copy_from_slice/clone_from_slice/split_at, Index/IndexMut, RefCell borrows, "
   "process::abort/exit, unsafe length contracts (set_len, from_raw_parts), MIR Assert terminators (overflow, bounds, "
   "division) — is enumerated from MIR and must be discharged by a proof rule re-derived on every run: checked-before "
   "(same place proved Some/Ok by a dominating gate, no intervening mutation), path-has-parent, const-parse, fixed-hex, "
   "read-amount / prefix-len, range-full, len-just-set, same-length (symbolic length equality), reserved-before, "
   "overflow-guarded, lock-poison / join-error (discharged only if the guarded code has no undischarged site), "
   "stub-unreachable, derive-generated, and the assumption classes well-formed-integrity (named in the property), "
   "clock-after-epoch and counter-overflow. A site with no applicable rule is reported. Hangs: the one class visible in the "
   "shape of the code is decided — a loop that goes round again only through the error arm of a fallible call inside it "
   "(retry-until-success) must be bounded by a counter; a loop around a read must test the amount just read against 0 (a read at "
   "the end of a file returns Ok(0) for ever: a loop that is left only when a byte counter reaches a declared size spins on a "
   "shorter source); other loops that also go round on success (line and poll loops) are "
   "data-driven and not decided. Two contract clauses whose violation panics inside callers / the allocator: a write / poll_write "
   "returns a count that is the Ok payload of an inner write of the caller's own buffer or has been compared with buf.len(); no "
   "allocation is sized with a number taken from an index record.",
   "Termination of the data-driven loops (poll state machines, verify/consume/read loops); panics raised inside dependencies for inputs the model does not "
   "cover (e.g. ssri on malformed integrity values found on disk); stack or heap exhaustion; allocation failure.",
   "MIR panic-site enumeration + per-site discharge rules (dominance, symbolic terms, dependency closure)",
   "exhaustive static enumeration of explicit panic sites with proof obligations; says nothing about non-termination")

_m("C13",
   "Error discipline over every fallible call of every configuration. (R1) Every call whose result type carries an I/O-level "
   "error (io::Error, crate Error, PersistError, JoinError, walkdir::Error, channel cancellation) and that is a source rather "
   "than a forwarder must have its result flow — through `?`, with_context/map/map_err, awaits, aggregates — to a propagation "
   "point of its function (a return value, a value sent on the result channel, a stored Operation result); the closure is cut at "
   "error-discarding combinators (ok / is_ok / unwrap_or* / err). A result that does not reach a propagation point is accepted only "
   "if (i) it is discarded on a path whose every return is already an error (best-effort clean-up before returning Err), (ii) it is "
   "metadata(..).is_ok()/is_err() — an existence probe, which is how Path::exists() is implemented — or (iii) it matches the "
   "committed tolerated table (3 entries, each keyed by owner function, callee and discard kind, with its reason). (R4) The "
   "content writers' digest/sink agreement of C02 (a) is re-checked here: a sink that can fail after accepting a prefix must not "
   "leave that prefix outside the digest (write_all is not a resumable sink). (R5) After a write on one of the runtimes' files no "
   "success return is reachable without flush().await on the same handle (the runtimes queue the write; only flush reports its "
   "failure). (R6) No future of a runtime filesystem function is created and dropped without being awaited. (R7) A failed publication "
   "step is tolerated only under an existence check of the same destination that follows links (C03 e, C19 d). (R8) Only the "
   "removal API can reach a deletion of a content file: no write / commit / read path 'cleans up' shared content after a failure. (R9) The "
   "index record is appended with all-or-error writes: a short write is a failure of the operation, never a success. (R2) No "
   "unwrap/expect directly on the result of a fallible filesystem call unless the same result was checked before. (R3) No "
   "flatten / filter_map(Result::ok) / map_while(Result::ok) over an iterator of io::Result (ReadDir, Lines, walkdir).",
   "Which errno each call can produce, hangs, retry behaviour, 'the same call succeeds once the fault is gone', and the state of "
   "the cache after each injected fault (its structural parts are decided under C03 / C04 / C14).",
   "error-flow closure (backward may-depend value flow cut at discarding combinators) + tolerated-discard table + adaptor table",
   "exhaustive static analysis of error propagation for every fallible call site (necessary condition of truthful results)")

_m("C05",
   "(a) Every INDEX_INSERT opens the bucket append+create only (no write / truncate / create_new): earlier records are never "
   "overwritten. (b) Every lookup (found by role: returns Option<Metadata> from a bucket reader) consumes the validated record "
   "stream of bucket_path(cache, key) — key passed unchanged — with exactly one full-traversal fold starting from None (no "
   "early-terminating adaptor), returns the fold's result, and the fold closure's extracted decision table (all entry→return "
   "paths, labelled by the switches on `entry.key == key`, on the record's integrity and on its parse) equals the oracle: key "
   "differs → keep; key equal ∧ tombstone → clear; key equal ∧ parses → replace by *this* record (every Metadata field from the "
   "same-named record field); key equal ∧ unparsable → keep. (a2) Every successful keyed commit appends its record (no success return on the key-is-Some edge without "
   "the insert call). (a4) An insertion appends its record with all-or-error writes only (a plain `write` may accept a prefix and report success: the operation "
   "would succeed while lookups keep returning the older state). (a3) A commit that fails has indexed nothing: after the insertion call no failure return is reachable except the one "
   "handing back the insertion's own error — directly, or through `Result::and` / `and_then`, which evaluate the insertion before the verdict is looked at — (a check placed after the append would reject the write and leave its record as the most recent one). "
   "The lookup may equally be written as filter(key) → filter_map(record state) → last() → flatten(), or as a scan from the newest "
   "record that returns at the first deciding one; both are judged against the same oracle table. (b0) The readers the lookups fold over take every valid record in file order (C06 re-checked). (c) 'Absent after removal': the removal clauses of C09 are re-checked — key removals "
   "append the tombstone, a full removal removes the bucket on every success path, clear removes every child. Hence the last matching valid record wins and a tombstone hides "
   "earlier ones. A structurally different algorithm is reported as UNRECOGNISED-IDIOM (stated residual risk).",
   "The history → result mapping itself for concrete histories; foreign records placed in a bucket; interleaving of sync and async "
   "callers at run time; SHA-1 collisions.",
   "decision-table extraction by path enumeration over the fold closure's MIR + open-flag folding + identity value flow",
   "exhaustive static analysis of the lookup algorithm's shape in every configuration (necessary conditions)")

_m("C06",
   "For every BUCKET_READER (sync and async, found by role) of every configuration: (a) trust gate — the record's JSON is "
   "parsed at exactly one site, reachable only through the true edge of SHA-256-hex(fields[1]) == fields[0] where both operands "
   "are elements 1 and 0 of the same TAB-split of the line, the parsed string is that fields[1], and the split has exactly two "
   "fields; (b) skip-and-continue — the only exits of the line loop are end-of-stream (leading to the success return) and a "
   "genuine read error whose Err is returned; an undecodable (InvalidData) line, a wrong field count, a checksum mismatch and a "
   "JSON error all stay inside the loop: no rejection stops the stream; (b0) the line stream is lines(BufReader::new(File::open(<the bucket path>))) "
   "seen through at most a crate-local adapter that is the identity or a known-faithful wrapper — no adaptor that can end or filter "
   "the stream; (b2) completeness — inside the loop the only ways round without collecting are those rejections (or the validating "
   "helper's None): a line that decodes, has two fields, matches its checksum and parses is collected; the trust gate may sit in one "
   "private validating helper; (c) the vector returned is exactly the records pushed "
   "from the parse's Ok payload, not reordered in place; (d) every successful key removal leaves its own record (C09 lower bound). The same oracle is applied to the sync and the async reader, hence they agree (also C12).",
   "String-level facts: how lines()/split('\\t') carve up a particular damaged byte sequence, which two records a destroyed "
   "newline fuses, collision resistance of SHA-256; field agreement of returned entries is decided under C11.",
   "MIR gate-cut reachability (trust gate) + loop-exit classification + identity value flow",
   "exhaustive static analysis of the readers' validation structure in every configuration (necessary conditions)")

_m("C10",
   "(a') Every public listing entry point returns the index listing of its cache parameter unadapted (no filter / map / take "
   "between the index and the caller). (a) The listing walks {cache}/index-v<N> — the same versioned directory BUCKET_PATH writes into — and reads every bucket "
   "through the same validated BUCKET_READER role that lookups use (its validation is decided under C06). (e) Readers and lookups satisfy C06 / C05 b (re-checked): a lookup that sees "
   "fewer records than the listing disagrees with it. (b) The per-bucket "
   "pipeline, recovered as a symbolic term (in the listing or in one private helper), is reader → [pre-filter] → reverse → collect into a HashSet of records (first seen = "
   "newest wins) → filter_map(emit) → collect: the recognised last-wins idiom; dropping the reversal is reported as oldest-wins. "
   "(c) The hand-written PartialEq::eq and Hash::hash of the record type read the field `key` and nothing else. (d) The decision "
   "rows of the pre-filter (tombstone → keep; live → keep iff its integrity parses) and of the emit closure (tombstone → drop; "
   "parses → Metadata built field-by-field from this record; unparsable → drop, never a panic) equal their oracles, so tombstones "
   "are removed only after de-duplication and unparsable records are treated as by lookup. Another algorithm is reported as "
   "UNRECOGNISED-IDIOM (stated residual risk).",
   "Hash-set iteration order, behaviour on foreign records, equality of every listed field with the lookup's for concrete "
   "histories (the field maps are decided under C11).",
   "pipeline recovery from symbolic terms + decision-row extraction of the stage closures + item facts of the trait impls",
   "exhaustive static analysis of the listing algorithm's shape in every configuration (necessary conditions)")

_m("C11",
   "Field agreement at every place an entry changes representation, in every configuration. Write side: the record aggregate "
   "of each INDEX_INSERT has key ← the key parameter unchanged, integrity ← opts.sri.map(to_string), time ← "
   "opts.time.unwrap_or_else(NOW), size ← opts.size (else 0), metadata ← opts.metadata (else JSON null), raw_metadata ← "
   "opts.raw_metadata, and that aggregate is what is serialised. Commit side: at every COMMIT's insert call the size is "
   "definitely Some — declared, or assigned from the writer's own byte counter (gate-cut reachability), and that counter is "
   "`+= the amount the inner writer accepted` in the keyed writers' write / poll_write (C02 c re-checked). Read side: every "
   "index::Metadata aggregate in the crate takes each field from the same-named field of the validated record and its integrity "
   "from the parse of the record's string. Builder side: each WriteOpts setter stores Some(argument) in its own field and "
   "returns self, and nothing else writes time / metadata / raw_metadata (every program-wide source of those fields is the setter, "
   "a constant None or a copy of the same field): the default time is therefore taken at the insert, i.e. at commit time; a commit "
   "assigns or mutably borrows sri / size only on the declared-None edge, and every successful keyed commit appends its record. The "
   "listing's selection and field map (C10) are re-checked. Schema side: the derived Serialize emits and the derived Deserialize accepts exactly the JSON names key, "
   "integrity, time, size, metadata, raw_metadata in that order, each from its own struct field, and serde_json is instantiated "
   "with the record type on both sides. NOW = SystemTime::now().duration_since(UNIX_EPOCH).as_millis().",
   "That serde_json round-trips a particular value (128-bit integers, decimals, escapes) — a runtime property of the parser; "
   "the values of the defaults at run time.",
   "symbolic field-provenance maps per aggregate + gate-cut reachability for the size default + constants of the derived serde impls",
   "exhaustive static analysis of field provenance in every configuration (necessary conditions)")

_m("C17",
   "The format descriptor extracted from the MIR of the path, hash, insert and reader roles of every configuration equals the "
   "specification in the property: bucket path = cache / ('index-v' ++ '5') / h[0..2] / h[2..4] / h[4..] with h = hex(SHA-1(key "
   "bytes, unchanged)); content path = cache / ('content-v' ++ '2') / <algorithm Display> / x[0..2] / x[2..4] / x[4..] with "
   "(algorithm, x) = sri.to_hex(); record = \"\\n\" ++ hex(SHA-256(json)) ++ \"\\t\" ++ json in every insert (sync and async "
   "agree); JSON fields key, integrity, time, size, metadata, raw_metadata in that order with integrity: Option<String> (null = "
   "removal), each handed to serde as the field itself with its own type (no `with` / `serialize_with` re-encoding); every reader splits fields on TAB and validates SHA-256-hex(fields[1]) == fields[0], and (the reader clauses of C06, re-checked here) takes "
   "every line of the bucket file, skipping exactly the records the format declares invalid; lookups and the "
   "listing interpret the log as the format says (last valid record per key in file order wins, null integrity removes: C05 b and "
   "C10 b-d re-checked). Path construction is "
   "normalised to segments (join, push and '/' inside format literals all yield segments; constants are evaluated), so the "
   "comparison is semantic: building the same path another way yields the same descriptor, while a changed version string, "
   "digest, split point, separator or field name changes it. This is not a proxy: the property is that these values are fixed.",
   "Interoperability runs against an independent implementation (needs execution); the JSON text details produced by serde_json; "
   "line splitting semantics of lines().",
   "format-descriptor extraction from symbolic terms + comparison with the specification table",
   "exhaustive static extraction of the format constants actually used by the code in every configuration")

_m("C02",
   "Structural clauses of the write path, in every configuration — the round-trip equality itself needs execution. (a) Digest/"
   "sink agreement: in every writer body, each IntegrityOpts::input is fed exactly what the sink accepted — for a write()-like "
   "sink the slice X[..n] with n the Ok payload of that write of X; for an all-or-error sink (mapped write helper, proved to "
   "return Ok(buf.len()) only after copying the whole buf into [pos .. pos + len(buf)) and to set its position to that same end) the whole X and only on the sink's Ok edge — and no sink write goes "
   "undigested; an all-or-error loop (write_all, write_fmt) over the staging file *or over a crate type whose own write() writes "
   "the staging file* (a tee, a counting wrapper) is not resumable — a failure part-way leaves accepted bytes behind although "
   "the caller is told nothing was taken — and is reported. (b) The async staging buffer equals the caller's chunk when the blocking closure is created (set_len(buf.len()) "
   "then a full copy_from_slice(buf), both dominating the spawn, no other mutation). (c) The keyed writers' byte counters do "
   "`counter += amount reported by the inner writer` and return that amount, passing the caller's buffer unchanged, and no other "
   "method of their Write / AsyncWrite impl (write_vectored, poll_write_vectored, write_all ...) hands data to the inner writer "
   "past the counter. (d) The temp file is persisted — with the replacing rename, not persist_noclobber, and on every path that reports "
   "success (no 'a file is already there' short cut round the rename: that file may be a damaged one) — to "
   "content_path(cache, builder.result()), close returns that digest, and the only non-declared integrity "
   "ever indexed is Some(publication result). (e) One-shot writers write exactly their data parameter with one write_all and "
   "declare data.len(). (f) The pre-allocation is reached only when a dominating comparison proves the declared size ≥ 1. "
   "(j) A function that is given a key sets the keyed writer's key to exactly Some(<that key>) — never None, never chosen by looking at the key's text. "
   "(h) Reads by key resolve the most recent record of the key (the lookup clauses of C05 b, re-checked). (i) The async writer "
   "never loses its staged file on a path that reports success: after the poll functions take() the inner state out of the shared "
   "slot, every non-error return is reached only after the state has been re-assigned.",
   "Byte equality for particular inputs, the 1 MiB boundary arithmetic, behaviour of write_all loops inside std, keys with unusual "
   "characters (opaque by C15), the read side (C01).",
   "identity value-flow between digest input and sink + gate-cut reachability + symbolic length/staging checks",
   "exhaustive static analysis of the write path's structure in every configuration (necessary conditions)")

_m("C16",
   "(a) Algorithm plumbing: every digest builder is IntegrityOpts::new().algorithm(<the constructor's own Algorithm parameter>); "
   "every caller of those constructors passes opts.algorithm.unwrap_or(Sha256); every *_with_algo function forwards its "
   "algorithm parameter unchanged. (b) The digest is not salted: the may-depend closure of every IntegrityOpts::input argument "
   "contains only the data buffer, the staging buffer / file handle fields and I/O amounts — no key, time, size or metadata "
   "(content paths depend only on (cache, integrity): C15 b). (b') What is digested is exactly what was written / read: C02 a and, with "
   "link_to, C19 b are re-checked. (c) The address handed back is the computed one: commits return "
   "the publication's digest or the insert's result, and the insert returns the integrity it indexed. (d) Each entry is "
   "verified under its own integrity: readers' checkers are built from the requested integrity and whole-buffer reads check "
   "against it (reused C01 R2/R4b). (e) Re-publication over an existing address goes through the same atomic rename, never an "
   "in-place write (reused C03 a). (e'') With link_to, a link is published with symlink(2) only — which fails on an occupied "
   "address — never by a rename, copy or write onto the address (reused C19 a): storing bytes the cache already holds through a "
   "link_to entry point leaves the stored copy alone.",
   "That ssri's digests equal the standard ones (needs an independent implementation and execution); the number of files after a "
   "history; byte-identity of a stored copy after re-publication.",
   "identity / may-depend value flow for algorithm and digest-input provenance; clauses (d),(e) reuse the C01/C03 analyses",
   "exhaustive static analysis of digest/address provenance in every configuration (necessary conditions)")

_m("C19",
   "In the link_to configurations: (a) never modifies, never copies — the mutating effects reachable from every public link_to "
   "entry point, expanded to that entry point's own parameters, are within {mkdir of the content parent, symlink(absolute "
   "target → content path), index append}; effects rooted at the target parameter are read-only (open read-only, stat, reads) "
   "apart from being the symlink's source; no WriteData/Copy/CreateTemp/Persist of target bytes. (b) Hashes what it reads, all "
   "of it — each linker read/poll_read cannot return success without feeding builder.input the caller's buffer bounded by what "
   "was read from its own file (only bypass: nothing read); commit drains the target (`consume()?`) before the linker commit on "
   "every path, and consume returns Ok only after a read through the linker returned 0. (c) Declared size and integrity are "
   "enforced by the same guards as ordinary commits (C08 rules on both link_to commits) and the default declared size is "
   "metadata(target).len() of the entry point's target. (d) A failed symlink is accepted only if exists(same destination). "
   "(e) The path stored in the symlink is std::path::absolute(<caller's target>), never the relative path verbatim, and it is "
   "made absolute where the target is opened (the linker's constructor), not later at commit time when the working directory "
   "may differ.",
   "What happens when the target is changed or removed after linking (C01's verification turns that into an error at run time); "
   "symlink semantics of the platform.",
   "parametric effect summaries at the link_to entry points + gate-cut reachability + provenance of the stored target",
   "exhaustive static analysis in the link_to configurations (necessary conditions)")

_m("C12",
   "Sibling agreement. For every sync/async pair of one operation (public `X_sync`/`X`, SyncWriter/Writer, SyncReader/Reader, "
   "SyncToLinker/ToLinker, RemoveOpts::remove_sync/remove and the internal pairs insert/insert_async, find/find_async, the bucket "
   "readers, the content open/read/copy/reflink/hard_link/rm/close primitives) and for every function across the async-std and "
   "tokio builds of the same feature set, the abstract signature is compared: (1) the set of filesystem effects reachable "
   "(kind, open flags, role, provenance shape relative to the entry point's cache / key / destination parameters, runtime crates "
   "normalised), (2) the set of crate / ssri error variants constructed, (3) which role functions are called with which "
   "parameter positions and which verification primitives are used, (4) how the error of each fallible call is handled "
   "(propagated / matched / tested / discarded — so an error tolerated in one flavour only is reported). (5) the relative order of its mutating steps (an inversion between the copies is reported). The stream "
   "readers, bucket readers, lookups, commits and (with link_to) the linkers' read methods of every flavour are additionally each compared with the one oracle of C01 R3 / "
   "C06 / C05 b / C08; a copy that deviates while a sibling does not (or deviates differently) is reported here. Staging details are "
   "normalised away (write_all ≡ write!, flush, metadata().is_ok() ≡ Path::exists()). Differences must match the committed "
   "accepted-differences tables (effects: the async keyed writer never maps memory; handling: close reports through a channel, "
   "has_content is a bool predicate — each with its reason). The per-operation decision tables, "
   "field maps, guard structure and verify/materialise order of both siblings are each compared with one oracle under C04, C05, "
   "C06, C08, C11, C18, which forces them to agree with each other.",
   "Equality of results for programs; scheduler-dependent behaviour; error message texts and buffer sizes (not part of the "
   "classification).",
   "cross-checking of sibling implementations over abstract signatures (effect sets, error variants, role calls)",
   "exhaustive static comparison of all sibling pairs in every async configuration (necessary conditions)")
