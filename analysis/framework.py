"""Rule framework: contexts, reports, violations, known findings, evidence."""
import json
import os
import re
import time

from .facts import Facts
from .core import Program
from .world import World
from . import extract

VERIF = extract.VERIF
KNOWN = os.path.join(VERIF, "known_findings.txt")
# evidence describes runs against /repo itself; analyses of scratch trees (self-validation mutants, seeded changes:
# VERIF_REPO set) write theirs next to the scratch tree so that they never overwrite it
EVID = os.environ.get("VERIF_EVIDENCE_DIR") or (
    os.path.join(os.environ["VERIF_REPO"], ".verif-evidence") if os.environ.get("VERIF_REPO") else os.path.join(VERIF, "evidence"))


def _load_floors():
    p = os.path.join(VERIF, "analysis", "floors.json")
    if os.path.exists(p):
        return json.load(open(p))
    return {}


EXACT_FLOORS = {
    "commit_fns", "commits", "index_inserts", "bucket_readers", "lookup_fns", "listing_fns", "link_to_configurations",
    "persist_sites", "removal_entry_points", "checked_entry", "read_only_entries", "link_entry_points", "stream_impls",
    "linker_read_impls", "temp_owner_types", "sync_async_pairs", "runtime_pairs", "public_entry_points", "writeopts_setters",
}
_FLOORS = _load_floors()
_RECORDED = {}


class Violation:
    def __init__(self, prop, key, msg, loc=None, config=None, rule=None, witness=None, extra=None):
        self.prop = prop
        self.key = key          # semantic key, no line numbers
        self.msg = msg
        self.loc = loc
        self.configs = [config] if config else []
        self.rule = rule
        self.witness = witness
        self.extra = extra or {}

    def to_json(self):
        return {"property": self.prop, "key": self.key, "rule": self.rule, "message": self.msg,
                "location": self.loc, "configs": self.configs, "witness": self.witness,
                "extra": self.extra}


class Report:
    def __init__(self, prop):
        self.prop = prop
        self.violations = {}      # key -> Violation (merged across configs)
        self.obligations = []     # (config, rule, instance key, description)
        self.discharged = 0
        self.samples = []
        self.floors = {}          # name -> (measured, floor)
        self.counts = {}
        self.notes = []
        self.anchor_errors = []

    def ob(self, config, rule, key, desc, ok=True):
        self.obligations.append((config, rule, key, desc, ok))
        if ok:
            self.discharged += 1
        if len(self.samples) < 400 and ok:
            self.samples.append({"config": config, "rule": rule, "instance": key, "how": desc})

    def violation(self, key, msg, loc=None, config=None, rule=None, witness=None, extra=None):
        v = self.violations.get(key)
        if v is None:
            v = Violation(self.prop, key, msg, loc, config, rule, witness, extra)
            self.violations[key] = v
        elif config and config not in v.configs:
            v.configs.append(config)
        self.obligations.append((config, rule, key, msg, False))
        return v

    def floor(self, name, measured, floor, config=None):
        """Fail closed if an anchor count falls below what was confirmed on the pinned tree. The committed
        table analysis/floors.json (recorded with tools/record_floors.py and reviewed by hand) overrides the
        in-code default; it is never written during a check."""
        k = "%s[%s]" % (name, config) if config else name
        rec = _FLOORS.get(self.prop, {}).get(k)
        if os.environ.get("VERIF_RECORD_FLOORS"):
            _RECORDED.setdefault(self.prop, {})[k] = measured
        elif rec is not None:
            # role / public-API anchors are exact; plain site counts tolerate refactoring (helper extraction, merged
            # copies) down to half of what was counted on the pinned tree — the floor guards against vacuity only
            floor = rec if name in EXACT_FLOORS else max(1, (rec + 1) // 2)
        self.floors[k] = (measured, floor)
        if measured < floor:
            self.anchor_errors.append("ANCHOR-MISSING %s: measured %d < floor %d" % (k, measured, floor))
            self.violation("anchor:%s" % name,
                           "ANCHOR-MISSING: rule `%s` matched %d instance(s), fewer than the %d confirmed by hand "
                           "on the pinned tree — the rule would pass vacuously" % (name, measured, floor),
                           config=config, rule="anchor-floor")

    def count(self, name, n=1):
        self.counts[name] = self.counts.get(name, 0) + n


class Ctx:
    def __init__(self, tier, configs=None, repo=None, verbose=False):
        self.tier = tier
        self.configs = configs or extract.configs_for(tier)
        paths, th = extract.ensure_facts(self.configs, repo=repo, verbose=verbose)
        self.tree_hash = th
        self.paths = paths
        self._progs = {}
        self._worlds = {}
        self.inlined = {}

    def prog(self, cfg):
        p = self._progs.get(cfg)
        if p is None:
            import json as _json
            from . import inline
            with open(self.paths[cfg]) as f:
                j = _json.load(f)
            # helpers introduced after the pinned tree are looked through (analysis/inline.py)
            j, rep_ = inline.inline_facts(j)
            self.inlined[cfg] = rep_
            p = Program(Facts(j))
            self._progs[cfg] = p
        return p

    def world(self, cfg):
        w = self._worlds.get(cfg)
        if w is None:
            w = World(self.prog(cfg))
            self._worlds[cfg] = w
        return w

    def worlds(self, pred=None):
        for c in self.configs:
            if pred is None or pred(c):
                yield c, self.world(c)


# ----------------------------------------------------------------- known findings

def load_known():
    """Lines: `finding: property=<id> key=<key> <text>`; `fixed: ...` lines suppress nothing."""
    out = {}
    if not os.path.exists(KNOWN):
        return out
    for line in open(KNOWN):
        line = line.strip()
        m = re.match(r"^finding:\s+property=(\S+)\s+key=(\S+)\s+(.*)$", line)
        if m:
            out.setdefault(m.group(1), {})[m.group(2)] = m.group(3)
    return out


# ----------------------------------------------------------------- evidence

def write_evidence(prop, tier, report, wall, level, explanation, assumptions, not_decided, extra=None,
                   known_hits=None):
    os.makedirs(EVID, exist_ok=True)
    total = len(report.obligations)
    distinct = {}
    for (cfg, rule, key, desc, ok) in report.obligations:
        distinct.setdefault((rule, key), 0)
        distinct[(rule, key)] += 1
    unsup = [v for k, v in report.violations.items() if not (known_hits and k in known_hits)]
    cov = {
        "explanation": explanation,
        "not_decided": not_decided,
        "evaluations": max(total, 1),
        "distinct_nontrivial": len(distinct),
        "rule": "one evaluation = one rule instance (call site / path obligation / table row / item) checked in one "
                "feature configuration; distinct = distinct (rule, semantic instance key) pairs, de-duplicated across "
                "configurations; every instance involves at least one resolved call site, CFG path or item fact",
        "obligations": total,
        "discharged": report.discharged,
        "exhaustive": True,
        "samples": report.samples[:60],
        "floors": {k: {"measured": m, "floor": f} for k, (m, f) in report.floors.items()},
        "counts": report.counts,
        "violations_detail": [v.to_json() for v in report.violations.values()],
        "known_findings_matched": sorted(known_hits or []),
        "trusted_base": assumptions,
        "checker_cmd": "./check %s %s" % (prop, tier),
    }
    if extra:
        cov.update(extra)
    ev = {
        "property_id": prop,
        "tier": tier,
        "seed": int(os.environ.get("VERIF_SEED", "0") or 0),
        "level": level,
        "coverage": cov,
        "assumptions": assumptions,
        "wall_s": round(wall, 3),
        "violations": len(unsup),
    }
    tmp = os.path.join(EVID, prop + ".json.tmp")
    with open(tmp, "w") as f:
        json.dump(ev, f, indent=1, default=str)
    os.replace(tmp, os.path.join(EVID, prop + ".json"))
    return ev
