"""Interprocedural expansion of path-provenance classes (A4/A5): parametric
classes (in terms of a function's own parameters and crate-ADT fields) are
expanded through all call sites / construction sites up to the parameters of
the public entry points. No path is ever dropped: an expansion that cannot be
completed yields an explicit ("Unknown", why) class."""
from .core import IDENT, norm_path
from .effects import class_str, norm_callee

WRAPPERS = ("Content", "Bucket", "Parent", "Join", "Child", "TempIn", "Handle", "Mmap", "Abs", "Proj")
MAX_DEPTH = 24


class Expander:
    def __init__(self, world):
        self.w = world
        self.prog = world.prog
        self.inv = world.inv
        self.sym = world.sym
        self._memo = {}
        self._callers = {}

    # -- public -----------------------------------------------------------
    def expand(self, cls, depth=0, stack=()):
        """Set of fully expanded classes whose leaves are Entry/Const/Env/Unknown/...."""
        key = cls
        if key in self._memo:
            return self._memo[key]
        if depth > MAX_DEPTH or key in stack:
            return {("Cycle",)}
        stack = stack + (key,)
        out = self._expand(cls, depth, stack)
        if ("Cycle",) in out and len(out) > 1:
            out = {c for c in out if c != ("Cycle",)}
        self._memo[key] = out
        return out

    # -- internals ----------------------------------------------------------
    def callers(self, lf):
        r = self._callers.get(lf.path)
        if r is None:
            r = self.prog.callers_of(lf)
            self._callers[lf.path] = r
        return r

    def _expand(self, cls, depth, stack):
        k = cls[0]
        if k == "Param":
            return self._param(cls, depth, stack)
        if k == "Field":
            return self._field(cls, depth, stack)
        if k in ("Content", "Bucket"):
            return {(k, x, cls[2]) for x in self.expand(cls[1], depth + 1, stack)}
        if k in ("Parent", "Child", "TempIn", "Mmap", "Abs"):
            return {(k, x) for x in self.expand(cls[1], depth + 1, stack)}
        if k == "Join":
            return {(k, x, cls[2]) for x in self.expand(cls[1], depth + 1, stack)}
        if k == "Handle":
            return {(k, x, cls[2]) for x in self.expand(cls[1], depth + 1, stack)}
        if k == "Proj":
            return {(k, x, cls[2]) for x in self.expand(cls[1], depth + 1, stack)}
        if k == "Alt":
            out = set()
            for c in cls[1]:
                out |= self.expand(c, depth + 1, stack)
            return out
        if k == "LocalCall":
            return self._localcall(cls, depth, stack)
        if k == "ClosureArg":
            return {("ClosureArg", cls[1], cls[2])}
        return {cls}

    def _param(self, cls, depth, stack):
        _, fn_path, i, path = cls
        lf = self.prog.fns.get(fn_path)
        out = set()
        if lf is None:
            return {("Unknown", "param of unknown fn %s" % fn_path)}
        if lf.outer.reachable:
            out.add(("Entry", fn_path, i, tuple(path)))
        for (g, b, blk, t) in self.callers(lf):
            if i >= len(t.args):
                out.add(("Unknown", "arity mismatch calling %s" % fn_path))
                continue
            term = self.sym.of_operand(b, t.args[i])
            c = self.inv.classify(term)
            if path:
                c = ("Proj", c, tuple(path))
            out |= self.expand(c, depth + 1, stack)
        if not out:
            # function items used as values (e.g. passed to unwrap_or_else) or dead code
            out.add(("Dead", fn_path))
        return out

    def _field(self, cls, depth, stack):
        _, owner, name, path = cls
        srcs = self.prog.field_sources(owner, name)
        out = set()
        if not srcs:
            return {("Unknown", "field %s.%s has no construction site" % (owner, name))}
        for (b, blk, i, op) in srcs:
            if op is None:
                out.add(("Unknown", "field %s.%s assigned from a call result in %s" % (owner, name, b.path)))
                continue
            term = self.sym.of_operand(b, op)
            if path:
                # e.g. Writer.mmap as Some.0 : the source term is the Option; project into it
                proj = self._project(term, path)
                if proj is None:
                    continue          # a different variant (e.g. None) cannot supply the projected payload
                c = self.inv.classify(proj)
            else:
                c = self.inv.classify(term)
                if c[0] == "Agg" and c[1].endswith("Option") and term[2] == "None":
                    continue
            out |= self.expand(c, depth + 1, stack)
        return out or {("Unknown", "field %s.%s only built from constants" % (owner, name))}

    def _project(self, term, path):
        """Apply an access path to a symbolic term where it is an aggregate."""
        cur = term
        p = list(path)
        while p:
            e = p[0]
            if cur[0] == "agg":
                fields = dict(cur[3])
                if e[0] == "v":
                    if str(cur[2]) != str(e[1]):
                        return None
                    p.pop(0)
                    continue
                if e[0] == "f" and str(e[1]) in fields:
                    cur = fields[str(e[1])]
                    p.pop(0)
                    continue
                return None
            if cur[0] == "call":
                # append the remaining projection to the call's own path
                return ("call", cur[1], cur[2], tuple(cur[3]) + tuple(p)) + tuple(cur[4:])
            if cur[0] in ("param", "field"):
                return cur[:3] + (tuple(cur[3]) + tuple(p),)
            return None
        return cur

    def _localcall(self, cls, depth, stack):
        _, rp, argcls, path = cls
        lf = self.prog.fns.get(rp)
        if lf is None:
            return {("Unknown", "call %s" % rp)}
        # class of the callee's return value (with the projection applied), then substitute parameters
        p = tuple(x for x in path if x != ("await",))
        rt = self.sym.of_place(lf.body, 0, p)
        rc = self.inv.classify(rt)
        sub = self._subst(rc, lf, argcls)
        return self.expand(sub, depth + 1, stack)

    def _subst(self, c, lf, argcls):
        k = c[0]
        if k == "Param" and c[1] == lf.path:
            if c[2] < len(argcls):
                a = argcls[c[2]]
                return ("Proj", a, c[3]) if c[3] else a
            return ("Unknown", "arity")
        if k in ("Content", "Bucket", "Join", "Handle", "Proj"):
            return (k, self._subst(c[1], lf, argcls)) + tuple(c[2:])
        if k in ("Parent", "Child", "TempIn", "Mmap", "Abs"):
            return (k, self._subst(c[1], lf, argcls))
        if k == "Alt":
            return ("Alt", tuple(self._subst(x, lf, argcls) for x in c[1]))
        if k == "LocalCall":
            return (k, c[1], tuple(self._subst(x, lf, argcls) for x in c[2]), c[3])
        return c


def leaf(c):
    while c[0] in WRAPPERS:
        c = c[1]
    return c


def shape(c):
    """Shape string with leaves abstracted to their kind."""
    k = c[0]
    if k in ("Content", "Bucket"):
        return "%s(%s)" % (k, shape(c[1]))
    if k in ("Parent", "Child", "TempIn", "Mmap", "Abs"):
        return "%s(%s)" % (k, shape(c[1]))
    if k == "Join":
        seg = c[2]
        return "Join(%s,%s)" % (shape(c[1]), repr(seg[1]) if seg[0] == "lit" else "<%s>" % seg[0])
    if k == "Handle":
        return "Handle(%s)" % shape(c[1])
    if k == "Proj":
        return shape(c[1])
    if k == "Entry":
        return "Entry"
    return k


def entry_str(c):
    k = c[0]
    if k == "Entry":
        return "%s#%d" % (c[1].replace("::{closure#0}", ""), c[2])
    if k in WRAPPERS:
        inner = entry_str(c[1])
        if k == "Join":
            return "Join(%s,%r)" % (inner, c[2][1])
        if k in ("Content", "Bucket"):
            return "%s(%s)" % (k, inner)
        return "%s(%s)" % (k, inner)
    return str(c)[:120]
