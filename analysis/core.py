"""Core analyses shared by all rules (DESIGN.md §3): real-edge CFG, dominators,
reachability under edge cuts (A1/A2), value-flow resolution with identity /
ok-preserving / may-depend levels (A3), closure lifting, call graph and logical
functions (A4). Pure stdlib; knows nothing about properties."""
import re
from collections import deque

from .facts import Place, Operand, span_str

IDENT, OKFLOW, DEPEND = 0, 1, 2

SPAWN_BLOCKING = ("async_std::task::spawn_blocking", "tokio::task::spawn_blocking")


# ----------------------------------------------------------------- paths

def norm_path(place):
    """Normalised access path of a Place: derefs dropped."""
    out = []
    for e in place.proj:
        k = e["k"]
        if k == "field":
            nm = e.get("name")
            nm = nm if nm is not None else str(e["i"])
            if e.get("owner_local") and e.get("owner"):
                # field of a crate-local ADT: carries its owner (object-insensitive field abstraction)
                out.append(("f", nm, e["owner"]))
            else:
                out.append(("f", nm))
        elif k == "downcast":
            out.append(("v", e.get("variant") or str(e["vi"])))
        elif k == "constindex":
            out.append(("[]", "c", e["offset"], bool(e["from_end"])))
        elif k in ("index", "subslice"):
            out.append(("[]",))
        # deref / opaquecast dropped
    return tuple(out)


def path_str(p):
    s = ""
    for e in p:
        if e[0] == "f":
            s += "." + str(e[1])
        elif e[0] == "v" and False:
            pass
        elif e[0] == "v":
            s += " as " + str(e[1])
        elif e[0] == "[]" and len(e) == 2:
            s += "[%s]" % (_range_str(e[1]),)
        elif e[0] == "[]" and len(e) == 4:
            s += "[%s%d]" % ("-" if e[3] else "", e[2])
        else:
            s += e[0]
    return s


def _range_str(t):
    try:
        if t[0] == "agg":
            d = dict(t[3])
            lo = d.get("start")
            hi = d.get("end")
            f = lambda x: "" if x is None else (str(x[1]) if x[0] == "const" else "?")
            return "%s..%s" % (f(lo), f(hi))
    except Exception:
        pass
    return "?"


# ----------------------------------------------------------------- CFG

class Cfg:
    def __init__(self, body):
        self.body = body
        n = len(body.blocks)
        self.n = n
        self.succ = [[] for _ in range(n)]
        self.pred = [[] for _ in range(n)]
        for b in body.blocks:
            if b.cleanup:
                continue
            for s in b.term.successors(real_only=True):
                if s is None or body.blocks[s].cleanup:
                    continue
                if s not in self.succ[b.i]:
                    self.succ[b.i].append(s)
                    self.pred[s].append(b.i)
        self._reach = None
        self._dom = None
        self._pdom = None
        self._rf = {}

    # -- variant-sensitive reachability ---------------------------------------------------------------------------
    # A switch on the discriminant of a Result / Option / ControlFlow that was just *built* on this path (`_x = Err(..)`,
    # moved around, passed through `?`'s Try::branch) has only one feasible arm. Ignoring that makes "the insert is reachable
    # from the rejection arm" true whenever the rejection is computed in one place and acted on in another (a helper that
    # returns Result<()> followed by `?`, a `let res = ...; if res.is_err()` — or the same code after inlining). The
    # traversal therefore carries, for temporaries whose address is never taken, the variant they are known to hold.
    _VAR = {"Ok": 0, "Err": 1, "None": 0, "Some": 1, "Continue": 0, "Break": 1, "Ready": 0, "Pending": 1}
    _BRANCH = {"Ok": "Continue", "Some": "Continue", "Err": "Break", "None": "Break"}

    def _ps_prepare(self):
        if getattr(self, "_ps", None) is not None:
            return self._ps
        body = self.body
        untracked = set()
        for b in body.blocks:
            for st in b.stmts:
                if st.k == "assign":
                    if st.rv.k in ("ref", "rawptr") and st.rv.place is not None:
                        untracked.add(st.rv.place.local)
                    if st.place.proj:
                        untracked.add(st.place.local)
        ops = {}
        interesting = False
        for b in body.blocks:
            if b.cleanup:
                continue
            seq = []
            for st in b.stmts:
                if st.k != "assign":
                    continue
                L = st.place.local
                if st.place.proj or L in untracked:
                    continue
                rv = st.rv
                if rv.k == "agg" and rv.j.get("agg") == "adt" and rv.j.get("variant") in self._VAR:
                    inner = None
                    if len(rv.ops) == 1 and rv.ops[0].place is not None and not rv.ops[0].place.proj:
                        inner = rv.ops[0].place.local
                    seq.append(("set", L, rv.j["variant"], inner))
                elif rv.k == "agg" and rv.j.get("agg") == "adt" and isinstance(rv.j.get("vi"), int) and rv.j.get("variant") != rv.j.get("path", "").rsplit("::", 1)[-1]:
                    # a variant of any other enum (a crate-private `enum Committed { Content(..), Entry(..) }`): known by index
                    seq.append(("set", L, "#%d" % rv.j["vi"], None))
                elif rv.k == "use" and rv.ops and rv.ops[0].place is not None and not rv.ops[0].place.proj:
                    seq.append(("copy", L, rv.ops[0].place.local))
                elif rv.k == "use" and rv.ops and rv.ops[0].place is not None and len(rv.ops[0].place.proj) == 2 and \
                        rv.ops[0].place.proj[0].get("k") == "downcast" and rv.ops[0].place.proj[1].get("k") == "field" and \
                        rv.ops[0].place.proj[1].get("i") == 0:
                    # `x = (y as Variant).0`: the payload of a value whose wrapper and payload are both known
                    seq.append(("unwrap", L, rv.ops[0].place.local, rv.ops[0].place.proj[0].get("variant")))
                elif rv.k == "discr" and rv.place is not None and not rv.place.proj:
                    seq.append(("discr", L, rv.place.local))
                else:
                    seq.append(("kill", L))
            t = b.term
            sw = None
            if t.k == "call" and t.dest is not None and not t.dest.proj and t.dest.local not in untracked:
                if t.callee is not None and t.callee.path.endswith("Try::branch") and t.args and t.args[0].place is not None \
                        and not t.args[0].place.proj:
                    seq.append(("branch", t.dest.local, t.args[0].place.local))
                elif t.callee is not None and t.args and t.args[0].place is not None and not t.args[0].place.proj and re.search(
                        r"(IoErrorExt::with_context|Result::<T, E>::(map_err|map|inspect|inspect_err)|Option::<T>::(map|inspect))$", t.callee.path):
                    # variant-preserving combinators: Ok stays Ok, Err stays Err
                    seq.append(("copy", t.dest.local, t.args[0].place.local))
                elif t.callee is not None and t.callee.path.endswith("FromResidual::from_residual"):
                    # the value built from a residual is the failure variant of its type
                    sh = (t.callee.self_head or {}).get("path", "")
                    if sh.endswith("::Result"):
                        seq.append(("set", t.dest.local, "Err"))
                    elif sh.endswith("::Option"):
                        seq.append(("set", t.dest.local, "None"))
                    else:
                        seq.append(("kill", t.dest.local))
                else:
                    seq.append(("kill", t.dest.local))
            elif t.k == "switch" and t.discr.place is not None and not t.discr.place.proj:
                sw = t.discr.place.local
                interesting = True
            ops[b.i] = (seq, sw)
        self._ps = (ops, interesting)
        return self._ps

    def _ps_step(self, u, state):
        """Apply block u's effects to `state` (dict local -> value); returns (new state, feasible successors)."""
        ops, _ = self._ps
        seq, sw = ops.get(u, ((), None))
        st = dict(state)
        for op in seq:
            k = op[0]
            if k == "set":
                inner = st.get(op[3]) if len(op) > 3 and op[3] is not None else None
                st[op[1]] = ("w", op[2], inner) if inner is not None and not (isinstance(inner, tuple) and inner[0] == "d") else op[2]
            elif k == "unwrap":
                v = st.get(op[2])
                if isinstance(v, tuple) and v[0] == "w" and v[1] == op[3] and v[2] is not None:
                    st[op[1]] = v[2]
                else:
                    st.pop(op[1], None)
            elif k == "copy":
                v = st.get(op[2])
                if v is not None:
                    st[op[1]] = v
                else:
                    st.pop(op[1], None)
            elif k == "discr":
                v = st.get(op[2])
                if isinstance(v, tuple) and v[0] == "w":
                    v = v[1]
                if v is not None and not isinstance(v, tuple):
                    st[op[1]] = ("d", v)
                else:
                    st.pop(op[1], None)
            elif k == "branch":
                v = st.get(op[2])
                inner = None
                if isinstance(v, tuple) and v[0] == "w":
                    v, inner = v[1], v[2]
                if v in self._BRANCH:
                    # (the payload of Ok / Some travels on in Continue)
                    st[op[1]] = ("w", self._BRANCH[v], inner) if inner is not None and self._BRANCH[v] == "Continue" else self._BRANCH[v]
                else:
                    st.pop(op[1], None)
            else:
                st.pop(op[1], None)
        succ = self.succ[u]
        self._ps_known = False
        if sw is not None:
            v = st.get(sw)
            if isinstance(v, tuple) and v[0] == "d":
                idx = int(v[1][1:]) if isinstance(v[1], str) and v[1].startswith("#") else self._VAR.get(v[1])
                t = self.body.blocks[u].term
                tgt = None
                for val, blk in t.targets:
                    if val == idx:
                        tgt = blk
                if tgt is None:
                    tgt = t.otherwise
                succ = [x for x in succ if x == tgt]
                self._ps_known = True
        return st, succ

    def reachable(self, start=0, cut_edges=(), cut_nodes=(), sensitive=True):
        """Blocks reachable from `start` without using cut edges / entering cut nodes. Variant-sensitive (see above) unless
        `sensitive` is False."""
        cut_edges = set(cut_edges)
        cut_nodes = set(cut_nodes)
        seen = set()
        if start in cut_nodes:
            return seen
        ops, interesting = self._ps_prepare()
        if not sensitive or not interesting:
            dq = deque([start])
            seen.add(start)
            while dq:
                u = dq.popleft()
                for v in self.succ[u]:
                    if (u, v) in cut_edges or v in cut_nodes or v in seen:
                        continue
                    seen.add(v)
                    dq.append(v)
            return seen
        # (block, state) worklist; once a block has been entered in too many states it is entered once more with no knowledge
        visited = {}
        dq = deque([(start, ())])
        visited[start] = {()}
        seen.add(start)
        while dq:
            u, skey = dq.popleft()
            st, succ = self._ps_step(u, dict(skey))
            known = self._ps_known
            nkey = tuple(sorted(st.items(), key=repr))
            for v in succ:
                # a cut edge is the passing edge of a *decision*; a switch whose operand is a known constant on this path
                # (a value built by an inlined helper's `return None` / `Err(..)?`) decides nothing here
                if ((u, v) in cut_edges and not known) or v in cut_nodes:
                    continue
                vs = visited.setdefault(v, set())
                k = nkey
                if len(vs) >= 24:
                    k = ()
                if k in vs or () in vs and k != ():
                    if () in vs:
                        continue
                    if k in vs:
                        continue
                vs.add(k)
                seen.add(v)
                dq.append((v, k))
        return seen

    def reach_from(self, b):
        """Blocks reachable from b (b included)."""
        r = self._rf.get(b)
        if r is None:
            r = self.reachable(b, sensitive=False)     # structural (ordering / dominance use)
            self._rf[b] = r
        return r

    def can_reach(self, a, b):
        return a == b or b in self.reach_from(a)

    def live(self):
        if self._reach is None:
            self._reach = self.reachable(0, sensitive=False)    # structural liveness: dominators / loops are computed on it
        return self._reach

    def path_to(self, target, start=0, cut_edges=(), cut_nodes=()):
        """Shortest block path start..target avoiding cuts, or None."""
        cut_edges = set(cut_edges)
        cut_nodes = set(cut_nodes)
        prev = {start: None}
        dq = deque([start])
        while dq:
            u = dq.popleft()
            if u == target:
                out = []
                while u is not None:
                    out.append(u)
                    u = prev[u]
                return out[::-1]
            for v in self.succ[u]:
                if (u, v) in cut_edges or v in cut_nodes or v in prev:
                    continue
                prev[v] = u
                dq.append(v)
        return None

    def dominators(self):
        """dom[b] = set of blocks dominating b (for live blocks)."""
        if self._dom is not None:
            return self._dom
        live = self.live()
        order = self._rpo()
        dom = {b: set(live) for b in live}
        dom[0] = {0}
        changed = True
        while changed:
            changed = False
            for b in order:
                if b == 0:
                    continue
                ps = [p for p in self.pred[b] if p in live]
                if not ps:
                    continue
                new = set.intersection(*[dom[p] for p in ps]) | {b}
                if new != dom[b]:
                    dom[b] = new
                    changed = True
        self._dom = dom
        return dom

    def _rpo(self):
        seen = set()
        order = []

        def dfs(u):
            stack = [(u, iter(self.succ[u]))]
            seen.add(u)
            while stack:
                node, it = stack[-1]
                adv = False
                for v in it:
                    if v not in seen:
                        seen.add(v)
                        stack.append((v, iter(self.succ[v])))
                        adv = True
                        break
                if not adv:
                    order.append(node)
                    stack.pop()

        dfs(0)
        return order[::-1]

    def dominates(self, a, b):
        d = self.dominators()
        return b in d and a in d[b]

    def return_blocks(self):
        return [b.i for b in self.body.blocks if not b.cleanup and b.term.k == "return"
                and b.i in self.live()]

    def loops(self):
        """Natural loops: list of (header, set(blocks)) from back edges."""
        dom = self.dominators()
        out = []
        for u in self.live():
            for v in self.succ[u]:
                if v in dom.get(u, ()):  # back edge u->v
                    blocks = {v, u}
                    st = [u]
                    while st:
                        x = st.pop()
                        if x == v:
                            continue
                        for p in self.pred[x]:
                            if p not in blocks and p in self.live():
                                blocks.add(p)
                                st.append(p)
                    out.append((v, blocks))
        # natural loops sharing a header (several back edges, e.g. `continue`) are one loop
        merged = {}
        for h, bl in out:
            merged.setdefault(h, set()).update(bl)
        return sorted(merged.items())


# ----------------------------------------------------------------- origins

class Origin:
    """A leaf of value-flow resolution."""
    __slots__ = ("kind", "body", "blk", "idx", "path", "info")

    def __init__(self, kind, body, blk=None, idx=None, path=(), info=None):
        self.kind = kind      # param | const | call | agg | binop | unop | discr | resume | repeat | other
        self.body = body
        self.blk = blk
        self.idx = idx        # stmt index, or None for terminator
        self.path = tuple(path)
        self.info = info      # param: local index; const: Operand; call: Term; agg: Rvalue ...

    def key(self):
        if self.kind == "field":
            return ("field", None, None, None, self.path, self.info)
        return (self.kind, self.body.path, self.blk, self.idx, self.path,
                self.info if self.kind == "param" else None)

    def __hash__(self):
        return hash(self.key())

    def __eq__(self, o):
        return isinstance(o, Origin) and self.key() == o.key()

    @property
    def term(self):
        return self.body.blocks[self.blk].term if self.kind == "call" else None

    @property
    def callee(self):
        t = self.term
        return t.callee if t is not None else None

    def span(self):
        if self.blk is None:
            return self.body.span
        b = self.body.blocks[self.blk]
        if self.idx is None:
            return b.term.span
        return b.stmts[self.idx].span

    def loc(self):
        return span_str(self.span())

    def __repr__(self):
        if self.kind == "param":
            nm = None
            for e in self.body.debug:
                if "place" in e:
                    pl = Place(e["place"])
                    if pl.local == self.info and norm_path(pl) == self.path[:len(norm_path(pl))]:
                        nm = e["name"]
            return "param(%s _%s%s%s)" % (self.body.path, self.info, path_str(self.path),
                                          " '%s'" % nm if nm else "")
        if self.kind == "const":
            return "const(%r)" % (self.info,)
        if self.kind == "field":
            return "field(%s.%s%s)" % (self.info[0], self.info[1], path_str(self.path))
        if self.kind == "call":
            return "call(%s%s @%s)" % (self.callee.rpath if self.callee else "?", path_str(self.path),
                                       self.loc())
        return "%s(@%s%s)" % (self.kind, self.loc(), path_str(self.path))


def _last_local_field(q):
    for i in range(len(q) - 1, -1, -1):
        e = q[i]
        if e[0] == "f" and len(e) == 3:
            return i
    return None


def _variant_matches(path_elem, variant):
    return path_elem[0] == "v" and str(path_elem[1]) == str(variant)


# Callee transformers -------------------------------------------------------
# Each entry: regex on declared-or-resolved path -> function(rest_path, term) ->
# list of (arg_index, new_path, level). `level` is the minimum resolution level
# at which this step may be crossed.

def _id(arg=0, level=IDENT):
    return lambda rest, term: [(arg, rest, level)]


def _try_branch(rest, term):
    sh = (term.callee.self_head or {}).get("path", "")
    ok = "Some" if sh.endswith("Option") else "Ok"
    if rest[:1] == (("v", "Continue"),):
        r = rest[1:]
        if r[:1] == (("f", "0"),):
            r = r[1:]
        if sh.endswith("Poll"):
            # Poll<Result<T,E>>::branch : Continue(Poll<T>) — keep opaque
            return None
        return [(0, (("v", ok), ("f", "0")) + r, IDENT)]
    if rest[:1] == (("v", "Break"),):
        r = rest[1:]
        if r[:1] == (("f", "0"),):
            r = r[1:]
        if r[:2] == (("v", "Err"), ("f", "0")) and not sh.endswith("Poll"):
            # the error carried by the residual is the operand's error
            return [(0, r, IDENT)]
        return [(0, (("residual",),), IDENT)]
    if not rest:
        return [(0, (), OKFLOW)]
    return None


def _poll(rest, term):
    if rest[:1] == (("v", "Ready"),):
        r = rest[1:]
        if r[:1] == (("f", "0"),):
            r = r[1:]
        return [(0, (("await",),) + r, IDENT)]
    if not rest:
        return [(0, (("await?",),), OKFLOW)]
    return None


def _okpres(rest, term):
    # Result<T,E> -> Result<T,E'> keeping the Ok payload
    if rest[:2] == (("v", "Ok"), ("f", "0")):
        return [(0, rest, IDENT)]
    if not rest:
        return [(0, (), OKFLOW)]
    return None


def _unwrap(variant):
    def f(rest, term):
        return [(0, (("v", variant), ("f", "0")) + rest, IDENT)]
    return f


def _opt_unwrap(rest, term):
    sh = term.callee.impl_self or term.callee.path
    v = "Some" if "Option" in sh else "Ok"
    return [(0, (("v", v), ("f", "0")) + rest, IDENT)]


def _unwrap_or(rest, term):
    sh = term.callee.impl_self or term.callee.path
    v = "Some" if "Option" in sh else "Ok"
    return [(0, (("v", v), ("f", "0")) + rest, IDENT), (1, rest, IDENT)]


def _ok_or_else(rest, term):
    if rest[:2] == (("v", "Ok"), ("f", "0")):
        return [(0, (("v", "Some"), ("f", "0")) + rest[2:], IDENT)]
    if not rest:
        return [(0, (), OKFLOW)]
    return None


def _result_ok(rest, term):
    if rest[:2] == (("v", "Some"), ("f", "0")):
        return [(0, (("v", "Ok"), ("f", "0")) + rest[2:], IDENT)]
    if not rest:
        return [(0, (), OKFLOW)]
    return None


def _opt_preserve(rest, term):
    # Option<&T> from &Option<T> etc: as_ref/as_mut/take/cloned/copied
    return [(0, rest, IDENT)]


def _index(rest, term):
    # slicing: value is a part of arg0; the element remembers the call site so that
    # symbolic evaluation can recover the range operand
    return [(0, (("[]", term.site[0], term.site[1]),) + rest, IDENT)]


def _map_fn_item(wrapper):
    """`W::map(v, f)` with `f` a function item that has a transformer of its own (`poll(..).map(unwrap_joinhandle_value)`):
    the payload of the result is f applied to the payload of v."""
    def tf(rest, term):
        if len(term.args) < 2 or not term.args[1].is_const or not term.args[1].fn:
            return None
        inner = None
        for fpath in (term.args[1].fn.get("path"), (term.args[1].fn.get("resolved") or {}).get("path")):
            for rx, f in _TRANS_RE:
                if fpath and rx.match(fpath):
                    inner = f
                    break
            if inner is not None:
                break
        if inner is not None and not rest:
            # the whole wrapped value: unchanged when f is an identity-like conversion (`key.map(String::from)`)
            try:
                r0 = inner((), None)
            except Exception:
                r0 = None
            if r0 == [(0, (), IDENT)]:
                return [(0, (), IDENT)]
            return None
        if inner is None or rest[:2] != wrapper:
            return None
        try:
            r = inner(rest[2:], None)
        except Exception:
            return None
        if not isinstance(r, list):
            return None
        out = []
        for (ai, pth, lvl) in r:
            if ai != 0:
                return None
            out.append((0, wrapper + tuple(pth), lvl))
        return out
    return tf


def _from_residual(rest, term):
    # the value built from a residual is always the failure variant
    if rest[:1] in ((("v", "Ok"),), (("v", "Some"),), (("v", "Continue"),)):
        return "DEAD"
    if rest[:2] == (("v", "Ready"), ("f", "0")) and rest[2:3] == (("v", "Ok"),):
        return "DEAD"
    if rest[:2] == (("v", "Err"), ("f", "0")):
        # the error of the built value is (a conversion of) the residual's error
        return [(0, rest, OKFLOW)]
    return None


TRANSFORMERS = [
    (r"^std::ops::FromResidual::from_residual$", _from_residual),
    (r"^std::ops::Try::branch$", _try_branch),
    (r"^(futures::Future|std::future::Future|core::future::Future)::poll$", _poll),
    (r"^std::future::IntoFuture::into_future$", _id()),
    (r"^std::pin::Pin::<Ptr>::(new|new_unchecked|get_mut|as_mut|into_inner|get_ref)$", _id()),
    (r"^std::clone::Clone::clone$", _id()),
    (r"^std::borrow::ToOwned::to_owned$", _id()),
    (r"^std::convert::(Into::into|From::from|AsRef::as_ref|AsMut::as_mut)$", _id()),
    (r"^std::borrow::(Borrow::borrow|BorrowMut::borrow_mut)$", _id()),
    (r"^std::ops::(Deref::deref|DerefMut::deref_mut)$", _id()),
    (r"^std::path::Path::(to_path_buf|new|as_os_str)$", _id()),
    (r"^std::path::PathBuf::(as_path|into_boxed_path)$", _id()),
    (r"^std::string::String::(as_str|as_bytes|into_bytes|as_mut_str)$", _id()),
    (r"^std::string::ToString::to_string$", _id(level=OKFLOW)),
    (r"^core::str::<impl str>::(as_bytes|to_owned|to_string)$", _id()),
    (r"^std::vec::Vec::<T, A>::(as_slice|as_mut_slice)$", _id()),
    (r"^std::slice::<impl \[T\]>::to_vec$", _id()),
    (r"^alloc::slice::<impl \[T\]>::to_vec$", _id()),
    (r"^std::option::Option::<T>::(as_ref|as_mut|take|cloned|copied|as_deref|as_deref_mut)$", _opt_preserve),
    (r"^std::option::Option::<&T>::(cloned|copied)$", _opt_preserve),
    (r"^std::option::Option::<&mut T>::(cloned|copied)$", _opt_preserve),
    (r"^std::result::Result::<T, E>::(as_ref|as_mut)$", _opt_preserve),
    (r"^std::option::Option::<T>::(unwrap|expect|unwrap_unchecked)$", _unwrap("Some")),
    (r"^std::result::Result::<T, E>::(unwrap|expect|unwrap_unchecked)$", _unwrap("Ok")),
    (r"^std::option::Option::<T>::unwrap_or$", _unwrap_or),
    (r"^std::result::Result::<T, E>::unwrap_or$", _unwrap_or),
    (r"^std::option::Option::<T>::(ok_or_else|ok_or)$", _ok_or_else),
    (r"^std::result::Result::<T, E>::ok$", _result_ok),
    (r"^std::result::Result::<T, E>::(map_err|or_else)$", _okpres),
    (r"^errors::IoErrorExt::with_context$", _okpres),
    (r"^std::result::Result::<T, E>::(map|and_then|inspect|inspect_err)$", lambda rest, term: [(0, (), OKFLOW)] if not rest else None),
    (r"^std::ops::(Index::index|IndexMut::index_mut)$", _index),
    (r"^std::iter::IntoIterator::into_iter$", _id()),
    (r"^std::sync::Mutex::<T>::lock$", lambda rest, term: [(0, rest[2:] if rest[:2] == (("v", "Ok"), ("f", "0")) else rest, IDENT)]),
    (r"^std::future::get_context$", _id()),
    (r"^async_lib::unwrap_joinhandle_value$", lambda rest, term: [(0, (("await_join",),) + rest, IDENT)]),
    (r"^std::mem::(take|replace)$", _id()),
    (r"^std::task::Poll::<T>::map$", _map_fn_item((("v", "Ready"), ("f", "0")))),
    (r"^std::option::Option::<T>::map$", _map_fn_item((("v", "Some"), ("f", "0")))),
    (r"^std::boxed::Box::<T>::new$", _id()),
]
# identity steps that create a *new object* (value copies): crossed when asking "where does this
# value come from", not when asking "which storage does this reference alias"
COPYING = re.compile(
    r"^(std::clone::Clone::clone|std::borrow::ToOwned::to_owned|std::convert::(Into::into|From::from)|"
    r"std::path::Path::to_path_buf|std::string::ToString::to_string|core::str::<impl str>::(to_owned|to_string)|"
    r"(std|alloc)::slice::<impl \[T\]>::to_vec|std::option::Option::<&(mut )?T>::(cloned|copied)|"
    r"std::option::Option::<T>::(cloned|copied)|std::string::String::into_bytes|std::mem::(take|replace)|"
    r"std::option::Option::<T>::take)$")
_TRANS_RE = [(re.compile(p), f) for p, f in TRANSFORMERS]
_trans_cache = {}


def transformer_for(callee):
    if callee is None:
        return None
    p = callee.path
    if p in _trans_cache:
        return _trans_cache[p]
    r = None
    for rx, f in _TRANS_RE:
        if rx.match(p):
            r = f
            break
    _trans_cache[p] = r
    return r


class BodyIndex:
    """Per-body definition index."""

    def __init__(self, body):
        self.body = body
        self.cfg = Cfg(body)
        self.defs = {}   # local -> list of (kind, blk, idx, dest_path, obj)
        live = self.cfg.live()
        for b in body.blocks:
            if b.cleanup or b.i not in live:
                continue
            for i, s in enumerate(b.stmts):
                if s.k == "assign":
                    self.defs.setdefault(s.place.local, []).append(
                        ("assign", b.i, i, norm_path(s.place), s))
            t = b.term
            t.site = (body.path, b.i)
            if t.k == "call" and t.dest is not None:
                self.defs.setdefault(t.dest.local, []).append(
                    ("call", b.i, None, norm_path(t.dest), t))
            elif t.k == "yield" and t.dest is not None:
                self.defs.setdefault(t.dest.local, []).append(
                    ("yield", b.i, None, norm_path(t.dest), t))
        self._mut = None
        self._memo = {}

    # -- &mut argument index (for DEPEND mode) ---------------------------
    def mutated_by(self):
        """local -> list of (blk, path) of calls that receive a `&mut` derived from it."""
        if self._mut is None:
            m = {}
            for b, t in self.body.calls():
                if b.i not in self.cfg.live():
                    continue
                tys = t.j.get("arg_tys", [])
                for ai, a in enumerate(t.args):
                    if a.place is None:
                        continue
                    ty = tys[ai] if ai < len(tys) else ""
                    if not (ty.startswith("&mut ") or ty.startswith("std::pin::Pin<&mut ")
                            or ty.startswith("*mut ")):
                        continue
                    _, visited = self._resolve(a.place.local, norm_path(a.place), IDENT, want_visited=True, at=b.i,
                                               alias_only=True)
                    for (l, p, _a) in visited:
                        m.setdefault(l, []).append((b.i, p, ai))
            self._mut = m
        return self._mut

    # -- resolution ------------------------------------------------------
    def resolve_place(self, place, level=IDENT, at=None):
        return self.resolve(place.local, norm_path(place), level, at if at is not None else place.blk)

    def resolve_operand(self, op, level=IDENT, blk=None):
        if op.place is not None:
            return self.resolve_place(op.place, level, blk)
        return {Origin("const", self.body, blk, None, (), op)}

    def resolve(self, local, path=(), level=IDENT, at=None):
        """`at` = block where the value is used: only definitions that can reach it are followed
        (reachability-aware, not kill-aware)."""
        key = (local, tuple(path), level, at)
        if key in self._memo:
            return self._memo[key]
        out, _ = self._resolve(local, tuple(path), level, at=at)
        self._memo[key] = out
        return out

    def aliases(self, place, at=None):
        _, visited = self._resolve(place.local, norm_path(place), IDENT, want_visited=True, at=at)
        return {(l, q) for (l, q, _a) in visited}

    def _resolve(self, local, path, level, want_visited=False, at=None, alias_only=False):
        self._alias_only = alias_only
        try:
            return self._resolve2(local, path, level, want_visited, at)
        finally:
            self._alias_only = False

    def _resolve2(self, local, path, level, want_visited=False, at=None):
        body = self.body
        out = set()
        seen = set()
        work = [(local, tuple(path), at)]
        mut = self.mutated_by() if level >= DEPEND else None
        cfg = self.cfg
        while work:
            l, q, at = work.pop()
            if (l, q, at) in seen:
                continue
            seen.add((l, q, at))
            if len(q) > 12 or len(seen) > 4000:
                # cyclic data flow that keeps wrapping the value: give up on this branch
                fi = _last_local_field(q)
                if fi is not None:
                    out.add(Origin("field", body, None, None, q[fi + 1:], (q[fi][2], q[fi][1])))
                else:
                    out.add(Origin("other", body, None, None, (), ("pathcap", l)))
                continue
            defs = self.defs.get(l, [])
            is_arg = 1 <= l <= body.arg_count
            if is_arg:
                fi = _last_local_field(q)
                is_env = body.def_kind == "Closure" and l == 1
                if fi is not None and not (is_env and fi == 0):
                    # object-insensitive, field-sensitive abstraction for crate ADTs reached through a
                    # parameter (`self.f`, `opts.f`): the value is "field f of its ADT"; sources are
                    # collected program-wide (Program.field_sources)
                    if is_env:
                        # capture of the closure env: keep the capture so that it can be lifted first
                        out.add(Origin("param", body, None, None, q, l))
                    else:
                        out.add(Origin("field", body, None, None, q[fi + 1:], (q[fi][2], q[fi][1])))
                else:
                    out.add(Origin("param", body, None, None, q, l))
            if not defs and not is_arg:
                out.add(Origin("other", body, None, None, q, ("undef", l)))
            for kind, blk, idx, d, obj in defs:
                if at is not None and not cfg.can_reach(blk, at):
                    continue
                if q[:len(d)] == d:
                    rest = q[len(d):]
                elif d[:len(q)] == q:
                    # partial definition of the queried value
                    if level >= DEPEND:
                        rest = ()
                    else:
                        continue
                else:
                    continue
                if kind == "assign":
                    self._rhs(obj.rv, blk, idx, rest, level, work, out)
                elif kind == "call":
                    self._call(obj, blk, rest, level, work, out)
                elif kind == "yield":
                    out.add(Origin("resume", body, blk, None, rest, None))
            if mut is not None:
                for (blk, p, ai) in mut.get(l, []):
                    if not (q[:len(p)] == p or p[:len(q)] == q):
                        continue
                    if at is not None and not cfg.can_reach(blk, at):
                        continue
                    t = body.blocks[blk].term
                    out.add(Origin("call", body, blk, None, (("mutarg", ai),), None))
                    for aj, a in enumerate(t.args):
                        if aj != ai and a.place is not None:
                            work.append((a.place.local, norm_path(a.place), blk))
        if want_visited:
            return out, seen
        return out, None

    def _push_op(self, op, rest, blk, work, out):
        if op.place is not None:
            work.append((op.place.local, norm_path(op.place) + tuple(rest), blk))
        else:
            out.add(Origin("const", self.body, blk, None, tuple(rest), op))

    def _rhs(self, rv, blk, idx, rest, level, work, out):
        body = self.body
        k = rv.k
        if k == "use":
            self._push_op(rv.ops[0], rest, blk, work, out)
        elif k in ("ref", "rawptr", "copyforderef"):
            work.append((rv.place.local, norm_path(rv.place) + tuple(rest), blk))
        elif k == "cast":
            ck = rv.j["cast"]
            if ck.startswith("PointerCoercion") or ck in ("PtrToPtr", "Transmute", "Subtype"):
                self._push_op(rv.ops[0], rest, blk, work, out)
            else:
                out.add(Origin("cast", body, blk, idx, rest, rv))
                if level >= OKFLOW:
                    self._push_op(rv.ops[0], rest, blk, work, out)
        elif k == "agg":
            a = rv.j["agg"]
            if a in ("adt", "tuple", "closure", "coroutine", "coroutine_closure") and rest:
                r = rest
                if a == "adt" and r[0][0] == "v":
                    if not _variant_matches(r[0], rv.j["variant"]):
                        return  # different variant: this def cannot supply the queried payload
                    r = r[1:]
                if r and r[0][0] == "f":
                    names = rv.j.get("fields")
                    sel = None
                    if a == "tuple" or names is None:
                        try:
                            sel = int(r[0][1])
                        except ValueError:
                            sel = None
                    else:
                        for i, nm in enumerate(names):
                            if str(nm) == str(r[0][1]):
                                sel = i
                    if sel is not None and sel < len(rv.ops):
                        self._push_op(rv.ops[sel], r[1:], blk, work, out)
                        return
                    return
                if not r:
                    out.add(Origin("agg", body, blk, idx, (), rv))
                    if level >= DEPEND:
                        for o in rv.ops:
                            self._push_op(o, (), blk, work, out)
                    return
                out.add(Origin("agg", body, blk, idx, r, rv))
                if level >= DEPEND:
                    for o in rv.ops:
                        self._push_op(o, (), blk, work, out)
            else:
                out.add(Origin("agg", body, blk, idx, rest, rv))
                if level >= DEPEND:
                    for o in rv.ops:
                        self._push_op(o, (), blk, work, out)
        elif k in ("binop", "unop"):
            # `_36 = AddWithOverflow(a,b)`; `_16 = move _36.0` -> treat .0 of a checked op as the op
            out.add(Origin(k, body, blk, idx, rest, rv))
            if level >= DEPEND:
                for o in rv.ops:
                    self._push_op(o, (), blk, work, out)
        elif k == "discr":
            out.add(Origin("discr", body, blk, idx, rest, rv))
            if level >= DEPEND:
                work.append((rv.place.local, norm_path(rv.place), blk))
        elif k == "repeat":
            out.add(Origin("repeat", body, blk, idx, rest, rv))
        else:
            out.add(Origin("other", body, blk, idx, rest, rv))

    def _call(self, term, blk, rest, level, work, out):
        body = self.body
        tr = transformer_for(term.callee)
        crossed = False
        if tr is not None and getattr(self, "_alias_only", False) and COPYING.search(term.callee.path):
            tr = None
        if tr is not None:
            res = tr(tuple(rest), term)
            if res == "DEAD":
                return
            if res:
                for (ai, npath, lv) in res:
                    if lv <= level and ai < len(term.args):
                        self._push_op(term.args[ai], npath, blk, work, out)
                        crossed = True
        if not crossed:
            out.add(Origin("call", body, blk, None, rest, None))
        if level >= DEPEND:
            for a in term.args:
                self._push_op(a, (), blk, work, out)


# ----------------------------------------------------------------- program

class LogicalFn:
    """An fn, or an `async fn` together with its coroutine body."""

    def __init__(self, path, outer, body):
        self.path = path
        self.outer = outer      # Body of the declared fn
        self.body = body        # Body holding the code (coroutine body for async fn)
        self.is_async = outer is not body

    def __repr__(self):
        return "<fn %s%s>" % (self.path, " async" if self.is_async else "")


class Program:
    def __init__(self, facts):
        self.facts = facts
        self.config = facts.config
        self.bodies = facts.bodies
        self.by_path = facts.by_path
        self._idx = {}
        self._fsrc = None
        self._lift_memo = {}
        # closure construction sites: closure path -> list of (parent body, blk, idx, Rvalue)
        self.ctor_sites = {}
        for b in self.bodies:
            for blk in b.blocks:
                if blk.cleanup:
                    continue
                for i, s in enumerate(blk.stmts):
                    if s.k == "assign" and s.rv.k == "agg" and s.rv.j["agg"] in (
                            "closure", "coroutine", "coroutine_closure"):
                        self.ctor_sites.setdefault(s.rv.j["path"], []).append((b, blk.i, i, s.rv))
        # logical functions
        self.fns = {}
        self.body_fn = {}     # body path -> LogicalFn that owns the code
        for b in self.bodies:
            if b.def_kind in ("Fn", "AssocFn"):
                inner = b
                if b.is_async:
                    # the async fn's outer body constructs exactly one coroutine
                    for blk in b.blocks:
                        for s in blk.stmts:
                            if s.k == "assign" and s.rv.k == "agg" and s.rv.j["agg"] == "coroutine":
                                cb = self.by_path.get(s.rv.j["path"])
                                if cb is not None:
                                    inner = cb
                lf = LogicalFn(b.path, b, inner)
                self.fns[b.path] = lf
                self.body_fn[b.path] = lf
                self.body_fn[inner.path] = lf

    def field_sources(self, owner, name):
        """Program-wide sources of a crate ADT field: (body, blk, idx, Operand) for every aggregate
        construction of the owner and every direct assignment to the field."""
        if self._fsrc is None:
            m = {}
            local_adts = {a["path"] for a in self.facts.items["adts"]}
            for b in self.bodies:
                for blk in b.blocks:
                    if blk.cleanup:
                        continue
                    for i, s in enumerate(blk.stmts):
                        if s.k != "assign":
                            continue
                        rv = s.rv
                        if rv.k == "agg" and rv.j["agg"] == "adt" and rv.j["path"] in local_adts:
                            adt = rv.j["path"]
                            is_enum = any(a["path"] == adt and a["kind"] == "Enum" for a in self.facts.items["adts"])
                            own = "%s::%s" % (adt, rv.j["variant"]) if is_enum else adt
                            for fn_, op in zip(rv.j["fields"], rv.ops):
                                m.setdefault((own, str(fn_)), []).append((b, blk.i, i, op))
                        # direct field assignment: last projection elem is a local-ADT field
                        np_ = norm_path(s.place)
                        if np_ and np_[-1][0] == "f" and len(np_[-1]) == 3:
                            if rv.k == "use":
                                m.setdefault((np_[-1][2], np_[-1][1]), []).append((b, blk.i, i, rv.ops[0]))
                            else:
                                m.setdefault((np_[-1][2], np_[-1][1]), []).append((b, blk.i, i, None))
                    t = blk.term
                    if t.k == "call" and t.dest is not None:
                        np_ = norm_path(t.dest)
                        if np_ and np_[-1][0] == "f" and len(np_[-1]) == 3:
                            m.setdefault((np_[-1][2], np_[-1][1]), []).append((b, blk.i, None, None))
            self._fsrc = m
        return self._fsrc.get((owner, name), [])

    def idx(self, body):
        i = self._idx.get(body.path)
        if i is None:
            i = BodyIndex(body)
            self._idx[body.path] = i
        return i

    def cfg(self, body):
        return self.idx(body).cfg

    # -- structure -------------------------------------------------------
    def closures_of(self, body, recursive=True):
        """Closure bodies constructed (lexically nested) in `body`, excluding coroutine wrappers
        that are logical functions of their own nested fns."""
        out = []
        for c in self.bodies:
            if c.def_kind == "Closure" and c.parent == body.path:
                out.append(c)
                if recursive:
                    out.extend(self.closures_of(c, True))
        return out

    def owner_fn(self, body):
        """LogicalFn whose code (lexically) contains this body."""
        b = body
        while b is not None:
            lf = self.body_fn.get(b.path)
            if lf is not None:
                return lf
            b = self.by_path.get(b.parent) if b.parent else None
        # a body nested in a non-fn item (static / const / thread_local! initialiser)
        lf = LogicalFn(body.path, body, body)
        self.body_fn[body.path] = lf
        return lf

    def fn_bodies(self, lf):
        """All bodies making up a logical fn: code body + nested closures (not nested fns)."""
        out = [lf.body]
        out.extend(self.closures_of(lf.body, True))
        if lf.outer is not lf.body:
            out.append(lf.outer)
        return out

    def callee_fn(self, term):
        """LogicalFn for a call terminator if the callee is crate-local."""
        c = term.callee
        if c is None:
            return None
        for p in (c.rpath, c.path):
            lf = self.fns.get(p)
            if lf is not None:
                return lf
            # poll on a local coroutine resolves to the coroutine body
            lf = self.body_fn.get(p)
            if lf is not None:
                return lf
        return None

    # -- lifting of closure captures ------------------------------------
    def resolve_lifted(self, body, local, path=(), level=IDENT, _visited=None, at=None):
        """resolve; lift closure captures into the enclosing bodies; descend into the closure run by
        spawn_blocking when its awaited result is projected; abstract parameter-rooted crate-ADT
        fields. Cycles across bodies are cut by a visited set."""
        top = _visited is None
        if top:
            mk = (body.path, local, tuple(path), level, at)
            if mk in self._lift_memo:
                return self._lift_memo[mk]
            _visited = set()
        key = (body.path, local, tuple(path))
        if key in _visited:
            return set()
        _visited.add(key)
        res = self.idx(body).resolve(local, path, level, at)
        out = set()
        for o in res:
            if o.kind == "param" and o.body.def_kind == "Closure" and o.info == 1 and o.path and o.path[0][0] == "f":
                lifted = self._lift1(o, level, _visited)
                if lifted is None:
                    out.add(self._abstract(o))
                else:
                    out |= lifted
            elif o.kind == "call" and o.path and o.path[0] == ("await",) and o.callee is not None \
                    and o.callee.path in SPAWN_BLOCKING:
                rest = o.path[1:]
                if rest[:1] == (("await_join",),):
                    rest = rest[1:]
                elif o.callee.path.startswith("tokio::") and rest[:2] == (("v", "Ok"), ("f", "0")):
                    rest = rest[2:]      # tokio: awaiting a JoinHandle<T> yields Result<T, JoinError>
                d = self._closure_return(o, rest, level, _visited)
                if d is None:
                    out.add(self._abstract(o))
                else:
                    out |= d
            else:
                out.add(self._abstract(o))
        if top:
            self._lift_memo[mk] = out
        return out

    def _abstract(self, o):
        if o.kind in ("param", "other", "resume"):
            fi = _last_local_field(o.path)
            if fi is not None:
                return Origin("field", o.body, None, None, o.path[fi + 1:], (o.path[fi][2], o.path[fi][1]))
        return o

    def _lift1(self, origin, level, visited):
        b = origin.body
        cap = origin.path[0][1]
        rest = origin.path[1:]
        sites = self.ctor_sites.get(b.path, [])
        if not sites:
            return None
        out = set()
        for (pb, blk, i, rv) in sites:
            names = rv.j.get("fields", [])
            sel = None
            for k, nm in enumerate(names):
                if str(nm) == str(cap):
                    sel = k
            if sel is None or sel >= len(rv.ops):
                return None
            op = rv.ops[sel]
            if op.place is None:
                out.add(Origin("const", pb, blk, i, rest, op))
            else:
                out |= self.resolve_lifted(pb, op.place.local, norm_path(op.place) + rest, level, visited, at=blk)
        return out

    def _closure_return(self, o, rest, level, visited):
        """Value returned by the closure passed as arg0 of the call origin `o`."""
        t = o.term
        if not t.args or t.args[0].place is None:
            return None
        leaves = self.idx(o.body).resolve_place(t.args[0].place, IDENT)
        out = set()
        for l in leaves:
            if l.kind == "agg" and l.info.j["agg"] == "closure":
                cb = self.by_path.get(l.info.j["path"])
                if cb is None:
                    return None
                out |= self.resolve_lifted(cb, 0, tuple(rest), level, visited)
            else:
                return None
        return out

    def resolve_pl(self, body, place, level=IDENT):
        """Lifted resolution of a Place at its own use site."""
        return self.resolve_lifted(body, place.local, norm_path(place), level, at=place.blk)

    def resolve_op(self, body, op, level=IDENT, blk=None):
        """Resolve an operand used in block `blk` (None: flow-insensitive)."""
        if blk is None:
            blk = op.blk
        if op.place is None:
            return {Origin("const", body, blk, None, (), op)}
        return self.resolve_lifted(body, op.place.local, norm_path(op.place), level, at=blk)

    # -- logical parameters ---------------------------------------------
    def param_index(self, origin):
        """If origin denotes a parameter of a logical fn, return (LogicalFn, index, rest_path).
        Index is 0-based over declared parameters."""
        if origin.kind != "param":
            return None
        b = origin.body
        lf = self.body_fn.get(b.path)
        if lf is None:
            return None
        if lf.body is b and lf.is_async:
            # coroutine body: params are captures of _1 in declaration order
            if origin.info != 1 or not origin.path or origin.path[0][0] != "f":
                return None
            cap = origin.path[0][1]
            sites = self.ctor_sites.get(b.path, [])
            for (pb, blk, i, rv) in sites:
                names = rv.j.get("fields", [])
                for k, nm in enumerate(names):
                    if str(nm) == str(cap):
                        op = rv.ops[k]
                        if op.place is not None and 1 <= op.place.local <= pb.arg_count:
                            return (lf, op.place.local - 1, origin.path[1:] + norm_path(op.place))
            return None
        if lf.outer is b or lf.body is b:
            return (lf, origin.info - 1, origin.path)
        return None

    # -- call graph -------------------------------------------------------
    def call_sites(self, lf):
        """All (body, block, term) call sites in the bodies of a logical fn."""
        for b in self.fn_bodies(lf):
            cfg = self.cfg(b)
            for blk, t in b.calls():
                if blk.i in cfg.live():
                    yield b, blk, t

    def local_calls(self, lf):
        """(body, block, term, callee LogicalFn) for direct calls to crate fns (polls excluded)."""
        for b, blk, t in self.call_sites(lf):
            if t.callee is None or _is_poll(t.callee):
                continue
            g = self.callee_fn(t)
            if g is not None:
                yield b, blk, t, g

    def callers_of(self, lf):
        out = []
        for g in self.fns.values():
            for b, blk, t in self.call_sites(g):
                if self.callee_fn(t) is lf and t.callee and not _is_poll(t.callee):
                    out.append((g, b, blk, t))
        return out


def _is_poll(callee):
    return callee.path.endswith("Future::poll")


def callee_matches(term, *patterns):
    """True if the call's declared or resolved path matches any regex."""
    c = term.callee
    if c is None:
        return False
    for p in patterns:
        rx = p if hasattr(p, "match") else re.compile(p)
        if rx.search(c.path) or rx.search(c.rpath):
            return True
    return False
