"""A5: filesystem-effect inventory with a dependency model table, path
provenance classes and interprocedural (parametric) effect summaries."""
import re

from .core import IDENT, norm_path, Origin
from .symval import Sym, term_str, walk
from .facts import span_str

# ----------------------------------------------------------------- normalisation

_RT = [
    (re.compile(r"^(async_std|tokio)::fs::"), "std::fs::"),
    (re.compile(r"^(futures|tokio::io|futures_util::io|futures::io)::AsyncWriteExt::"), "std::io::Write::"),
    (re.compile(r"^(futures|tokio::io|futures_util::io|futures::io)::AsyncReadExt::"), "std::io::Read::"),
    (re.compile(r"^(futures|tokio::io|futures::io)::AsyncBufReadExt::"), "std::io::BufRead::"),
    (re.compile(r"^(async_std|tokio)::io::BufReader::"), "std::io::BufReader::"),
    (re.compile(r"^(async_std|tokio)::task::spawn_blocking$"), "rt::spawn_blocking"),
]


def norm_callee(path):
    for rx, rep in _RT:
        if rx.search(path):
            return rx.sub(rep, path)
    return path


def norm_ty(t):
    if not t:
        return t
    return re.sub(r"\b(async_std|tokio)::fs::", "std::fs::", t)


# ----------------------------------------------------------------- model table
# (regex on normalised declared callee path) -> (kind, mutating, roles{name: arg index})
# Roles: path/src/dst are path operands; handle is an open file / temp file operand; builder is an
# options builder whose constant flags are folded.

M = True
MODEL = [
    (r"^std::fs::read(_to_string)?$", "ReadFile", False, {"path": 0}),
    (r"^std::fs::File::open$", "Open", False, {"path": 0}),
    (r"^std::fs::File::(create|create_new)$", "Open", M, {"path": 0}),
    (r"^std::fs::File::options$", None, False, {}),
    (r"^std::fs::OpenOptions::open$", "Open", None, {"builder": 0, "path": 1}),
    (r"^std::fs::write$", "WriteFile", M, {"path": 0}),
    (r"^std::fs::copy$", "Copy", M, {"src": 0, "dst": 1}),
    (r"^std::fs::hard_link$", "HardLink", M, {"src": 0, "dst": 1}),
    (r"^std::fs::rename$", "Rename", M, {"src": 0, "dst": 1}),
    (r"^std::fs::remove_file$", "RemoveFile", M, {"path": 0}),
    (r"^std::fs::remove_dir(_all)?$", "RemoveDirAll", M, {"path": 0}),
    (r"^std::fs::create_dir$", "CreateDir", M, {"path": 0}),
    (r"^std::fs::create_dir_all$", "CreateDirAll", M, {"path": 0}),
    (r"^std::fs::DirBuilder::create$", "CreateDir", M, {"builder": 0, "path": 1}),
    (r"^std::fs::(metadata|symlink_metadata|exists|try_exists|canonicalize|read_link)$", "Stat", False, {"path": 0}),
    (r"^std::path::Path::(exists|try_exists|metadata|symlink_metadata|is_file|is_dir|is_symlink|canonicalize|read_link)$",
     "Stat", False, {"path": 0}),
    (r"^std::path::absolute$", "Stat", False, {"path": 0}),
    (r"^std::fs::read_dir$", "ReadDir", False, {"path": 0}),
    (r"^std::path::Path::read_dir$", "ReadDir", False, {"path": 0}),
    (r"^walkdir::WalkDir::new$", "ReadDir", False, {"path": 0}),
    (r"^std::fs::set_permissions$", "SetPerm", M, {"path": 0}),
    (r"^std::fs::File::(set_len|set_permissions|set_modified|set_times)$", "HandleMut", M, {"handle": 0}),
    (r"^std::fs::File::(sync_all|sync_data)$", "Sync", False, {"handle": 0}),
    (r"^std::os::unix::fs::symlink$", "Symlink", M, {"src": 0, "dst": 1}),
    (r"^std::os::windows::fs::symlink_(file|dir)$", "Symlink", M, {"src": 0, "dst": 1}),
    (r"^reflink_copy::(reflink|reflink_or_copy)$", "Reflink", M, {"src": 0, "dst": 1}),
    (r"^tempfile::NamedTempFile::new_in$", "CreateTemp", M, {"path": 0}),
    (r"^tempfile::(NamedTempFile::new|tempfile|tempdir|TempDir::new|Builder::<'_, '_>::tempfile|Builder::<'a, 'b>::tempfile|spooled_tempfile)$",
     "CreateTempGlobal", M, {}),
    (r"^tempfile::(tempfile_in|tempdir_in|TempDir::new_in|Builder::<'_, '_>::tempfile_in|Builder::<'a, 'b>::tempfile_in|NamedTempFile::with_prefix_in)$",
     "CreateTemp", M, {"path": 0}),
    (r"^tempfile::NamedTempFile::<F>::(persist|persist_noclobber)$", "Persist", M, {"handle": 0, "dst": 1}),
    (r"^tempfile::TempPath::(persist|persist_noclobber)$", "Persist", M, {"handle": 0, "dst": 1}),
    (r"^tempfile::(NamedTempFile::<F>::(keep|into_temp_path|into_parts|into_file)|TempPath::keep|TempDir::(keep|into_path))$",
     "TempEscape", M, {"handle": 0}),
    (r"^memmap2::(MmapMut::map_mut|MmapOptions::map_mut|MmapMut::map_anon)$", "Mmap", False, {"handle": 0}),
    (r"^memmap2::(Mmap::map|MmapOptions::map|MmapOptions::map_copy_read_only)$", "MmapRead", False, {"handle": -1}),
    (r"^memmap2::MmapMut::(flush|flush_async|flush_range|flush_async_range)$", "MmapFlush", False, {"handle": 0}),
    (r"^libc::(posix_fallocate64|posix_fallocate|fallocate|fallocate64|ftruncate|ftruncate64)$", "Fallocate", M, {"handle": 0, "len": 2}),
    (r"^std::env::(temp_dir|current_dir|home_dir)$", "EnvPath", False, {}),
    (r"^std::env::set_current_dir$", "Chdir", M, {"path": 0}),
]
_MODEL_RE = [(re.compile(p), k, m, r) for p, k, m, r in MODEL]

# io traits on handles (self type decides whether it is a filesystem effect)
_IO_WRITE = re.compile(r"^std::io::Write::(write|write_all|write_fmt|write_vectored|flush)$")
_IO_READ = re.compile(r"^std::io::(Read::(read|read_exact|read_to_end|read_to_string|read_vectored|bytes)|BufRead::(lines|read_line|read_until|fill_buf|split))$")
_POLL_WRITE = re.compile(r"::(AsyncWrite)::(poll_write|poll_flush|poll_close|poll_shutdown|poll_write_vectored)$")
_POLL_READ = re.compile(r"::(AsyncRead)::(poll_read|poll_read_vectored)$")
_FILE_TY = re.compile(r"^(&mut |&)*(std::fs::File|tempfile::NamedTempFile(<[^>]*>)?|std::io::BufWriter<.*>|std::io::BufReader<.*>|std::io::LineWriter<.*>)$")

# API of the filesystem-touching crates that is known to be effect-free
PURE = re.compile(
    r"^(std::fs::(OpenOptions::(new|read|write|append|create|create_new|truncate)|DirBuilder::(new|recursive)|"
    r"DirEntry::(path|file_name|file_type|metadata)|FileType::\w+|Metadata::\w+|ReadDir::\w+|Permissions::\w+|File::(metadata|try_clone))|"
    r"std::os::(fd|unix::io)::\w+::\w+|std::os::unix::fs::(MetadataExt|PermissionsExt|OpenOptionsExt|DirBuilderExt|FileTypeExt)::\w+|"
    r"tempfile::NamedTempFile::<F>::(as_file|as_file_mut|path|reopen)|tempfile::TempPath::\w+|tempfile::PersistError::\w+|"
    r"walkdir::(DirEntry::\w+|Error::\w+|WalkDir::(min_depth|max_depth|follow_links|sort_by|into_iter|contents_first|same_file_system))|"
    r"memmap2::MmapMut::(len|is_empty|as_ptr|as_mut_ptr)|memmap2::Mmap::(len|is_empty|as_ptr)|memmap2::MmapOptions::(new|len|offset)|"
    r"std::env::(var|var_os|args)|"
    r"libc::\w+_t)$")
FS_CRATES = re.compile(r"^(std::fs::|std::os::unix::fs::|std::os::windows::fs::|tempfile::|reflink_copy::|memmap2::|walkdir::|libc::|fs_extra::|std::env::)")


def _is_cycle(c):
    """A provenance class that bottoms out in the resolver's cycle marker (a loop-carried self reference)."""
    if not isinstance(c, tuple):
        return False
    if c[:1] == ("Unknown",) and "cycle" in str(c):
        return True
    if c and c[0] in ("Call",) and "cycle" in str(c) and "Unknown" in str(c):
        return True
    return False


class Effect:
    def __init__(self, kind, mutating, body, blk, term, roles, flags=None):
        self.kind = kind
        self.mutating = mutating
        self.body = body
        self.blk = blk
        self.term = term
        self.roles = roles          # name -> Operand
        self.flags = flags or {}
        self.terms = {}             # name -> symbolic term (filled lazily)
        self.classes = {}           # name -> path class

    def loc(self):
        return span_str(self.term.span)

    def __repr__(self):
        return "%s%s @%s %s" % (self.kind, self.flags or "", self.loc(),
                                {k: class_str(v) for k, v in self.classes.items()})


def _builder_flags(sym, body, op):
    """Fold a builder chain `X::new().a(true).b(true)` into {a: True, b: True}."""
    t = sym.of_operand(body, op)
    flags = {}
    unknown = False
    cur = t
    for _ in range(12):
        if cur[0] == "call":
            name = norm_callee(cur[1]).rsplit("::", 1)[-1]
            args = cur[2]
            if name in ("new", "options", "default"):
                break
            if len(args) >= 2 and args[1][0] == "const" and isinstance(args[1][1], bool):
                flags.setdefault(name, args[1][1])
            elif len(args) >= 2:
                flags.setdefault(name, "?")
                unknown = True
            if args:
                cur = args[0]
                continue
        unknown = True
        break
    if unknown:
        flags["?"] = True
    return flags


_BUILDER_SETTERS = re.compile(r"OpenOptions::(read|write|append|truncate|create|create_new|mode|custom_flags)$|DirBuilder::(recursive|mode)$")


def _statement_style_flags(prog, body, blk, op, flags):
    """Builder methods called on the builder *variable* (`let mut o = OpenOptions::new(); o.create(true); if c { o.truncate(true) }
    o.open(p)`) are not part of the receiver's value term. A setter that dominates the use sets its flag; one that merely may
    precede it makes the flags uncertain ('?': may be set)."""
    if op.place is None:
        return flags
    idx = prog.idx(body)
    cf = idx.cfg
    try:
        al = idx.aliases(op.place, at=blk.i)
    except Exception:
        return flags
    mut = idx.mutated_by()
    for (l, pth) in al:
        for (b2, mp, ai) in mut.get(l, []):
            t2 = body.blocks[b2].term
            if ai != 0 or t2.callee is None or b2 == blk.i:
                continue
            m = _BUILDER_SETTERS.search(norm_callee(t2.callee.path))
            if not m or not cf.can_reach(b2, blk.i):
                continue
            name = m.group(1) or m.group(2)
            val = t2.args[1].const_val if len(t2.args) > 1 and t2.args[1].is_const and isinstance(t2.args[1].const_val, bool) else "?"
            if cf.dominates(b2, blk.i) and val != "?":
                flags[name] = val
            else:
                if val is not False:
                    flags[name] = "?" if flags.get(name) is not True else True
                    flags["?"] = True
    return flags


def handle_kind(self_ty):
    s = norm_ty(self_ty or "")
    s = re.sub(r"^(&mut |&|std::pin::Pin<&mut |std::pin::Pin<&)+", "", s).rstrip(">") if s.startswith("std::pin") else re.sub(r"^(&mut |&)+", "", s)
    if s.startswith("std::fs::File"):
        return "File"
    if s.startswith("tempfile::NamedTempFile"):
        return "NamedTempFile"
    if s.startswith("std::io::Buf") or s.startswith("std::io::LineWriter") or re.match(r"^(async_std|tokio|futures)::io::Buf(Reader|Writer)", s):
        return "Buffered"
    if s.startswith("memmap2::MmapMut"):
        return "MmapMut"
    return None


class Inventory:
    """All filesystem effects of one configuration."""

    def __init__(self, prog, roles):
        self.prog = prog
        self.roles = roles
        self.sym = roles.sym
        self.effects = []          # all Effect
        self.by_body = {}          # body path -> [Effect]
        self.unmodelled = []       # (body, blk, term)
        self.unawaited = []        # effects of async fs calls whose future is dropped without .await
        self._scan()

    def _scan(self):
        prog = self.prog
        for body in prog.bodies:
            cfg = prog.cfg(body)
            for blk, t in body.calls():
                if blk.i not in cfg.live() or t.callee is None:
                    continue
                # a modelled function handed over *by name* (`spawn_blocking(NamedTempFile::new)`, `.map(fs::remove_file)`) runs
                # with arguments this call site does not show: a process-global temp file stays what it is; any other mutating
                # operation is of unknown location
                for a in t.args:
                    if a.is_const and a.fn:
                        fpath = norm_callee((a.fn.get("resolved") or {}).get("path") or a.fn.get("path") or "")
                        for rx, kind, mut, roles in _MODEL_RE:
                            if kind is not None and rx.search(fpath):
                                if kind == "CreateTempGlobal" or mut or mut is None:
                                    e2 = Effect("CreateTempGlobal" if kind == "CreateTempGlobal" else "Unmodelled", True, body, blk.i, t, {},
                                                {"by_name": fpath})
                                    self.effects.append(e2)
                                    self.by_body.setdefault(body.path, []).append(e2)
                                break
                e = self._effect_of(body, blk, t)
                if e is not None:
                    if self._is_async_fs(t) and not self._awaited(body, blk, t):
                        # a future of a runtime filesystem function that is never awaited: the operation never runs
                        self.unawaited.append(e)
                        continue
                    self.effects.append(e)
                    self.by_body.setdefault(body.path, []).append(e)

    @staticmethod
    def _is_async_fs(t):
        p = t.callee.path
        return bool(re.match(r"^(tokio|async_std)::fs::(?!File::|OpenOptions::|DirBuilder::|ReadDir::|DirEntry::)\w+$", p)) or \
            bool(re.match(r"^(tokio|async_std)::fs::(File::(open|create|create_new|sync_all|sync_data|set_len|metadata)|OpenOptions::open|DirBuilder::create)$", p))

    def _awaited(self, body, blk, t):
        """The future returned by this call reaches an `.await` (IntoFuture::into_future / a poll) or leaves the function
        (returned / stored / passed on: somebody else may await it)."""
        from .core import IDENT
        prog = self.prog
        for b2, t2 in body.calls():
            if t2.callee is None or not t2.args:
                continue
            if t2.callee.path.endswith("IntoFuture::into_future") or t2.callee.path.endswith("Future::poll") or \
                    "Pin::<Ptr>::new" in t2.callee.path or "join" in t2.callee.path or "spawn" in t2.callee.path:
                for a in t2.args:
                    for o in prog.resolve_op(body, a, IDENT, b2.i):
                        if o.kind == "call" and o.term is t:
                            return True
        # returned as the function's value
        for o in prog.resolve_lifted(body, 0, (), IDENT):
            if o.kind == "call" and o.term is t:
                return True
        return False

    def _effect_of(self, body, blk, t):
        c = t.callee
        np = norm_callee(c.path)
        for rx, kind, mut, roles in _MODEL_RE:
            if rx.search(np):
                if kind is None:
                    return None
                r = {k: t.args[i] for k, i in roles.items() if i < len(t.args)}
                flags = {}
                if "builder" in r:
                    flags = _builder_flags(self.sym, body, r["builder"])
                    flags = _statement_style_flags(self.prog, body, blk, r["builder"], flags)
                if kind == "Open":
                    if mut is None:
                        mutating = any(flags.get(k) for k in ("write", "append", "create", "create_new", "truncate", "?"))
                    else:
                        mutating = mut
                        if mut:
                            flags = {"write": True, "create": True, "truncate": True}
                    if not flags:
                        flags = {"read": True}
                elif kind == "CreateDirAll":
                    kind = "CreateDir"
                    flags = {"recursive": True}
                    mutating = True
                elif kind == "CreateDir":
                    flags = {"recursive": flags.get("recursive", False) if "builder" in r else False}
                    if "builder" in r and _builder_flags(self.sym, body, r["builder"]).get("?"):
                        flags["?"] = True
                    mutating = True
                else:
                    mutating = bool(mut)
                e = Effect(kind, mutating, body, blk.i, t, r, flags)
                self._classify(e)
                return e
        # io on handles
        if _IO_WRITE.search(np) or _POLL_WRITE.search(np):
            hk = handle_kind(c.self_ty) or handle_kind(c.resolved.get("impl_self") if c.resolved else None)
            if hk:
                e = Effect("WriteData", True, body, blk.i, t, {"handle": t.args[0]}, {"on": hk, "op": np.rsplit("::", 1)[-1]})
                self._classify(e)
                return e
            return None
        if _IO_READ.search(np) or _POLL_READ.search(np):
            hk = handle_kind(c.self_ty) or handle_kind(c.resolved.get("impl_self") if c.resolved else None)
            if hk:
                e = Effect("ReadData", False, body, blk.i, t, {"handle": t.args[0]}, {"on": hk})
                self._classify(e)
                return e
            return None
        # writes through a memory map: copy_from_slice / clone_from_slice / fill on a slice derived from MmapMut
        if np in ("core::slice::<impl [T]>::copy_from_slice", "core::slice::<impl [T]>::clone_from_slice",
                  "core::slice::<impl [T]>::fill", "std::ptr::copy_nonoverlapping", "std::ptr::copy"):
            tt = self.sym.of_operand(body, t.args[0])
            if t.args[0].place is not None:
                idx = self.prog.idx(body)
                for (l, pth) in idx.aliases(t.args[0].place):
                    if "MmapMut" in body.local_ty(l):
                        e = Effect("WriteData", True, body, blk.i, t, {"handle": t.args[0]},
                                   {"on": "MmapMut", "op": np.rsplit("::", 1)[-1]})
                        self._classify(e)
                        return e
            for st in walk(tt):
                if st[0] == "call" and "memmap2::MmapMut" in (st[1] + " " + (st[4] if len(st) > 4 else "")):
                    e = Effect("WriteData", True, body, blk.i, t, {"handle": t.args[0]}, {"on": "MmapMut", "op": np.rsplit("::", 1)[-1]})
                    self._classify(e)
                    return e
            # field of type Option<MmapMut> reached through deref_mut
            if "MmapMut" in term_str(tt):
                e = Effect("WriteData", True, body, blk.i, t, {"handle": t.args[0]}, {"on": "MmapMut", "op": np.rsplit("::", 1)[-1]})
                self._classify(e)
                return e
            return None
        if FS_CRATES.search(np) and not PURE.search(np):
            self.unmodelled.append((body, blk.i, t))
            e = Effect("Unmodelled", True, body, blk.i, t, {}, {"callee": np})
            return e
        return None

    # -- classification ---------------------------------------------------
    def _classify(self, e):
        for name, op in e.roles.items():
            if name in ("builder", "len"):
                continue
            t = self.sym.of_operand(e.body, op)
            e.terms[name] = t
            e.classes[name] = self.classify(t)

    def classify(self, t, depth=0):
        """Map a symbolic path/handle term to a provenance class (nested tuples)."""
        R = self.roles
        if depth > 12 or not isinstance(t, tuple):
            return ("Unknown", "depth")
        k = t[0]
        if k == "param":
            return ("Param", t[1], t[2], t[3])
        if k == "arg":
            # the parameter of a closure handed to `Option::map` & co.: the payload of the receiver
            recv = self._option_adaptor_receiver(t[1], t[2])
            if recv is not None and depth < 10:
                from .symval import _append_path
                return self.classify(_append_path(recv, (("v", "Some"), ("f", "0")) + tuple(t[3])), depth + 1)
            return ("ClosureArg", t[1], t[2], t[3])
        if k == "field":
            return ("Field", t[1], t[2], t[3])
        if k == "const":
            return ("Const", t[1])
        if k == "alt":
            cs = [self.classify(x, depth + 1) for x in t[1]]
            if not cs:
                return ("Unknown", "empty alternative")
            # a loop-carried alternative that only feeds the value back into itself adds nothing
            acyc = [c for c in cs if not _is_cycle(c)]
            if acyc and len(acyc) < len(cs):
                cs = acyc
            if all(c == cs[0] for c in cs):
                return cs[0]
            return ("Alt", tuple(cs))
        if k == "pushed":
            base = self.classify(t[1], depth + 1)
            segs = t[2]
            # PathBuf::new() + push(base') + ...  => base' joined with the rest
            if base[0] == "Call" and base[1] == "std::path::PathBuf::new" and segs:
                base = self.classify(segs[0], depth + 1)
                segs = segs[1:]
            for s in segs:
                base = ("Join", base, self._seg(s))
            return base
        if k == "fmt":
            return ("Fmt", term_str(t))
        if k == "call":
            rp = t[1]
            np = norm_callee(rp)
            args = t[2]
            path = t[3]
            if np in ("tempfile::NamedTempFile::<F>::persist", "tempfile::NamedTempFile::<F>::persist_noclobber") and \
                    tuple(path)[:2] == (("v", "Err"), ("f", "0")) and any(e[:2] == ("f", "file") for e in path):
                # PersistError.file: a failed persist hands the very same temp file back
                return self.classify(args[0], depth + 1)
            if R.is_content_path(rp) and len(args) >= 2:
                return ("Content", self.classify(args[0], depth + 1), args[1])
            if R.is_bucket_path(rp) and len(args) >= 2:
                return ("Bucket", self.classify(args[0], depth + 1), args[1])
            if np == "std::path::Path::parent":
                return ("Parent", self.classify(args[0], depth + 1))
            if np == "std::path::Path::join":
                return ("Join", self.classify(args[0], depth + 1), self._seg(args[1]))
            if np in ("std::fs::DirEntry::path", "walkdir::DirEntry::path", "walkdir::DirEntry::into_path"):
                src = self._iter_source(args[0], depth + 1)
                return ("Child", src)
            if np in ("tempfile::NamedTempFile::new_in",):
                return ("TempIn", self.classify(args[0], depth + 1))
            if np == "async_lib::create_named_tempfile" and args:
                # crate wrapper: classified through its own summary; treat as TempIn of its argument
                return ("TempIn", self.classify(args[0], depth + 1))
            if np in ("std::fs::File::open", "std::fs::File::create"):
                return ("Handle", self.classify(args[0], depth + 1), np.rsplit("::", 1)[-1])
            if np == "std::fs::OpenOptions::open" and len(args) >= 2:
                return ("Handle", self.classify(args[1], depth + 1), "options")
            if np in ("std::os::fd::AsRawFd::as_raw_fd", "std::os::fd::AsFd::as_fd", "std::os::unix::io::AsRawFd::as_raw_fd") or \
                    rp.endswith("AsRawFd>::as_raw_fd"):
                return self.classify(args[0], depth + 1)
            if np in ("tempfile::NamedTempFile::<F>::as_file", "tempfile::NamedTempFile::<F>::as_file_mut"):
                return self.classify(args[0], depth + 1)
            if np in ("std::ops::DerefMut::deref_mut", "std::ops::Deref::deref") and args:
                return self.classify(args[0], depth + 1)
            if re.search(r"::io::Buf(Reader|Writer)::<\w+>::(new|with_capacity)$", np) and args:
                return self.classify(args[-1], depth + 1)
            if np in ("memmap2::MmapMut::map_mut",):
                return ("Mmap", self.classify(args[0], depth + 1))
            if np in ("std::env::temp_dir", "std::env::current_dir", "std::env::home_dir"):
                return ("Env", np)
            if np in ("std::path::absolute", "std::fs::canonicalize", "std::path::Path::canonicalize"):
                return ("Abs", self.classify(args[0], depth + 1))
            if np in ("std::option::Option::<T>::map", "std::option::Option::<T>::and_then") and len(args) == 2 and args[1][0] == "agg" and \
                    tuple(path)[:2] == (("v", "Some"), ("f", "0")) and depth < 10:
                # `opt.map(|x| f(x))`: the payload of the result is what the closure returns
                cb = self.prog.by_path.get(args[1][1])
                if cb is not None and cb.def_kind == "Closure":
                    rt = self.sym.of_place(cb, 0, tuple(path)[2:] if np.endswith("::map") else tuple(path))
                    if rt[0] != "unknown":
                        return self.classify(rt, depth + 1)
            if np in ("std::path::PathBuf::from", "std::path::PathBuf::new") and not args:
                return ("Call", np)
            lf = self.prog.fns.get(rp)
            if lf is not None:
                # a private helper that builds / opens the path it is given: classify what it returns
                if not lf.outer.reachable and not lf.outer.impl_trait and depth < 6:
                    from .symval import inline_private_calls
                    skip = set(R.hash_fns) | set(R.bucket_path) | set(R.content_path)
                    it = inline_private_calls(self.sym, self.prog, t, skip=skip)
                    if it != t and not (it[0] == "call" and it[1] == rp):
                        c = self.classify(it, depth + 1)
                        if c[0] in ("Handle", "Content", "Bucket", "Join", "Parent", "TempIn", "Param", "Child", "Abs"):
                            return c
                return ("LocalCall", rp, tuple(self.classify(a, depth + 1) for a in args), path)
            return ("Call", np, tuple(self.classify(a, depth + 1) for a in args))
        if k == "agg":
            return ("Agg", t[1])
        if k == "proj":
            return ("Proj", self.classify(t[1], depth + 1), t[2])
        return ("Unknown", term_str(t)[:80])

    def _seg(self, s):
        if s[0] == "const":
            return ("lit", s[1])
        if s[0] == "fmt":
            return ("fmt", term_str(s))
        return ("dyn", term_str(s)[:120])

    def _iter_source(self, t, depth):
        """For a dir entry term, find the directory that was listed."""
        for st in walk(t):
            if st[0] == "call":
                np = norm_callee(st[1])
                if np in ("std::path::Path::read_dir", "std::fs::read_dir", "walkdir::WalkDir::new") and st[2]:
                    return self.classify(st[2][0], depth + 1)
        if t[0] == "arg":
            # the item parameter of a closure handed to an iterator adaptor (`read_dir(..)?.try_for_each(|entry| ..)`):
            # the items are those of the adaptor's receiver
            recv = self._adaptor_receiver(t[1], t[2])
            if recv is not None and depth < 10:
                return self._iter_source(recv, depth + 1)
            return ("ClosureArg", t[1], t[2], t[3])
        return ("Unknown", term_str(t)[:80])

    _ITEM_ADAPTORS = re.compile(r"^std::iter::Iterator::(try_for_each|for_each|map|filter_map|filter|flat_map|inspect|all|any|find|find_map|"
                                r"take_while|skip_while|map_while|position)$")
    _ACC_ADAPTORS = re.compile(r"^std::iter::Iterator::(fold|try_fold)$")

    def adaptor_of(self, closure_path):
        """(adaptor callee path, receiver term) of the single iterator-adaptor call the closure is created for, if any."""
        sites = self.prog.ctor_sites.get(closure_path, [])
        if len(sites) != 1:
            return None
        pb, blk_i, idx, rv = sites[0]
        holder = pb.blocks[blk_i].stmts[idx].place.local
        for blk, t in pb.calls():
            if t.callee is None or len(t.args) < 2:
                continue
            for ai, a in enumerate(t.args):
                if a.place is not None and a.place.local == holder and not a.place.proj and (
                        self._ITEM_ADAPTORS.match(t.callee.path) or self._ACC_ADAPTORS.match(t.callee.path)):
                    return t.callee.path, self.sym.of_operand(pb, t.args[0])
        return None

    _OPTION_ADAPTORS = re.compile(r"^std::option::Option::<T>::(map|and_then|filter|inspect|map_or|map_or_else|is_some_and)$")

    def _option_adaptor_receiver(self, closure_path, local):
        sites = self.prog.ctor_sites.get(closure_path, [])
        if len(sites) != 1 or local != 2:
            return None
        pb, blk_i, idx, rv = sites[0]
        holder = pb.blocks[blk_i].stmts[idx].place.local
        for blk, t in pb.calls():
            if t.callee is None or len(t.args) < 2:
                continue
            for ai, a in enumerate(t.args):
                if ai >= 1 and a.place is not None and a.place.local == holder and not a.place.proj and self._OPTION_ADAPTORS.match(t.callee.path):
                    return self.sym.of_operand(pb, t.args[0])
        return None

    def _adaptor_receiver(self, closure_path, local):
        """Symbolic term of the iterator whose items reach parameter `local` of the closure, if the closure is created for
        exactly one iterator-adaptor call."""
        sites = self.prog.ctor_sites.get(closure_path, [])
        if len(sites) != 1:
            return None
        pb, blk_i, idx, rv = sites[0]
        st = pb.blocks[blk_i].stmts[idx]
        holder = st.place.local
        for blk, t in pb.calls():
            if t.callee is None or len(t.args) < 2:
                continue
            for ai, a in enumerate(t.args):
                if a.place is not None and a.place.local == holder and not a.place.proj:
                    if self._ITEM_ADAPTORS.match(t.callee.path) and ai == 1 and local == 2:
                        return self.sym.of_operand(pb, t.args[0])
                    if self._ACC_ADAPTORS.match(t.callee.path) and ai == 2 and local == 3:
                        return self.sym.of_operand(pb, t.args[0])
        return None


def class_root(c):
    """The innermost root of a path class (what the path is ultimately derived from)."""
    while True:
        k = c[0]
        if k in ("Content", "Bucket", "Parent", "Join", "Child", "TempIn", "Handle", "Mmap", "Abs", "Proj"):
            c = c[1]
            continue
        return c


def class_shape(c):
    """Class with the root abstracted: e.g. Content(*), Parent(Content(*)), Join(*, 'tmp')."""
    k = c[0]
    if k == "Content":
        return "Content(%s)" % class_shape(c[1])
    if k == "Bucket":
        return "Bucket(%s)" % class_shape(c[1])
    if k == "Parent":
        return "Parent(%s)" % class_shape(c[1])
    if k == "Join":
        seg = c[2]
        return "Join(%s,%s)" % (class_shape(c[1]), repr(seg[1]) if seg[0] == "lit" else seg[0])
    if k == "Child":
        return "Child(%s)" % class_shape(c[1])
    if k == "TempIn":
        return "TempIn(%s)" % class_shape(c[1])
    if k == "Handle":
        return "Handle(%s,%s)" % (class_shape(c[1]), c[2])
    if k == "Mmap":
        return "Mmap(%s)" % class_shape(c[1])
    if k == "Abs":
        return "Abs(%s)" % class_shape(c[1])
    if k in ("Param", "ClosureArg", "Field"):
        return "*"
    if k == "Proj":
        return class_shape(c[1])
    return k


def class_str(c):
    k = c[0]
    if k == "Param":
        from .core import path_str
        return "param#%d(%s)%s" % (c[2], c[1].rsplit("::", 1)[-1], path_str(c[3]))
    if k == "ClosureArg":
        return "closure-arg(_%s)" % (c[2],)
    if k == "Field":
        from .core import path_str
        return "%s.%s%s" % (c[1], c[2], path_str(c[3]))
    if k == "Content":
        return "Content(%s, %s)" % (class_str(c[1]), term_str(c[2])[:60])
    if k == "Bucket":
        return "Bucket(%s, %s)" % (class_str(c[1]), term_str(c[2])[:60])
    if k in ("Parent", "Child", "TempIn", "Mmap", "Abs"):
        return "%s(%s)" % (k, class_str(c[1]))
    if k == "Join":
        return "Join(%s, %r)" % (class_str(c[1]), c[2][1])
    if k == "Handle":
        return "Handle(%s)" % class_str(c[1])
    if k == "Proj":
        return "%s.." % class_str(c[1])
    if k == "Alt":
        return "Alt(%s)" % ", ".join(class_str(x) for x in c[1])
    return "%s" % (c,)
