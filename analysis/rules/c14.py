"""C14 — abandoned or rejected writes leave no trace (who-may-index / who-may-publish / no escape of the temp guard)."""
import re

from .common import *
from ..world import strip_refs

PROP = "C14"
# a rejected writer leaves no trace: its commit inserts nothing (the insert sits behind the integrity and size guards) and
# its rejection arms touch nothing (C08's clauses, re-checked here)
C08_RULES = ("rejection-has-no-effect", "g1-integrity-guard", "g2-size-guard", "g1-failure-arm", "g2-failure-arm")

ESCAPES = re.compile(r"^(std::mem::forget|std::mem::ManuallyDrop::<T>::new|std::boxed::Box::<T(, A)?>::(leak|into_raw)|"
                     r"std::sync::Arc::<T(, A)?>::into_raw|std::rc::Rc::<T(, A)?>::into_raw|std::mem::MaybeUninit::<T>::new)$")


def temp_types(w):
    """Crate ADTs that (transitively) own a NamedTempFile."""
    adts = w.prog.facts.items["adts"]
    out = set()
    changed = True
    while changed:
        changed = False
        for a in adts:
            if a["path"] in out:
                continue
            for v in a["variants"]:
                for f in v["fields"]:
                    ty = f["ty"]
                    if "tempfile::NamedTempFile" in ty or "tempfile::TempPath" in ty or any(
                            re.search(r"(^|[<( ,])%s($|[>), ])" % re.escape(t), ty) for t in out):
                        out.add(a["path"])
                        changed = True
    return out


def run(ctx, rep):
    for cfg, w in ctx.worlds():
        check_config(cfg, w, rep)
    return rep


def check_config(cfg, w, rep):
    prog = w.prog
    R = w.roles
    is_async = not cfg.startswith("sync")
    tt = temp_types(w)
    rep.floor("temp_owner_types", len(tt), 4 if is_async else 2, cfg)

    # ---- (a) who may index ----
    n = 0
    for lf in prog.fns.values():
        for b, blk, t, g in prog.local_calls(lf):
            if g.path not in R.index_inserts:
                continue
            n += 1
            if lf.path in R.commits:
                rep.ob(cfg, "a-who-may-index", "%s->%s" % (fn_key(lf), short(g.path)), "index insertion called from a COMMIT")
                continue
            optt = options_value(w, b, t.args[2])
            tomb = is_tombstone_options(optt)
            if tomb:
                rep.ob(cfg, "a-who-may-index", "%s->%s" % (fn_key(lf), short(g.path)), "index insertion of a constant tombstone")
            else:
                rep.violation("a-index-caller:%s" % fn_key(lf),
                              "`%s` inserts into the index but is neither a commit (publication + both guards) nor a tombstone writer" % short(lf.path),
                              loc=span_str(t.span), config=cfg, rule="a-who-may-index")
    rep.floor("index_insert_callers", n, (4 if is_async else 2) + (2 if "link_to" in cfg and is_async else (1 if "link_to" in cfg else 0)) - (0), cfg)

    # ---- (b) who may publish ----
    n = 0
    for lf in prog.fns.values():
        for b, blk, t, g in prog.local_calls(lf):
            if g.path in R.content_closes:
                n += 1
                if lf.path in R.commits:
                    rep.ob(cfg, "b-who-may-publish", "%s->%s" % (fn_key(lf), short(g.path)), "content publication called from a COMMIT")
                else:
                    rep.violation("b-publish-caller:%s" % fn_key(lf),
                                  "`%s` publishes staged content (calls `%s`) outside a commit" % (short(lf.path), short(g.path)),
                                  loc=span_str(t.span), config=cfg, rule="b-who-may-publish")
    rep.floor("content_close_callers", n, 2 if is_async else 1, cfg)
    # Persist effects only inside CONTENT_CLOSE functions
    for e in w.inv.effects:
        if e.kind == "Persist":
            lf = prog.owner_fn(e.body)
            if lf.path in R.content_closes:
                rep.ob(cfg, "b-persist-site", fn_key(lf), "persist happens in the content close primitive")
            else:
                rep.violation("b-persist-site:%s" % fn_key(lf), "`%s` persists a temp file outside the content close primitive" % short(lf.path),
                              loc=e.loc(), config=cfg, rule="b-who-may-publish")

    # ---- (c) the temp file never escapes its RAII guard ----
    esc = [e for e in w.inv.effects if e.kind == "TempEscape"]
    for e in esc:
        lf = prog.owner_fn(e.body)
        rep.violation("c-escape:%s:%s" % (fn_key(lf), e.term.callee.path.rsplit("::", 1)[-1]),
                      "`%s` detaches a temp file from its delete-on-drop guard with `%s`" % (short(lf.path), e.term.callee.path),
                      loc=e.loc(), config=cfg, rule="c-no-escape")
    n_leak = 0
    for body in prog.bodies:
        for blk, t in body.calls():
            if t.callee is None or blk.i not in prog.cfg(body).live():
                continue
            if ESCAPES.search(t.callee.path):
                tys = t.j.get("arg_tys", [])
                aty = tys[0] if tys else ""
                if "tempfile::" in aty or any(x in aty for x in tt):
                    n_leak += 1
                    lf = prog.owner_fn(body)
                    rep.violation("c-leak:%s" % fn_key(lf),
                                  "`%s` leaks a value owning the temp file (`%s` on %s): it will never be deleted" % (
                                      short(lf.path), t.callee.path, aty), loc=span_str(t.span), config=cfg, rule="c-no-escape")
    rep.ob(cfg, "c-no-escape", "zero-count", "no keep/into_temp_path/into_parts/forget/ManuallyDrop/leak on temp-owning values (%d temp-owning types)" % len(tt),
           ok=not esc and n_leak == 0) if not esc and n_leak == 0 else None
    # Drop impls on temp-owning types must not have filesystem effects
    for im in prog.facts.items["impls"]:
        if im.get("trait") == "std::ops::Drop" and strip_refs(im["self_ty"]).split("<")[0] in tt:
            for it in im["items"]:
                lf = prog.fns.get(it)
                if lf is None:
                    continue
                muts = [e for e in w.reach_effects(lf) if e.mutating]
                if muts:
                    rep.violation("c-drop-publishes:%s" % strip_refs(im["self_ty"]),
                                  "Drop for `%s` performs filesystem mutations (%s): an abandoned writer would leave a trace" % (
                                      im["self_ty"], ", ".join(sorted({e.kind for e in muts}))), loc=lf.body.loc(), config=cfg,
                                  rule="c-drop")
                else:
                    rep.ob(cfg, "c-drop", strip_refs(im["self_ty"]), "Drop impl has no filesystem effect")

    # ---- (d) async writer: blocking closures hand the temp owner back ----
    if is_async:
        n_cl = 0
        for body in prog.bodies:
            for blk, t in body.calls():
                if t.callee is None or t.callee.path not in ("async_std::task::spawn_blocking", "tokio::task::spawn_blocking"):
                    continue
                if blk.i not in prog.cfg(body).live():
                    continue
                for o in prog.resolve_pl(body, t.args[0].place, IDENT) if t.args[0].place else []:
                    if o.kind != "agg" or o.info.j["agg"] != "closure":
                        continue
                    cb = prog.by_path.get(o.info.j["path"])
                    if cb is None:
                        continue
                    # captures owning the temp file
                    caps = [(nm, op) for nm, op in zip(o.info.j.get("fields", []), o.info.ops)
                            if op.place is not None and (any(x in body.local_ty(op.place.local) for x in tt)
                                                         or "tempfile::NamedTempFile" in body.local_ty(op.place.local))]
                    if not caps:
                        continue
                    n_cl += 1
                    check_blocking_closure(cfg, w, rep, body, cb, caps, tt)
        rep.floor("blocking_closures_owning_temp", n_cl, 4, cfg)

    # ---- (f) a rejected commit performs no filesystem mutation (reused C08 clause) ----
    from ..framework import Report
    from . import c08
    sub = Report("C08")
    for p in R.commits:
        c08.check_commit(cfg, w, sub, prog.fns[p])
    for (c_, rule, k, desc, ok) in sub.obligations:
        if rule in C08_RULES and ok:
            rep.ob(cfg, "f/" + rule, k, desc)
    for k, v in sub.violations.items():
        if v.rule in C08_RULES:
            rep.violation("f:%s" % k, v.msg, loc=v.loc, config=cfg, rule="f/" + v.rule)

    # ---- (g) no writer (nor any other non-removal entry point) can delete shared content ----
    check_who_may_remove_content(cfg, w, rep, "g")

    # ---- (h) what a rejected writer does leave behind — the content file its close() published before the checks ran — is a
    #      valid content file (the bytes whose digest is its address, no padding): otherwise a rejected write corrupts every
    #      entry that shares that address. The staging clauses of C03 (f, g) are re-checked here. ----
    from . import c03
    sub = Report("C03")
    c03.check_config(cfg, w, sub)
    H = ("f-preallocation", "f-trim-before-publish", "f-staging-sequential", "g/a-digest-sink", "g/a-whole-sink", "g/d-address")
    for (c_, rule, k, desc, ok) in sub.obligations:
        if rule in H and ok:
            rep.ob(cfg, "h/" + rule, k, desc)
    for k, v in sub.violations.items():
        if v.rule in H:
            rep.violation("h:%s" % k, "a rejected or abandoned write could leave an invalid file under a content address — " + v.msg, loc=v.loc,
                          config=cfg, rule="h/" + v.rule, witness=v.witness)

    # ---- (e) commit/close consume the writer ----
    n_c = 0
    for p in list(R.commits) + list(R.content_closes):
        lf = prog.fns[p]
        ins = lf.outer.j.get("sig_inputs", [])
        n_c += 1
        if ins and not ins[0].startswith("&") and not ins[0].startswith("std::pin::Pin<&"):
            rep.ob(cfg, "e-consumes-self", fn_key(lf), "`%s` takes its writer by value (%s): no write can follow publication" % (short(lf.path), ins[0]))
        else:
            rep.violation("e-by-ref:%s" % fn_key(lf), "`%s` takes its writer by reference: it stays usable after publication" % short(lf.path),
                          loc=lf.body.loc(), config=cfg, rule="e-consumes-self")


def check_blocking_closure(cfg, w, rep, parent, cb, caps, tt):
    prog = w.prog
    lf = prog.owner_fn(cb)
    key = "%s::%s" % (fn_key(lf), cb.path.rsplit("::", 1)[-1])
    effs = w.inv.by_body.get(cb.path, [])
    consumes = any(e.kind == "Persist" for e in effs)
    drops = False
    for blk, t in cb.calls():
        if t.callee is not None and t.callee.path == "std::mem::drop":
            drops = True
    # all returns
    rds = ret_defs(prog, cb)
    kinds = set()
    for rd in rds:
        if rd.detail.startswith("aggregate content::write::State") or True:
            pass
    # inspect `_0` aggregates directly
    idx = prog.idx(cb)
    some_ok = True
    n_some = 0
    n_none = 0
    for kind, blk, i, d, obj in idx.defs.get(0, []):
        if kind != "assign" or obj.rv.k != "agg":
            some_ok = False
            continue
        rv = obj.rv
        if rv.j.get("variant") != "Idle":
            some_ok = False
            continue
        inner = prog.resolve_op(cb, rv.ops[0], IDENT, blk)
        for x in inner:
            if x.kind == "agg" and x.info.j.get("variant") == "Some":
                n_some += 1
                src = prog.resolve_op(x.body, x.info.ops[0], IDENT, x.blk)
                # must be the captured temp owner (lifted: resolves into the parent)
                if not src or not all(s.body is not cb or s.kind == "param" for s in src):
                    some_ok = False
            elif x.kind == "agg" and x.info.j.get("variant") == "None":
                n_none += 1
            else:
                some_ok = False
    if consumes or drops:
        if n_some == 0:
            rep.ob(cfg, "d-handback", key, "closing closure consumes the temp owner (%s) and returns Idle(None)" % ("persist" if consumes else "drop"))
        else:
            rep.violation("d-handback:%s" % key, "closure both consumes the temp file and hands it back", loc=cb.loc(), config=cfg, rule="d-handback")
    else:
        if n_none == 0 and n_some >= 1 and some_ok:
            rep.ob(cfg, "d-handback", key, "blocking closure returns State::Idle(Some(<captured temp owner>)) on every path")
        else:
            rep.violation("d-handback:%s" % key,
                          "blocking closure in `%s` does not hand the temp-file owner back on every path (%d Idle(Some), %d Idle(None)): "
                          "the temp file is dropped while the writer is still open" % (short(lf.path), n_some, n_none),
                          loc=cb.loc(), config=cfg, rule="d-handback")
