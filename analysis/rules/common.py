"""Helpers shared by several property rules."""
import re

from ..core import IDENT, OKFLOW, DEPEND, norm_path, Origin, callee_matches
from ..gates import (try_gates, match_gates, bool_gates, ret_defs, unreachable_without, witness_str,
                     blk_loc, Gate, switches_on_discr, switch_target, VIDX)
from ..facts import span_str
from ..effects import class_shape, class_str, class_root, norm_callee
from ..symval import term_str

VERIFY_PRIMS = ("ssri::Integrity::check", "ssri::IntegrityChecker::result")
AWAIT_PATHS = ((), (("await",),))


def short(path):
    return path.replace("::{closure#0}", "")


def fn_key(lf):
    """Semantic key of a function for violation keys (no line numbers)."""
    return short(lf.path)


class Verified:
    """VERIFIED(f): every success return of f is unreachable without crossing a gate on an ssri
    verification primitive or on a call to an already VERIFIED function (DESIGN C01 R1)."""

    def __init__(self, world):
        self.w = world
        self.prog = world.prog
        self.memo = {}
        self.detail = {}

    def is_verifying_origin(self, o):
        if o.kind != "call" or o.callee is None:
            return False
        if o.path not in AWAIT_PATHS:
            return False
        c = o.callee
        if c.path in VERIFY_PRIMS:
            return True
        g = self.prog.callee_fn(o.term)
        if g is not None and not c.path.endswith("Future::poll"):
            return self.verified(g)
        return False

    def verified(self, lf):
        if lf.path in self.memo:
            return self.memo[lf.path]
        self.memo[lf.path] = False  # recursion guard (no recursion in this crate)
        ok, info = self._compute(lf)
        self.memo[lf.path] = ok
        self.detail[lf.path] = info
        return ok

    def gates(self, lf):
        body = lf.body
        g = try_gates(self.prog, body, self.is_verifying_origin)
        g += match_gates(self.prog, body, self.is_verifying_origin, "Ok")
        return g

    OK_PRESERVING = re.compile(r"(Result::<T, E>::(map_err|inspect_err|inspect|map)|IoErrorExt::with_context)$")

    def _delegates(self, o, depth=0):
        """The returned value is the verdict of a verification primitive / VERIFIED function, possibly passed through
        combinators that cannot turn a failure into a success (`result().map_err(Into::into)`)."""
        prog = self.prog
        if o.kind != "call" or o.callee is None or o.path not in AWAIT_PATHS:
            return False
        if o.callee.path in VERIFY_PRIMS:
            return True
        g = prog.callee_fn(o.term)
        if g is not None and not o.callee.path.endswith("Future::poll") and self.verified(g):
            return True
        if depth < 3 and self.OK_PRESERVING.search(o.callee.path) and o.term is not None and o.term.args:
            src = prog.resolve_op(o.body, o.term.args[0], IDENT, o.blk)
            return bool(src) and all(self._delegates(x, depth + 1) for x in src)
        return False

    def _compute(self, lf):
        prog = self.prog
        body = lf.body
        rds = ret_defs(prog, body)
        gates = self.gates(lf)
        obligations = []
        for rd in rds:
            if rd.cls in ("failure", "neutral"):
                continue
            if rd.cls == "delegated":
                o = rd.origin
                if o is not None and self._delegates(o):
                    continue
            obligations.append(rd)
        bad = unreachable_without(prog, body, gates, [rd.blk for rd in obligations])
        badset = {b for b, _ in bad}
        info = {
            "gates": gates,
            "obligations": obligations,
            "bad": [(rd, dict(bad).get(rd.blk)) for rd in obligations if rd.blk in badset],
            "n_ret": len(rds),
        }
        ok = not info["bad"] and bool(rds)
        return ok, info


def find_calls(prog, lf, *patterns):
    """Call sites (body, blk, term) in lf whose declared/resolved path matches."""
    rxs = [re.compile(p) for p in patterns]
    out = []
    for b, blk, t in prog.call_sites(lf):
        if t.callee is None:
            continue
        if any(rx.search(t.callee.path) or rx.search(t.callee.rpath) for rx in rxs):
            out.append((b, blk, t))
    return out


def origin_desc(prog, o):
    pi = prog.param_index(o) if o.kind == "param" else None
    if pi is not None:
        from ..core import path_str
        return "param#%d(%s)%s" % (pi[1], short(pi[0].path), path_str(pi[2]))
    return repr(o)


def is_param(prog, origins, lf, index, path=None):
    """All origins are exactly parameter `index` of lf (optionally with access path)."""
    if not origins:
        return False
    for o in origins:
        pi = prog.param_index(o)
        if pi is None or pi[0] is not lf or pi[1] != index:
            return False
        if path is not None and tuple(pi[2]) != tuple(path):
            return False
    return True


def param_indices(prog, origins, lf):
    out = set()
    for o in origins:
        pi = prog.param_index(o)
        if pi is None or pi[0] is not lf:
            return None
        out.add(pi[1])
    return out


ALL_OR_ERROR_WRITES = ("write_all", "write_fmt", "write_all_vectored")


def bucket_data_writes(w, lf):
    """Data-write effects (not flush) of an INDEX_INSERT on its bucket handle, and every other data write it makes."""
    effs = w.own_effects(lf)
    writes = [e for e in effs if e.kind == "WriteData" and e.flags.get("op") not in ("flush",)
              and e.classes.get("handle", ("?",))[0] == "Handle" and e.classes["handle"][1][0] == "Bucket"]
    others = [e for e in effs if e.kind in ("WriteData", "WriteFile") and e not in writes and e.flags.get("op") != "flush"]
    return writes, others


def record_emission(w, lf):
    """How an INDEX_INSERT emits its record: the bucket writes in execution order (each must dominate the next) and the
    concatenation of what they write as format pieces — ("lit", str) | ("arg", how, term, spec). `pieces` is None when
    the order or a buffer cannot be determined; `problems` says why."""
    from ..symval import walk
    prog = w.prog
    writes, others = bucket_data_writes(w, lf)
    problems = []
    if not writes:
        return dict(writes=[], others=others, pieces=None, problems=["no data write on the bucket handle"])
    body = writes[0].body
    if any(e.body is not body for e in writes):
        return dict(writes=writes, others=others, pieces=None, problems=["bucket writes are spread over several bodies"])
    cf = prog.cfg(body)
    dom = cf.dominators()
    order = sorted(writes, key=lambda e: len(dom.get(e.blk, ())))
    for a, b in zip(order, order[1:]):
        if a.blk == b.blk or a.blk not in dom.get(b.blk, ()):
            problems.append("bucket writes are not on one straight path (alternative or repeated writes)")
    loops = cf.loops()
    for e in order:
        if any(e.blk in bl for _, bl in loops):
            problems.append("a bucket write sits inside a loop")
    pieces = []
    for e in order:
        op = e.flags.get("op")
        fm = None
        if op == "write_fmt":
            fm = w.sym._fmt(e.body, e.term, 0, argi=1)
        else:
            t = w.sym.of_operand(e.body, e.term.args[1])
            for st in walk(t):
                if st[0] == "fmt":
                    fm = st
                    break
            if fm is None:
                if t[0] == "const" and isinstance(t[1], (str, bytes)):
                    v = t[1].decode("utf-8", "replace") if isinstance(t[1], bytes) else t[1]
                    fm = ("fmt", (("lit", v),))
                else:
                    fm = ("fmt", (("arg", "new_display", t, 0xC0),))
        if fm is None:
            problems.append("the buffer of `%s` is not understood" % op)
            pieces = None
            break
        for pc in fm[1]:
            if pc[0] == "lit" and pieces and pieces[-1][0] == "lit":
                pieces[-1] = ("lit", pieces[-1][1] + pc[1])
            else:
                pieces.append(pc)
    return dict(writes=order, others=others, pieces=pieces, problems=problems)


_INPLACE = re.compile(r"(^|::)(sort\w*|reverse|retain\w*|dedup\w*|truncate|drain|swap\w*|rotate\w*|remove|insert|pop|split_off|clear|"
                      r"select_nth\w*|fill\w*|resize\w*|append|extend\w*|push)$")


def inplace_call(path):
    """A slice / Vec method that reorders, drops or adds elements in place."""
    return bool(_INPLACE.search(path)) and bool(re.search(r"(slice::<impl \[T\]>|std::vec::Vec::<T|<impl \[T\]>|VecDeque)", path))


def inplace_changes_of_records(w, body, reader_paths):
    """Calls in `body` that reorder, drop or add elements in place on the vector a bucket reader returned (the symbolic
    pipeline term does not see them: they take the vector by &mut and return nothing)."""
    prog = w.prog
    out = []
    for blk, t in body.calls():
        if t.callee is None or not t.args or not _INPLACE.search(t.callee.path):
            continue
        if not re.search(r"(slice::<impl \[T\]>|std::vec::Vec::<T|<impl \[T\]>|VecDeque)", t.callee.path):
            continue
        for o in prog.resolve_op(body, t.args[0], OKFLOW, blk.i):
            g = prog.callee_fn(o.term) if o.kind == "call" else None
            if g is not None and g.path in reader_paths:
                out.append((blk, t))
                break
    return out


def check_commit_always_inserts(cfg, w, rep, tag):
    """A successful keyed commit has appended its index record: in every COMMIT, on the `key is Some` edge, no success return is
    reachable without passing the index-insertion call (no "nothing changed, skip the record" fast path: the record also carries
    this commit's time, metadata and raw metadata, and it is what makes this write the most recent one)."""
    prog = w.prog
    R = w.roles
    for p in R.commits:
        lf = prog.fns[p]
        body = lf.body
        cf = prog.cfg(body)
        key = fn_key(lf)
        ins = {blk.i for b, blk, t, g in prog.local_calls(lf) if b is body and g.path in R.index_inserts}
        if not ins:
            continue

        def is_key(o):
            return o.kind == "field" and o.info[1] == "key" and not o.path
        some = match_gates(prog, body, is_key, "Some")
        if not some:
            rep.violation("%s-commit-inserts:%s" % (tag, key), "commit `%s` does not branch on whether it has a key" % short(lf.path),
                          loc=body.loc(), config=cfg, rule="%s/commit-inserts" % tag)
            continue
        succ = [rd for rd in ret_defs(prog, body) if rd.cls in ("success", "unknown", "delegated") and rd.blk not in ins]
        reach = set()
        for g in some:
            reach |= cf.reachable(g.edge[1], cut_nodes=ins)
        bad = [rd for rd in succ if rd.blk in reach]
        if bad:
            rep.violation("%s-commit-inserts:%s" % (tag, key),
                          "keyed commit `%s` can report success without appending an index record (return at %s): this write would not be "
                          "the key's most recent record, and its time / metadata would not be recorded" % (short(lf.path), blk_loc(body, bad[0].blk)),
                          loc=blk_loc(body, bad[0].blk), config=cfg, rule="%s/commit-inserts" % tag)
        else:
            rep.ob(cfg, "%s/commit-inserts" % tag, key, "every keyed success return of `%s` passes the index insertion" % short(lf.path))


def check_no_failure_after_insert(cfg, w, rep, tag):
    """A commit that fails has indexed nothing: in every COMMIT, the index insertion is the last step that can fail — after the
    insertion call no failure return is reachable except the one that hands back the insertion's own error (a check placed
    *after* the append would reject the commit and still leave its record as the key's most recent one)."""
    prog = w.prog
    R = w.roles
    for p in R.commits:
        lf = prog.fns[p]
        body = lf.body
        cf = prog.cfg(body)
        key = fn_key(lf)
        ins = [(blk, t) for b, blk, t, g in prog.local_calls(lf) if b is body and g.path in R.index_inserts]
        for blk, t in ins:
            after = cf.reachable(blk.i)
            bad = None
            for rd in ret_defs(prog, body):
                if rd.cls == "delegated" and rd.blk in after and rd.blk != blk.i and rd.origin is not None and rd.origin.callee is not None and \
                        re.search(r"Result::<T, E>::(and|and_then|or|or_else)$", rd.origin.callee.path) and rd.origin.term is not None:
                    # `check().and(insert(..))`: both operands are evaluated, the insertion first — and the check's error wins
                    others = [a for a in rd.origin.term.args
                              if not all(x.kind == "call" and x.term is t for x in prog.resolve_op(body, a, OKFLOW, rd.origin.blk))]
                    if others:
                        bad = rd
                        break
                if rd.cls != "failure" or rd.blk not in after or rd.blk == blk.i:
                    continue
                pay = prog.resolve_lifted(body, 0, (("v", "Err"), ("f", "0")), OKFLOW, at=rd.blk)
                if not pay:
                    pay = prog.resolve_lifted(body, 0, (("v", "Ready"), ("f", "0"), ("v", "Err"), ("f", "0")), OKFLOW, at=rd.blk)
                own = bool(pay) and all(x.kind == "call" and x.term is t for x in pay)
                if not own:
                    bad = rd
                    break
            if bad is not None:
                rep.violation("%s-fail-after-insert:%s" % (tag, key),
                              "commit `%s` can fail (%s at %s) after it has appended its index record: the rejected write would be the key's "
                              "most recent record" % (short(lf.path), bad.detail, blk_loc(body, bad.blk)),
                              loc=blk_loc(body, bad.blk), config=cfg, rule="%s/insert-is-last" % tag)
            else:
                rep.ob(cfg, "%s/insert-is-last" % tag, "%s@%d" % (key, blk.i), "after the index insertion `%s` fails only with the insertion's own error" % short(lf.path))


def check_insert_writes_all_or_error(cfg, w, rep, tag, why):
    """Every data write of an INDEX_INSERT on its bucket is an all-or-error write (`write_all`, `write!`): a plain `write` may
    accept only a prefix of the record and still report success — the insert (a commit, a removal) would return Ok with a torn
    record that every reader skips."""
    prog = w.prog
    for p in w.roles.index_inserts:
        lf = prog.fns[p]
        writes, others = bucket_data_writes(w, lf)
        for e in writes:
            if e.flags.get("op") not in ALL_OR_ERROR_WRITES:
                rep.violation("%s-partial-append:%s" % (tag, fn_key(lf)),
                              "index insert `%s` appends its record with `%s`, which may accept only part of it and still report success: %s" % (
                                  short(lf.path), e.flags.get("op"), why), loc=e.loc(), config=cfg, rule="%s/all-or-error-append" % tag)
            else:
                rep.ob(cfg, "%s/all-or-error-append" % tag, "%s:%s" % (fn_key(lf), e.flags.get("op")),
                       "`%s` appends with the all-or-error `%s`" % (short(lf.path), e.flags.get("op")))


REMOVAL_ENTRY = re.compile(r"^(rm::(remove_hash|remove_hash_sync|clear|clear_sync)|index::RemoveOpts::remove(_sync)?)$")


def check_who_may_remove_content(cfg, w, rep, tag):
    """Content files are shared between every key (and every writer) with the same bytes: only the removal API may delete one.
    A write, commit, link, read, lookup or listing entry point that can reach RemoveFile on a content address — a "clean up what
    I just wrote" on some failure path, say — can delete data that other entries reference."""
    from .fsrules import FsWorld
    from ..provenance import shape as _shape
    prog = w.prog
    fw = FsWorld.get(w)
    n = 0
    for lf in w.public_fns():
        if REMOVAL_ENTRY.match(short(lf.path)):
            continue
        for e in w.reach_effects(lf):
            if e.kind not in ("RemoveFile", "RemoveDirAll", "RemoveDir"):
                continue
            shapes = {_shape(x) for x in fw.expanded(e).get("path", ())} | ({e.classes["path"][0]} if e.classes.get("path") else set())
            if any(sh.startswith("Content") or sh.startswith("Parent(Content") for sh in shapes):
                n += 1
                rep.violation("%s-removes-content:%s" % (tag, fn_key(lf)),
                              "`%s` can delete a content file (%s in `%s`) although it is not a removal entry point: content is shared by "
                              "address, so this can destroy data other entries point to" % (short(lf.path), e.kind, short(prog.owner_fn(e.body).path)),
                              loc=e.loc(), config=cfg, rule="%s/who-may-remove-content" % tag)
    if not n:
        rep.ob(cfg, "%s/who-may-remove-content" % tag, "zero-count", "only remove_hash*, RemoveOpts::remove* and clear* can reach a removal of content")



def options_value(w, body, operand):
    """Symbolic value of an options argument (`WriteOpts`), looking through crate functions that merely build it — a private
    `tombstone_opts()`, the public `WriteOpts::new()`, the derived `Default` — and reading `Option::default()` as `None`."""
    from ..symval import inline_private_calls

    def norm(x):
        if not isinstance(x, tuple) or not x:
            return x
        if x[0] == "call" and x[1] == "<std::option::Option<T> as std::default::Default>::default":
            return ("agg", "std::option::Option", "None", (), ())
        if x[0] == "agg":
            return x[:3] + (tuple((f, norm(v)) for f, v in x[3]),) + tuple(x[4:])
        return x
    t = w.sym.of_operand(body, operand)
    # only argument-less constructor functions are looked through (a builder chain `new().integrity(x)` sets fields by
    # assignment, which a return-value term does not show — it stays a call and is not taken for a constant)
    for _ in range(3):
        if t and t[0] == "call" and t[1] in w.prog.fns and not t[2] and not t[3]:
            t = w.sym.of_place(w.prog.fns[t[1]].body, 0, ())
        else:
            break
    return norm(t)


def is_tombstone_options(optt):
    if optt and optt[0] == "agg" and optt[1] == "put::WriteOpts":
        sri = dict(optt[3]).get("sri")
        return sri is not None and sri[0] == "agg" and sri[1].endswith("Option") and sri[2] == "None"
    return False
