"""C20 — no public call panics or aborts: every explicit panic/abort site in crate code is discharged by a proof rule
re-derived on every run (DESIGN A8). Hangs are not decided."""
import re

from .common import *
from ..core import path_str
from ..symval import walk
from ..world import strip_refs

PROP = "C20"

UNWRAPS = re.compile(r"^std::(option::Option::<T>|result::Result::<T, E>)::(unwrap|expect|unwrap_err|expect_err|unwrap_unchecked)$")
PANIC_FNS = re.compile(r"^(core::panicking::|std::rt::(begin_panic|panic_fmt)|std::panicking::|core::option::(unwrap_failed|expect_failed)|core::result::unwrap_failed)")
ABORTS = re.compile(r"^std::process::(abort|exit)$")
SLICE_LEN = re.compile(r"^core::slice::<impl \[T\]>::(copy_from_slice|clone_from_slice|swap_with_slice)$")
SLICE_SPLIT = re.compile(r"^(core::slice::<impl \[T\]>::(split_at|split_at_mut|chunks|chunks_exact|windows|rotate_left|rotate_right)|"
                         r"core::str::<impl str>::(split_at|split_at_mut)|std::string::String::(remove|insert|insert_str|drain|split_off)|"
                         r"std::vec::Vec::<T, A>::(remove|swap_remove|insert|drain|split_off|swap))$")
INDEXING = re.compile(r"^std::ops::(Index::index|IndexMut::index_mut)$")
REFCELL = re.compile(r"^std::cell::RefCell::<T>::(borrow|borrow_mut)$")
UNSAFE_LEN = re.compile(r"^(std::vec::Vec::<T, A>::set_len|std::slice::from_raw_parts(_mut)?|std::string::String::from_utf8_unchecked|std::str::from_utf8_unchecked)$")
TIME_ARITH = re.compile(r"^std::ops::(Add|Sub)::(add|sub)$")
ASSERT_KINDS = ("Overflow", "BoundsCheck", "DivisionByZero", "RemainderByZero", "OverflowNeg")


class Site:
    def __init__(self, body, blk, kind, what, term):
        self.body = body
        self.blk = blk
        self.kind = kind      # unwrap | panic | abort | slice-len | slice-split | index | refcell | unsafe-len | assert:<kind>
        self.what = what
        self.term = term
        self.discharge = None
        self.why = None

    def loc(self):
        return span_str(self.term.span)


def derived_bodies(prog):
    out = set()
    for im in prog.facts.items["impls"]:
        if im.get("automatically_derived"):
            for it in im["items"]:
                out.add(it)
    return out


# methods that panic when handed a position that is out of range or (strings) not on a char boundary
BOUNDARY = re.compile(r"^(std::string::String::(truncate|split_off|insert|insert_str|remove|drain|replace_range)|"
                      r"core::str::<impl str>::(split_at|split_at_mut)|"
                      r"std::vec::Vec::<T, A>::(remove|insert|swap_remove|split_off|drain|splice)|"
                      r"std::collections::VecDeque::<T, A>::(remove|insert|swap_remove_back|swap_remove_front|split_off|drain)|"
                      r"core::slice::<impl \[T\]>::(swap|copy_within|rotate_left|rotate_right|chunks|chunks_exact|windows|select_nth_unstable\w*)|"
                      r"std::time::Duration::(from_secs_f32|from_secs_f64|mul_f32|mul_f64|div_f32|div_f64))$")


def enumerate_sites(w):
    prog = w.prog
    der = derived_bodies(prog)
    sites = []
    for body in prog.bodies:
        top = body
        while top.parent and prog.by_path.get(top.parent) is not None and top.def_kind == "Closure":
            top = prog.by_path[top.parent]
        is_derived = top.path in der or "_serde::" in body.path or any(top.path.startswith(d) for d in der)
        cf = prog.cfg(body)
        for blk in body.blocks:
            if blk.cleanup or blk.i not in cf.live():
                continue
            t = blk.term
            if t.k == "call" and t.callee is not None:
                p = t.callee.path
                kind = None
                if UNWRAPS.search(p):
                    kind = "unwrap"
                elif PANIC_FNS.search(p):
                    kind = "panic"
                elif ABORTS.search(p):
                    kind = "abort"
                elif SLICE_LEN.search(p):
                    kind = "slice-len"
                elif SLICE_SPLIT.search(p):
                    kind = "slice-split"
                elif INDEXING.search(p):
                    kind = "index"
                elif BOUNDARY.search(p):
                    kind = "position"
                elif REFCELL.search(p):
                    kind = "refcell"
                elif UNSAFE_LEN.search(p):
                    kind = "unsafe-len"
                elif TIME_ARITH.search(p) and re.search(r"(Instant|SystemTime|Duration)", t.callee.self_ty or ""):
                    kind = "time-arith"
                if kind:
                    s = Site(body, blk.i, kind, p, t)
                    if is_derived:
                        s.discharge, s.why = "derive-generated", "code emitted by a derive macro (std/serde/thiserror/miette)"
                    sites.append(s)
            elif t.k == "assert":
                mk = t.j["msg"]
                if mk in ASSERT_KINDS:
                    s = Site(body, blk.i, "assert:" + mk, t.j["msg_full"][:60], t)
                    if is_derived:
                        s.discharge, s.why = "derive-generated", "code emitted by a derive macro"
                    sites.append(s)
    return sites


def run(ctx, rep):
    for cfg, w in ctx.worlds():
        check_config(cfg, w, rep)
    return rep


def check_config(cfg, w, rep):
    prog = w.prog
    sites = enumerate_sites(w)
    D = Discharger(w, sites)
    # first pass: local proof rules
    for s in sites:
        if s.discharge is None:
            D.local(s)
    # second pass: dependency rules (lock-poison / join-error / stub-unreachable)
    for s in sites:
        if s.discharge is None:
            D.dependent(s)
    n_by = {}
    seen_keys = {}
    for s in sites:
        lf = prog.owner_fn(s.body)
        subj = D.subject_str(s)
        base = "%s:%s:%s" % (fn_key(lf), s.kind, subj)
        n = seen_keys.get(base, 0)
        seen_keys[base] = n + 1
        key = base if n == 0 else "%s#%d" % (base, n)
        if s.discharge:
            n_by[s.discharge] = n_by.get(s.discharge, 0) + 1
            rep.ob(cfg, "discharge:" + s.discharge, key, "%s in `%s` — %s" % (s.what.rsplit("::", 1)[-1], short(lf.path), s.why))
        else:
            rep.violation("site:%s" % key,
                          "`%s` contains a %s site (%s on %s) that no proof rule discharges: it can panic%s" % (
                              short(lf.path), s.kind, s.what.rsplit("::", 2)[-1] if s.kind != "assert" else s.what, subj,
                              " / abort the process" if s.kind == "abort" else ""),
                          loc=s.loc(), config=cfg, rule="panic-site")
    for k, v in n_by.items():
        rep.count("%s[%s]" % (k, cfg), v)
    check_retry_loops(cfg, w, rep)
    check_read_loops(cfg, w, rep)
    check_write_contract(cfg, w, rep)
    check_alloc_sizes(cfg, w, rep)
    rep.floor("panic_sites", len(sites), 10, cfg)
    rep.floor("public_entry_points", len(w.public_fns()), 30, cfg)


def check_retry_loops(cfg, w, rep):
    """The one hang class that is visible in the shape of the code: a loop that goes round again ONLY when a fallible call
    inside it failed (retry-until-success) must have an iteration bound — otherwise a persistent failure (the temp file is
    gone, the disk stays full) makes the public call spin for ever instead of returning the error. Loops that also go
    round on success (read loops, line loops, poll state machines) and await loops are data-driven; their termination
    is not decided here."""
    prog = w.prog
    derived = derived_bodies(prog)
    n_loops = 0
    for body in prog.bodies:
        if body.path in derived:
            continue
        cf = prog.cfg(body)
        loops = cf.loops()
        if not loops:
            continue
        live = cf.live()
        gates = None
        for h, bl in loops:
            if any(body.blocks[b].term.k == "yield" for b in bl):
                continue      # the poll loop of an .await
            n_loops += 1
            back = [u for u in bl if h in cf.succ[u]]
            if gates is None:
                gates = _result_match_gates(prog, body)
            err_edges = set()
            for g in gates:
                if g.edge[0] in bl and g.site_blk in bl:
                    for (u, v) in g.other_edges:
                        if v in bl:
                            err_edges.add((u, v))
            lf = prog.owner_fn(body)
            key = "%s:loop@%s" % (fn_key(lf), short(body.path))
            if not err_edges or not back:
                continue
            reach = cf.reachable(h, cut_edges=err_edges, cut_nodes=set(live) - set(bl))
            if any(u in reach for u in back):
                rep.ob(cfg, "loop:data-driven", key, "a loop of `%s` also goes round on success: not a retry loop" % short(lf.path))
                continue
            # retry loop: is it bounded by a counter that changes in the loop?
            counts = any(st.k == "assign" and st.rv.k == "binop" and st.rv.j["op"] in ("Add", "AddWithOverflow", "Sub", "SubWithOverflow")
                         for b in bl for st in body.blocks[b].stmts)
            compares = False
            for b in bl:
                tu = body.blocks[b].term
                if tu.k == "switch" and tu.discr.place is not None:
                    for o in prog.resolve_pl(body, tu.discr.place, IDENT):
                        if o.kind == "binop" and o.info.j["op"] in ("Lt", "Le", "Gt", "Ge", "Eq", "Ne"):
                            compares = True
            if counts and compares:
                rep.ob(cfg, "loop:bounded-retry", key, "retry loop of `%s` is bounded by a counter" % short(lf.path))
            else:
                u, v = sorted(err_edges)[0]
                rep.violation("retry-loop:%s" % key,
                              "`%s` retries a failing call in a loop with no bound (the loop goes round only through the error arm at %s): if the "
                              "failure persists the public call never returns — a hang instead of an error" % (short(lf.path), blk_loc(body, u)),
                              loc=blk_loc(body, h), config=cfg, rule="unbounded-retry")
    rep.count("loops_examined[%s]" % cfg, n_loops)


READ_PRIM = re.compile(r"(^std::io::Read::read$|AsyncReadExt::read$|^<.* as std::io::Read>::read$)")


def check_read_loops(cfg, w, rep):
    """A second hang class visible in the shape of the code: a loop that reads from a file until something *else* than the
    end of the file stops it (a byte counter reaching a declared size, say). A read at the end of a file returns Ok(0) for
    ever, so a loop around a read must have an exit that is taken when the amount just read is 0 — otherwise a source shorter
    than expected makes the public call spin instead of returning."""
    prog = w.prog
    derived = derived_bodies(prog)
    n = 0

    def is_read_call(t):
        if t.callee is None:
            return False
        if READ_PRIM.search(t.callee.path) or (t.callee.rpath and READ_PRIM.search(t.callee.rpath)):
            return True
        if t.callee.path.endswith("Future::poll"):
            return False        # polling the read's future is part of awaiting it, not another read
        g = prog.callee_fn(t)
        if g is not None and not g.outer.reachable and "usize" in (g.outer.j.get("sig_output") or ""):
            rt = w.sym.of_place(g.body, 0, ())
            return any(st[0] == "call" and READ_PRIM.search(st[1]) for st in walk(rt))
        return False
    for body in prog.bodies:
        if body.path in derived:
            continue
        cf = prog.cfg(body)
        loops = cf.loops()
        if not loops:
            continue
        reads = [(blk, t) for blk, t in body.calls() if blk.i in cf.live() and not blk.cleanup and is_read_call(t)]
        if not reads:
            continue
        lf = prog.owner_fn(body)
        for blk, t in reads:
            inl = [(h, bl) for h, bl in loops if blk.i in bl]
            if not inl:
                continue
            h, bl = max(inl, key=lambda x: len(x[1]))
            n += 1
            key = "%s@%s" % (fn_key(lf), blk_loc(body, blk.i).rsplit(":", 1)[-1] if False else fn_key(lf))

            def from_this_read(origins):
                return bool(origins) and all(o.kind == "call" and o.term is t for o in origins)
            eof_exit = False
            for u in bl:
                tu = body.blocks[u].term
                if tu.k != "switch" or tu.discr.place is None:
                    continue
                outs = [v for v in cf.succ[u] if v not in bl or not cf.can_reach(v, blk.i) or v == h]
                for o in prog.resolve_pl(body, tu.discr.place, IDENT):
                    if o.kind == "binop" and o.info.j["op"] in ("Eq", "Ne", "Gt", "Lt", "Le", "Ge"):
                        sides = [prog.resolve_op(body, x, OKFLOW, o.blk) for x in o.info.ops]
                        zero = [any(y.kind == "const" and y.info.const_val == 0 for y in sd) for sd in sides]
                        if (zero[1] and from_this_read(sides[0])) or (zero[0] and from_this_read(sides[1])):
                            eof_exit = True
                    elif from_this_read(prog.resolve_pl(body, tu.discr.place, OKFLOW)) and any(v == 0 for v, _ in tu.targets):
                        eof_exit = True      # `match n { 0 => .., _ => .. }`
                _ = outs
            # the comparison exists; it must also be able to leave the loop: some exit of the loop is reachable from it
            if eof_exit:
                rep.ob(cfg, "read-loop", "%s:%s" % (fn_key(lf), short(t.callee.path)), "the loop around `%s` in `%s` tests the amount just read against 0" % (
                    t.callee.path.rsplit("::", 1)[-1], short(lf.path)))
            else:
                rep.violation("read-loop:%s" % fn_key(lf),
                              "`%s` reads in a loop that never tests the amount just read against 0: at the end of the file the read returns "
                              "Ok(0) for ever, so a source shorter than the loop expects makes the call spin instead of returning" % short(lf.path),
                              loc=span_str(t.span), config=cfg, rule="read-loop")
    rep.count("read_loops[%s]" % cfg, n)
    rep.floor("read_loops", n, 3, cfg)


def check_write_contract(cfg, w, rep):
    """Write::write / AsyncWrite::poll_write must not report more bytes than the caller's buffer holds: every caller in std,
    futures, async-std and tokio (`write_all`, `copy`, BufWriter ...) slices its buffer with the returned count and panics
    otherwise. A returned count is fine if it is the Ok payload of an inner write of this call's own buffer; a count that comes
    from anywhere else (e.g. the stored result of an earlier, possibly cancelled, operation) must be compared with buf.len()
    before it is returned."""
    prog = w.prog
    n = 0
    for lf in prog.fns.values():
        o = lf.outer
        if not o.impl_trait or o.name not in ("write", "poll_write") or not re.search(r"(^|::)(std::io::Write|\w*AsyncWrite)$", o.impl_trait):
            continue
        body = lf.body
        cf = prog.cfg(body)
        bufi = 2 if o.name == "poll_write" else 1
        pay_path = (("v", "Ok"), ("f", "0")) if o.name == "write" else (("v", "Ready"), ("f", "0"), ("v", "Ok"), ("f", "0"))
        key = fn_key(lf)
        for rd in ret_defs(prog, body):
            if rd.cls == "delegated" and rd.origin is not None and rd.origin.term is not None and (
                    prog.callee_fn(rd.origin.term) is not None or
                    (rd.origin.callee is not None and re.search(r"^std::ops::(Fn::call|FnMut::call_mut|FnOnce::call_once)$", rd.origin.callee.path))):
                # the result of a crate function handed back as it is
                x = rd.origin
                g_ = prog.callee_fn(x.term)
                a_ = prog.resolve_op(x.body, x.term.args[-1], IDENT, x.blk) if x.term.args else set()
                same_buf = bool(a_) and all(y.kind == "param" and (prog.param_index(y) or (None, None))[1] == bufi for y in a_)
                gname_ = short(g_.path) if g_ is not None else "a closure it was given"
                if g_ is not None and g_.outer.name in ("write", "poll_write") and same_buf:
                    rep.ob(cfg, "write-contract", "%s@%d" % (key, rd.blk), "`%s` hands back what the inner writer's `%s` of the same buffer returned" % (
                        short(lf.path), g_.outer.name))
                    continue
                # a driver that is handed this call's closures: the count it hands back is whatever those closures produce or
                # recognise — somewhere in them it must be compared with the length of this call's buffer
                n += 1
                cmp_found = False
                for bb_ in prog.fn_bodies(lf):
                    for blk_ in bb_.blocks:
                        tu_ = blk_.term
                        if blk_.cleanup or tu_.k != "switch" or tu_.discr.place is None:
                            continue
                        for o_ in prog.resolve_pl(bb_, tu_.discr.place, IDENT):
                            if o_.kind != "binop" or o_.info.j["op"] not in ("Le", "Lt", "Ge", "Gt"):
                                continue
                            for si_, side in enumerate(o_.info.ops):
                                # the other operand must be a reported count: the Ok payload of some io::Result (not the
                                # capacity or length of the staging buffer, which is compared with buf.len() for other reasons)
                                oth_ = prog.resolve_op(bb_, o_.info.ops[1 - si_], OKFLOW, o_.blk) if len(o_.info.ops) == 2 else set()
                                if not oth_ or not all(any(e_[:2] == ("v", "Ok") for e_ in z_.path if isinstance(e_, tuple)) for z_ in oth_):
                                    continue
                                for y in prog.resolve_op(bb_, side, OKFLOW, o_.blk):
                                    src = None
                                    if y.kind == "unop" and y.info.j["op"] == "PtrMetadata" and y.info.ops[0].place is not None:
                                        pl_ = y.info.ops[0].place
                                        src = prog.resolve_lifted(bb_, pl_.local, norm_path(pl_), IDENT, at=y.blk)
                                    elif y.kind == "call" and y.callee is not None and y.callee.path.endswith("::len") and y.term.args and y.term.args[0].place is not None:
                                        pl_ = y.term.args[0].place
                                        src = prog.resolve_lifted(y.body, pl_.local, norm_path(pl_), IDENT, at=y.blk)
                                    if src and all(z.kind == "param" and (prog.param_index(z) or (None, None, None))[0] is lf and
                                                   prog.param_index(z)[1] == bufi for z in src):
                                        cmp_found = True
                if cmp_found:
                    rep.ob(cfg, "write-contract", "%s@%d" % (key, rd.blk),
                           "`%s` hands back the result of %s; a count is compared with buf.len() in its closures" % (short(lf.path), gname_))
                else:
                    rep.violation("write-contract:%s" % key,
                                  "`%s` hands back the result of %s and nowhere compares a count with the length of this call's buffer: a stored "
                                  "count of an earlier (larger, abandoned) write would be returned as it is — callers slice their buffer with it "
                                  "(write_all: `&buf[n..]`) and panic when n > buf.len()" % (short(lf.path), gname_),
                                  loc=blk_loc(body, rd.blk), config=cfg, rule="write-contract")
                continue
            if rd.cls not in ("success", "unknown"):
                continue
            pay = prog.resolve_lifted(body, 0, pay_path, OKFLOW, at=rd.blk)
            if not pay and rd.cls == "unknown":
                # a whole io::Result handed back as it is (`return Poll::Ready(res)`): its Ok payload is whatever that result holds
                pay = prog.resolve_lifted(body, 0, pay_path[:-2], OKFLOW, at=rd.blk)
            if not pay:
                continue
            n += 1

            def inner_write_of_buf(x):
                if x.kind != "call" or x.callee is None or not re.search(r"(Write>?::write|AsyncWrite>?::poll_write|write_mmap)$", x.callee.path):
                    return False
                a = prog.resolve_op(x.body, x.term.args[-1], IDENT, x.blk)
                return bool(a) and all(y.kind == "param" and (prog.param_index(y) or (None, None))[1] == bufi for y in a)
            if all(inner_write_of_buf(x) or (x.kind == "const") for x in pay):
                rep.ob(cfg, "write-contract", "%s@%d" % (key, rd.blk), "`%s` returns the count an inner write of the caller's buffer reported" % short(lf.path))
                continue
            # otherwise: gated by n <= buf.len()
            gated = False
            for bb in body.blocks:
                tu = bb.term
                if bb.cleanup or tu.k != "switch" or tu.discr.place is None:
                    continue
                for o_ in prog.resolve_pl(body, tu.discr.place, IDENT):
                    if o_.kind != "binop" or o_.info.j["op"] not in ("Le", "Lt", "Ge", "Gt"):
                        continue
                    sides = [prog.resolve_op(body, x, OKFLOW, o_.blk) for x in o_.info.ops]

                    def is_len_of_buf(sd):
                        for y in sd:
                            if y.kind == "unop" and y.info.j["op"] == "PtrMetadata":
                                src = prog.resolve_op(body, y.info.ops[0], IDENT, y.blk)
                                if src and all(z.kind == "param" and (prog.param_index(z) or (None, None))[1] == bufi for z in src):
                                    continue
                                return False
                            if y.kind == "call" and y.callee is not None and y.callee.path.endswith("::len"):
                                src = prog.resolve_op(y.body, y.term.args[0], IDENT, y.blk)
                                if src and all(z.kind == "param" and (prog.param_index(z) or (None, None))[1] == bufi for z in src):
                                    continue
                                return False
                            return False
                        return bool(sd)
                    opn = o_.info.j["op"]
                    tgt = None
                    if sides[0] == pay and is_len_of_buf(sides[1]) and opn in ("Le", "Lt"):
                        tgt = switch_target(tu, 1)
                    elif sides[1] == pay and is_len_of_buf(sides[0]) and opn in ("Ge", "Gt"):
                        tgt = switch_target(tu, 1)
                    elif sides[0] == pay and is_len_of_buf(sides[1]) and opn in ("Gt",):
                        tgt = switch_target(tu, 0)
                    if tgt is not None and not unreachable_without(prog, body, [Gate(body, (bb.i, tgt), "n <= buf.len()", bb.i)], [rd.blk]):
                        gated = True
            if gated:
                rep.ob(cfg, "write-contract", "%s@%d" % (key, rd.blk), "`%s` returns a stored count only after comparing it with buf.len()" % short(lf.path))
            else:
                rep.violation("write-contract:%s" % key,
                              "`%s` can return Ok(n) where n is neither the count of a write of this call's buffer nor checked against buf.len() "
                              "(%s): callers slice their buffer with n (write_all: `&buf[n..]`) and panic when n > buf.len()" % (
                                  short(lf.path), sorted(map(repr, pay))[:2]), loc=blk_loc(body, rd.blk), config=cfg, rule="write-contract")
    rep.count("write_returns[%s]" % cfg, n)


ALLOC = re.compile(r"(std::vec::Vec::<T>::with_capacity|std::vec::Vec::<T, A>::(with_capacity_in|reserve|reserve_exact|resize|resize_with)|"
                   r"std::string::String::(with_capacity|reserve|reserve_exact)|std::vec::from_elem|std::collections::\w+::<.*>::with_capacity|"
                   r"core::slice::<impl \[T\]>::repeat|core::str::<impl str>::repeat)$")


def check_alloc_sizes(cfg, w, rep):
    """An allocation whose size is a number read from the index (a record's `size`, `time` ... fields are whatever is on disk,
    or whatever a caller of the raw index API stored) aborts or panics with "capacity overflow" for a large value."""
    from .fsrules import arg_sources
    prog = w.prog
    R = w.roles
    untrusted = set(R.record_types) | {"index::Metadata"}
    n = 0

    def tainted(term):
        for st in walk(term):
            if st[0] == "field" and st[1] in untrusted:
                return True
            pth = st[3] if st[0] in ("call", "param", "arg", "field") and len(st) > 3 else (st[4] if st[0] == "agg" and len(st) > 4 else ())
            if any(isinstance(e, tuple) and e and e[0] == "f" and len(e) == 3 and e[2] in untrusted for e in pth):
                return True
        return False
    for body in prog.bodies:
        for blk, t in body.calls():
            if t.callee is None or not ALLOC.search(t.callee.path) or not t.args:
                continue
            n += 1
            lf = prog.owner_fn(body)
            size_op = t.args[-1] if "with_capacity" in t.callee.path or "repeat" in t.callee.path else (t.args[1] if len(t.args) > 1 else t.args[-1])
            if "from_elem" in t.callee.path:
                size_op = t.args[1]
            terms = [w.sym.of_operand(body, size_op)]
            # sizes that arrive through parameters: what do the callers pass?
            for o in prog.resolve_op(body, size_op, DEPEND, blk.i):
                if o.kind == "param":
                    pi = prog.param_index(o)
                    if pi is not None:
                        for (g, b2, blk2, tm) in arg_sources(w, pi[0], pi[1]):
                            terms.append(tm)
            if any(tainted(tm) for tm in terms):
                rep.violation("alloc:%s" % fn_key(lf),
                              "`%s` sizes an allocation (`%s`) with a number taken from an index record: a huge value on disk (or stored through "
                              "the raw index API) makes it panic with 'capacity overflow' or abort the process" % (
                                  short(lf.path), t.callee.path.rsplit("::", 1)[-1]), loc=span_str(t.span), config=cfg, rule="alloc-from-index")
            else:
                rep.ob(cfg, "alloc-from-index", "%s:%s@%d" % (fn_key(lf), t.callee.path.rsplit("::", 1)[-1], blk.i), "allocation size in `%s` does not come from the index" % short(lf.path))
    rep.count("alloc_sites[%s]" % cfg, n)


def _result_match_gates(prog, body):
    """match / if-let on a Result produced by a call of this body: passing edge = Ok arm, other edges = Err arms."""
    from ..gates import switch_other_targets
    cf = prog.cfg(body)
    out = []
    for b in body.blocks:
        t = b.term
        if b.cleanup or b.i not in cf.live() or t.k != "switch" or t.discr.place is None:
            continue
        for o in prog.resolve_pl(body, t.discr.place, IDENT):
            if o.kind != "discr":
                continue
            pl = o.info.place
            if norm_path(pl) or not body.local_ty(pl.local).startswith("std::result::Result<"):
                continue
            leaves = prog.resolve_lifted(body, pl.local, (), OKFLOW)
            if leaves and all(x.kind == "call" and x.body is body for x in leaves):
                others = [(b.i, x) for x in switch_other_targets(t, VIDX["Ok"])]
                out.append(Gate(body, (b.i, switch_target(t, VIDX["Ok"])), "match on Result", max(x.blk for x in leaves), others))
    return out


class Discharger:
    def __init__(self, w, sites):
        self.w = w
        self.prog = w.prog
        self.sites = sites

    # -- description of the value the site operates on (for keys) ----------
    def subject_str(self, s):
        t = s.term
        if t.k == "call" and t.args:
            tm = self.w.sym.of_operand(s.body, t.args[0])
            return _short_term(tm)
        if t.k == "assert":
            return s.what.split("(")[0]
        return "?"

    # -- local rules ----------------------------------------------------------
    def local(self, s):
        for rule in (self.r_checked_before, self.r_path_has_parent, self.r_const_parse, self.r_fixed_hex, self.r_read_amount,
                     self.r_range_full, self.r_len_just_set, self.r_same_length, self.r_reserved_before, self.r_overflow_guarded,
                     self.r_add_below_const, self.r_counter_overflow, self.r_clock, self.r_range_add, self.r_filled_grows, self.r_range_checked):
            r = rule(s)
            if r:
                s.discharge, s.why = r
                return

    def _arg_origins(self, s, i=0, level=IDENT):
        t = s.term
        if i >= len(t.args):
            return set()
        return self.prog.resolve_op(s.body, t.args[i], level, s.blk)

    def r_checked_before(self, s):
        """unwrap of a place that a dominating gate proved Some/Ok, with no intervening mutation of it."""
        if s.kind != "unwrap":
            return None
        prog = self.prog
        body = s.body
        S = self._arg_origins(s)
        if not S:
            return None
        want = "Some" if "Option" in s.what else "Ok"
        # `x.take().unwrap()`: compare on the storage that take() reads
        def same(o_set):
            return o_set and o_set == S

        def pred_set(origins):
            return same(set(origins))
        gates = []
        # match gates on the same storage
        gates += match_gates_set(prog, body, S, want)
        # `x.as_mut().ok_or_else(..)?` / `x.ok_or(..)?` : Try gate whose argument's leaves are the same storage
        for b, t in try_sites(body, prog):
            leaves = prog.resolve_op(body, t.args[0], OKFLOW, b.i)
            if leaves and leaves == S and t.dest is not None:
                for sb, st in switches_on_discr(prog, body, t.dest.local, norm_path(t.dest)):
                    gates.append(Gate(body, (sb.i, switch_target(st, VIDX["Continue"])), "try(same storage)", b.i))
        # `if let Err(e) = x { return }` then x.unwrap(): gate = not-Err edge
        if not gates:
            return None
        bad = unreachable_without(prog, body, gates, [s.blk])
        if bad:
            return None
        # no other mutation of the storage between the gate and the unwrap
        if self._mutated_between(body, s, gates):
            return None
        return ("checked-before", "the same place is proved %s by %s on every path to this unwrap" % (want, gates[0].what))

    def _mutated_between(self, body, s, gates):
        prog = self.prog
        idx = prog.idx(body)
        t = s.term
        if t.args[0].place is None:
            return False
        al = idx.aliases(t.args[0].place, at=s.blk)
        mut = idx.mutated_by()
        cf = idx.cfg
        own_chain = set()
        # calls in the unwrap's own argument chain (e.g. the take() feeding it) are part of the site
        for o in idx.resolve(t.args[0].place.local, norm_path(t.args[0].place), DEPEND, at=s.blk):
            if o.kind == "call":
                own_chain.add(o.blk)
        for (l, p) in al:
            for (blk, mp, ai) in mut.get(l, []):
                if blk in own_chain or blk == s.blk:
                    continue
                ct = body.blocks[blk].term
                if ct.callee is None:
                    continue
                nm = ct.callee.path
                if re.search(r"::(as_mut|as_ref|deref_mut|deref|as_deref_mut|get_mut|lock|new|new_unchecked|poll|input|write|flush|read|len|reserve|set_len|index_mut|copy_from_slice)$", nm):
                    continue   # does not replace the Option/Result itself
                for g in gates:
                    if cf.can_reach(g.edge[1], blk) and cf.can_reach(blk, s.blk):
                        return True
        return False

    def r_path_has_parent(self, s):
        if s.kind != "unwrap" or "Option" not in s.what:
            return None
        for o in self._arg_origins(s):
            if not (o.kind == "call" and o.callee is not None and o.callee.path == "std::path::Path::parent" and not o.path):
                return None
            c = self.w.inv.classify(self.w.sym.of_operand(o.body, o.term.args[0]))
            if c[0] not in ("Content", "Bucket"):
                return None
        return ("path-has-parent", "parent() of a path built by the content/bucket path role always has ≥ 4 components below the cache root")

    def r_const_parse(self, s):
        """unwrap of `x.or_else(|| LITERAL.parse().ok())` / `LITERAL.parse().unwrap()`."""
        if s.kind != "unwrap":
            return None
        tm = self.w.sym.of_operand(s.body, s.term.args[0])
        lits = []

        def is_lit_parse(t):
            if t[0] == "call" and t[1].endswith("str>::parse") or (t[0] == "call" and t[1] == "core::str::<impl str>::parse"):
                a = t[2][0] if t[2] else None
                if a and a[0] == "const" and isinstance(a[1], str):
                    lits.append(a[1])
                    return True
            return False
        if is_lit_parse(tm):
            return ("const-parse", "parse of the string literal %r (input-independent)" % lits[0])
        if tm[0] == "call" and tm[1] == "std::option::Option::<T>::or_else" and len(tm[2]) == 2:
            clos = tm[2][1]
            if clos[0] == "agg":
                cb = self.prog.by_path.get(clos[1])
                if cb is not None:
                    rt = self.w.sym.of_place(cb, 0, ())
                    if rt[0] == "call" and rt[1] == "std::result::Result::<T, E>::ok" and is_lit_parse(rt[2][0]):
                        return ("const-parse", "the fallback closure returns the parse of the string literal %r (input-independent)" % lits[0])
        return None

    def r_fixed_hex(self, s):
        """Range indexing of a hex digest string with constant bounds within its fixed length."""
        if s.kind != "index":
            return None
        t = s.term
        rng = self.w.sym.of_operand(s.body, t.args[1])
        lo, hi = _const_range(rng)
        if lo is None and hi is None:
            return None
        base = self.w.sym.of_operand(s.body, t.args[0])
        n = None
        assumption = ""
        if base[0] == "call" and base[1] in self.w.roles.hash_fns:
            n = {"sha1": 40, "sha256": 64, "sha224": 56, "sha384": 96, "sha512": 128, "md5": 32}.get(self.w.roles.hash_fns[base[1]])
        elif base[0] == "call" and base[1] == "ssri::Integrity::to_hex":
            n = 32  # shortest supported digest (md5 is not supported by ssri; sha1 = 40) — any well-formed integrity has ≥ 32 hex chars
            assumption = " (assumption named in the property: integrity arguments are well-formed)"
        if n is None:
            return None
        if (lo or 0) <= n and (hi is None or hi <= n) and (hi is None or (lo or 0) <= hi):
            return ("fixed-hex" if not assumption else "well-formed-integrity",
                    "constant range %s..%s of a hex digest of length ≥ %d%s" % (lo if lo is not None else "", hi if hi is not None else "", n, assumption))
        return None

    def r_read_amount(self, s):
        """`&buf[..amt]` with amt the amount just returned by a read into that same buffer; `filled()[pre_len..]`."""
        if s.kind != "index":
            return None
        prog = self.prog
        t = s.term
        rng = prog.resolve_op(s.body, t.args[1], IDENT, s.blk)
        base = prog.resolve_op(s.body, t.args[0], IDENT, s.blk)
        for r in rng:
            if r.kind != "agg" or r.info.j.get("path") not in ("std::ops::RangeTo", "std::ops::RangeFrom"):
                return None
            bound = prog.resolve_op(r.body, r.info.ops[0], IDENT, r.blk)
            if r.info.j["path"] == "std::ops::RangeTo":
                ok = False
                for b in bound:
                    if b.kind == "call" and b.callee is not None and re.search(r"(Read::read|AsyncRead::poll_read|AsyncReadExt::read|Write::write|AsyncWrite::poll_write|AsyncWriteExt::write)$", b.callee.path) \
                            and b.path[-2:] == (("v", "Ok"), ("f", "0")):
                        rb = prog.resolve_op(b.body, b.term.args[-1], IDENT, b.blk)
                        if rb == base:
                            ok = True
                if not ok:
                    return None
                return ("read-amount", "slice end is the amount returned by a read into / write from the same buffer (Read/Write contract: n ≤ buf.len())")
            else:
                # RangeFrom{start}: start = len(filled(same ReadBuf)) taken earlier (filled only grows)
                ok = False
                for b in bound:
                    if b.kind == "call" and b.callee is not None and b.callee.path == "core::slice::<impl [T]>::len":
                        src = prog.resolve_op(b.body, b.term.args[0], IDENT, b.blk)
                        if src and all(x.kind == "call" and x.callee and x.callee.path.endswith("ReadBuf::<'a>::filled") for x in src) \
                                and all(x.kind == "call" and x.callee and x.callee.path.endswith("ReadBuf::<'a>::filled") for x in base):
                            ok = True
                if ok:
                    return ("prefix-len", "slice start is an earlier length of the same ReadBuf's filled region (which only grows)")
                return None
        return None

    def r_range_full(self, s):
        if s.kind != "index":
            return None
        rng = self.w.sym.of_operand(s.body, s.term.args[1])
        if rng[0] == "agg" and rng[1] == "std::ops::RangeFull":
            return ("range-full", "`[..]` never panics")
        return None

    def r_len_just_set(self, s):
        """`v[..n]` right after `v.set_len(n)` with the same v and n."""
        if s.kind != "index":
            return None
        prog = self.prog
        body = s.body
        t = s.term
        rng = self.w.sym.of_operand(body, t.args[1])
        if not (rng[0] == "agg" and rng[1] == "std::ops::RangeTo"):
            return None
        end = dict(rng[3]).get("end")
        basev = prog.resolve_op(body, t.args[0], IDENT, s.blk)
        cf = prog.cfg(body)
        for blk, ct in body.calls():
            if ct.callee is not None and ct.callee.path == "std::vec::Vec::<T, A>::set_len" and cf.dominates(blk.i, s.blk):
                v = prog.resolve_op(body, ct.args[0], IDENT, blk.i)
                n = self.w.sym.of_operand(body, ct.args[1])
                if v == basev and n == end:
                    return ("len-just-set", "slice end equals the length just given to set_len on the same vector")
        return None

    def r_same_length(self, s):
        """copy_from_slice(dst, src) where dst = X[..len(src)] (or X[a..a+len(src)], see r_range_add)."""
        if s.kind != "slice-len":
            return None
        dst = self.w.sym.of_operand(s.body, s.term.args[0])
        src = self.w.sym.of_operand(s.body, s.term.args[1])
        ln = _slice_len_term(dst)
        if ln is not None and ln[0] == "call" and ln[1] == "core::slice::<impl [T]>::len" and ln[2] and ln[2][0] == src:
            return ("same-length", "destination is a sub-slice whose length is len(source) by construction")
        return None

    def r_range_add(self, s):
        """dst = X[a .. a + len(src)] (checked add or guarded add): length equals len(src)."""
        if s.kind != "slice-len":
            return None
        dst = self.w.sym.of_operand(s.body, s.term.args[0])
        src = self.w.sym.of_operand(s.body, s.term.args[1])
        rng = _last_range(dst)
        if rng is None or rng[0] != "agg" or rng[1] != "std::ops::Range":
            return None
        d = dict(rng[3])
        a, e = d.get("start"), d.get("end")
        if a is None or e is None:
            return None
        for st in walk(e):
            if st[0] == "op" and st[1] in ("AddWithOverflow", "Add") and len(st[2]) == 2:
                x, y = st[2]
                for p, q in ((x, y), (y, x)):
                    if p == a and q[0] == "call" and q[1] == "core::slice::<impl [T]>::len" and q[2] and q[2][0] == src:
                        return ("same-length", "destination is X[a..a+len(source)]: its length is len(source) by construction")
            if st[0] == "call" and st[1] == "core::num::<impl usize>::checked_add" and len(st[2]) == 2:
                x, y = st[2]
                for p, q in ((x, y), (y, x)):
                    if p == a and q[0] == "call" and q[1] == "core::slice::<impl [T]>::len" and q[2] and q[2][0] == src:
                        return ("same-length", "destination is X[a..a.checked_add(len(source))]: its length is len(source) by construction")
        return None

    def r_reserved_before(self, s):
        """unsafe set_len(v, n): capacity ≥ n because `if v.len() < n { v.reserve(n - v.len()) }` dominates it, and the
        first n elements are initialised right after by a full copy_from_slice."""
        if s.kind != "unsafe-len" or not s.what.endswith("set_len"):
            return None
        prog = self.prog
        body = s.body
        t = s.term
        v = prog.resolve_op(body, t.args[0], IDENT, s.blk)
        n = self.w.sym.of_operand(body, t.args[1])
        cf = prog.cfg(body)
        for blk, ct in body.calls():
            if ct.callee is None or ct.callee.path != "std::vec::Vec::<T, A>::reserve":
                continue
            if prog.resolve_op(body, ct.args[0], IDENT, blk.i) != v:
                continue
            add = self.w.sym.of_operand(body, ct.args[1])
            # additional = n - len(v)
            ok_amt = False
            for st in walk(add):
                if st[0] == "op" and st[1] in ("SubWithOverflow", "Sub") and st[2][0] == n:
                    r = st[2][1]
                    if r[0] == "call" and r[1] == "std::vec::Vec::<T, A>::len":
                        ok_amt = True
            if not ok_amt:
                continue
            # the reserve sits on the true edge of Lt(len(v), n); the false edge (len >= n => capacity >= n) also reaches set_len
            for bb in body.blocks:
                tu = bb.term
                if bb.cleanup or tu.k != "switch" or tu.discr.place is None:
                    continue
                for o in prog.resolve_pl(body, tu.discr.place, IDENT):
                    if o.kind == "binop" and o.info.j["op"] == "Lt":
                        l = self.w.sym.of_operand(body, o.info.ops[0])
                        r = self.w.sym.of_operand(body, o.info.ops[1])
                        if r == n and l[0] == "call" and l[1] == "std::vec::Vec::<T, A>::len":
                            tt = switch_target(tu, 1)
                            if cf.can_reach(tt, blk.i) and cf.dominates(bb.i, s.blk):
                                return ("reserved-before", "set_len(n) is dominated by `if len < n { reserve(n - len) }` on the same vector: capacity ≥ n")
        return None

    def r_overflow_guarded(self, s):
        """`a - b` asserted for overflow, on the true edge of `b < a`."""
        if s.kind != "assert:Overflow" or "Sub" not in s.what:
            return None
        prog = self.prog
        body = s.body
        t = s.term
        ops = None
        for o in prog.resolve_pl(body, t.discr.place, IDENT) if t.discr.place else []:
            if o.kind == "binop" and o.info.j["op"] == "SubWithOverflow":
                ops = [self.w.sym.of_operand(body, x) for x in o.info.ops]
        if not ops:
            return None
        cf = prog.cfg(body)
        for bb in body.blocks:
            tu = bb.term
            if bb.cleanup or tu.k != "switch" or tu.discr.place is None:
                continue
            for o in prog.resolve_pl(body, tu.discr.place, IDENT):
                if o.kind == "binop" and o.info.j["op"] in ("Lt", "Le", "Gt", "Ge"):
                    l = self.w.sym.of_operand(body, o.info.ops[0])
                    r = self.w.sym.of_operand(body, o.info.ops[1])
                    op = o.info.j["op"]
                    # need: ops[1] <= ops[0]
                    tgt = None
                    if op in ("Lt", "Le") and l == ops[1] and r == ops[0]:
                        tgt = switch_target(tu, 1)
                    if op in ("Gt", "Ge") and l == ops[0] and r == ops[1]:
                        tgt = switch_target(tu, 1)
                    if tgt is not None:
                        g = Gate(body, (bb.i, tgt), "cmp", bb.i)
                        if not unreachable_without(prog, body, [g], [s.blk]):
                            return ("overflow-guarded", "subtraction is only reached when the subtrahend is smaller (dominating comparison)")
        return None

    def r_filled_grows(self, s):
        """`buf.filled().len()` taken after an inner poll_read minus the value taken before it (tokio ReadBuf only grows)."""
        if s.kind != "assert:Overflow" or "Sub" not in s.what:
            return None
        prog = self.prog
        body = s.body
        t = s.term
        cf = prog.cfg(body)
        for o in prog.resolve_pl(body, t.discr.place, IDENT) if t.discr.place else []:
            if o.kind == "binop" and o.info.j["op"] == "SubWithOverflow":
                srcs = [prog.resolve_op(body, x, IDENT, o.blk) for x in o.info.ops]

                def filled_len(ss):
                    out = []
                    for x in ss:
                        if not (x.kind == "call" and x.callee is not None and x.callee.path == "core::slice::<impl [T]>::len"):
                            return None
                        f = prog.resolve_op(x.body, x.term.args[0], IDENT, x.blk)
                        if not f or not all(y.kind == "call" and y.callee and y.callee.path.endswith("ReadBuf::<'a>::filled") for y in f):
                            return None
                        bufs = set()
                        for y in f:
                            bufs |= prog.resolve_op(y.body, y.term.args[0], IDENT, y.blk)
                        out.append((x.blk, frozenset(bufs)))
                    return out
                a, b = filled_len(srcs[0]), filled_len(srcs[1])
                if a and b and len(a) == 1 and len(b) == 1 and a[0][1] == b[0][1]:
                    if cf.dominates(b[0][0], a[0][0]):
                        return ("filled-grows", "later length of a ReadBuf's filled region minus an earlier one (the filled region only grows)")
        return None

    def r_range_checked(self, s):
        """X[a..e] where e = a.checked_add(n) (so a <= e) and the site is only reached when e <= X.len()."""
        if s.kind != "index":
            return None
        prog = self.prog
        body = s.body
        t = s.term
        rng = self.w.sym.of_operand(body, t.args[1])
        if not (rng[0] == "agg" and rng[1] == "std::ops::Range"):
            return None
        d = dict(rng[3])
        a, e = d.get("start"), d.get("end")
        if a is None or e is None:
            return None
        if not (e[0] == "call" and e[1] == "core::num::<impl usize>::checked_add" and len(e[2]) == 2 and e[2][0] == a
                and tuple(e[3])[:2] == (("v", "Some"), ("f", "0"))):
            return None
        base = self.w.sym.of_operand(body, t.args[0])
        cf = prog.cfg(body)
        for bb in body.blocks:
            tu = bb.term
            if bb.cleanup or tu.k != "switch" or tu.discr.place is None:
                continue
            for o in prog.resolve_pl(body, tu.discr.place, IDENT):
                if o.kind == "binop" and o.info.j["op"] in ("Le", "Ge", "Gt", "Lt"):
                    l = self.w.sym.of_operand(body, o.info.ops[0])
                    r = self.w.sym.of_operand(body, o.info.ops[1])
                    op = o.info.j["op"]

                    def is_len_of_base(x):
                        return x[0] == "call" and x[1].endswith("::len") and x[2] and _same_storage(x[2][0], base)
                    tgt = None
                    if op == "Le" and l == e and is_len_of_base(r):
                        tgt = switch_target(tu, 1)
                    elif op == "Ge" and r == e and is_len_of_base(l):
                        tgt = switch_target(tu, 1)
                    elif op == "Gt" and l == e and is_len_of_base(r):
                        tgt = switch_target(tu, 0)
                    elif op == "Lt" and r == e and is_len_of_base(l):
                        tgt = switch_target(tu, 0)
                    if tgt is not None:
                        g = Gate(body, (bb.i, tgt), "end <= len", bb.i)
                        if not unreachable_without(prog, body, [g], [s.blk]):
                            return ("range-checked", "range a..e with e = a.checked_add(n) is only used on the edge where e <= len(base)")
        return None

    def r_add_below_const(self, s):
        """`x + c` (c a small constant) asserted for overflow, reached only on the true edge of `x < K` / `x <= K` with K a
        small constant and x not assigned in between: the sum is at most K + c."""
        if s.kind != "assert:Overflow" or "Add" not in s.what:
            return None
        prog = self.prog
        body = s.body
        t = s.term
        add = None
        for o in prog.resolve_pl(body, t.discr.place, IDENT) if t.discr.place else []:
            if o.kind == "binop" and o.info.j["op"] == "AddWithOverflow":
                add = o.info.ops
        if not add or len(add) != 2:
            return None
        SMALL = 1 << 30

        def small_const(op):
            return op.is_const and isinstance(op.const_val, int) and 0 <= op.const_val <= SMALL

        def plc(op):
            """The user place an operand copies (temporaries assigned exactly once by a plain copy are looked through)."""
            if op.place is None:
                return None
            cur = op.place
            for _ in range(4):
                defs = [st for b in body.blocks if not b.cleanup for st in b.stmts
                        if st.k == "assign" and st.place.local == cur.local and not norm_path(st.place)]
                if len(defs) == 1 and defs[0].rv.k == "use" and defs[0].rv.ops[0].place is not None and not norm_path(cur):
                    cur = defs[0].rv.ops[0].place
                else:
                    break
            return (cur.local, tuple(norm_path(cur)))
        if small_const(add[1]) and add[0].place is not None:
            x = plc(add[0])
        elif small_const(add[0]) and add[1].place is not None:
            x = plc(add[1])
        else:
            return None
        cf = prog.cfg(body)
        for bb in body.blocks:
            tu = bb.term
            if bb.cleanup or tu.k != "switch" or tu.discr.place is None:
                continue
            for o in prog.resolve_pl(body, tu.discr.place, IDENT):
                if o.kind == "binop" and o.info.j["op"] in ("Lt", "Le", "Gt", "Ge"):
                    l, r = o.info.ops
                    op = o.info.j["op"]
                    tgt = None
                    if op in ("Lt", "Le") and plc(l) == x and small_const(r):
                        tgt = switch_target(tu, 1)
                    if op in ("Gt", "Ge") and plc(r) == x and small_const(l):
                        tgt = switch_target(tu, 1)
                    if tgt is None:
                        continue
                    g = Gate(body, (bb.i, tgt), "cmp", bb.i)
                    if unreachable_without(prog, body, [g], [s.blk]):
                        continue
                    # x keeps its value from the comparison to the addition
                    after = cf.reachable(tgt, cut_nodes={bb.i})
                    between = {b for b in after if s.blk in cf.reachable(b, cut_nodes={bb.i})}
                    between |= {o.blk} if o.blk != bb.i else set()
                    dirty = any(st.k == "assign" and st.place.local == x[0] for b in between for st in body.blocks[b].stmts)
                    if not dirty:
                        return ("add-below-const", "the addition is only reached when the counter is below a small constant (dominating comparison, counter unchanged in between)")
        return None

    def r_counter_overflow(self, s):
        """usize byte counters: `counter += amount`."""
        if s.kind != "assert:Overflow" or "Add" not in s.what:
            return None
        prog = self.prog
        body = s.body
        t = s.term
        for o in prog.resolve_pl(body, t.discr.place, IDENT) if t.discr.place else []:
            if o.kind == "binop" and o.info.j["op"] == "AddWithOverflow":
                tys = [body.local_ty(x.place.local) if x.place is not None and not x.place.proj else "usize" for x in o.info.ops]
                amt_ok = False
                for x in o.info.ops:
                    for a in prog.resolve_op(body, x, IDENT, o.blk):
                        if a.kind == "call" and a.callee is not None and re.search(
                                r"(Read::read|Write::write|AsyncRead::poll_read|AsyncWrite::poll_write|AsyncReadExt::read|slice::<impl \[T\]>::len)$", a.callee.path):
                            amt_ok = True
                        if a.kind == "binop" and a.info.j["op"] in ("Sub", "SubWithOverflow"):
                            amt_ok = True
                if amt_ok:
                    return ("counter-overflow", "usize byte counter incremented by an I/O amount (assumption: fewer than 2^64 bytes are transferred)")
        return None

    def r_clock(self, s):
        if s.kind != "unwrap":
            return None
        tm = self.w.sym.of_operand(s.body, s.term.args[0])
        if tm[0] == "call" and tm[1] == "std::time::SystemTime::duration_since" and len(tm[2]) == 2 and \
                tm[2][0][0] == "call" and tm[2][0][1] == "std::time::SystemTime::now" and tm[2][1] == ("const_item", "std::time::UNIX_EPOCH"):
            return ("clock-after-epoch", "now().duration_since(UNIX_EPOCH) (assumption: the system clock is not before 1970)")
        return None

    # -- dependency rules ---------------------------------------------------------
    def dependent(self, s):
        prog = self.prog
        # lock-poison: Mutex::lock().unwrap()
        if s.kind == "unwrap":
            tm = self.w.sym.of_operand(s.body, s.term.args[0])
            if self._is_lock_unwrap(s):
                # every function that locks a mutex of this crate must be free of undischarged sites
                lockers = set()
                for b in prog.bodies:
                    for blk, t in b.calls():
                        if t.callee is not None and t.callee.path == "std::sync::Mutex::<T>::lock":
                            lockers.add(prog.owner_fn(b).path)
                bad = [x for x in self.sites if x.discharge is None and x is not s and prog.owner_fn(x.body).path in lockers
                       and not self._is_lock_unwrap(x)]
                if not bad:
                    s.discharge, s.why = "lock-poison", "the mutex can only be poisoned by a panic while it is held, and no function holding it has an undischarged panic site"
                return
            # join-error: unwrap of an awaited spawn_blocking handle (tokio)
            if self._is_join_unwrap(s, tm):
                spawned = set()
                for b in prog.bodies:
                    for blk, t in b.calls():
                        if t.callee is not None and t.callee.path in ("tokio::task::spawn_blocking", "async_std::task::spawn_blocking"):
                            for o in prog.resolve_op(b, t.args[0], IDENT, blk.i):
                                if o.kind == "agg" and o.info.j["agg"] == "closure":
                                    spawned.add(o.info.j["path"])
                bad = [x for x in self.sites if x.discharge is None and x is not s and
                       any(x.body.path == c or x.body.path.startswith(c + "::") for c in spawned)]
                if not bad:
                    s.discharge, s.why = "join-error", "JoinError arises only if the blocking closure panicked (or the runtime is shutting down); no spawned closure has an undischarged panic site"
                return
        # stub-unreachable: bodies of the cfg(not(mmap)) stand-in type are reachable only through an Option that is never Some
        lf = prog.owner_fn(s.body)
        own = strip_refs(lf.outer.impl_self or "")
        if s.kind == "panic":
            cands = [own] if own and self.w.adt(own) is not None else []
            # a function cannot be called without values for its parameters: a parameter whose type is a crate
            # ADT that is never constructed makes the body unreachable
            for ity in lf.outer.j.get("sig_inputs", []):
                st = strip_refs(ity)
                if self.w.adt(st) is not None:
                    cands.append(st)
            for c in cands:
                if self._never_constructed(c):
                    s.discharge, s.why = "stub-unreachable", "`%s` is never constructed in this configuration (its only producer returns None on every path)" % c
                    return

    def _is_lock_unwrap(self, x):
        if x.kind != "unwrap":
            return False
        ty = (x.term.j.get("arg_tys") or [""])[0]
        return "std::sync::MutexGuard" in ty or "std::sync::PoisonError" in ty

    def _is_join_unwrap(self, s, tm):
        lf = self.prog.owner_fn(s.body)
        ty = (s.term.j.get("arg_tys") or [""])[0]
        return "tokio::task::JoinError" in ty or "task::JoinError" in ty

    def _never_constructed(self, adt):
        prog = self.prog
        a = self.w.adt(adt)
        if a is None:
            return False
        # no aggregate construction anywhere
        for b in prog.bodies:
            for blk in b.blocks:
                for st in blk.stmts:
                    if st.k == "assign" and st.rv.k == "agg" and st.rv.j["agg"] == "adt" and st.rv.j["path"] == adt:
                        return False
        # every function returning (something containing) the type returns a constant None for it
        for lf in prog.fns.values():
            so = lf.outer.j.get("sig_output", "")
            if adt in so:
                for rd in ret_defs(prog, lf.body):
                    pass
                t = self.w.sym.of_place(lf.body, 0, ())
                txt = term_str(t)
                if "Option::None" not in txt or "Some" in txt:
                    return False
        return True


# ----------------------------------------------------------------- helpers

def try_sites(body, prog):
    cf = prog.cfg(body)
    for b, t in body.calls():
        if b.i in cf.live() and t.callee and t.callee.path == "std::ops::Try::branch":
            yield b, t


def match_gates_set(prog, body, S, variant):
    """match gates where the switched place resolves exactly to the origin set S."""
    gates = []
    cf = prog.cfg(body)
    for b in body.blocks:
        if b.cleanup or b.i not in cf.live():
            continue
        t = b.term
        if t.k != "switch" or t.discr.place is None:
            continue
        for o in prog.resolve_pl(body, t.discr.place, IDENT):
            if o.kind != "discr":
                continue
            pl = o.info.place
            leaves = prog.resolve_lifted(body, pl.local, norm_path(pl), IDENT, at=o.blk)
            if leaves and leaves == S:
                tgt = switch_target(t, VIDX[variant])
                gates.append(Gate(body, (b.i, tgt), "match(is %s)" % variant, o.blk))
    return gates


def _same_storage(a, b):
    """Two terms denote the same object up to deref/deref_mut wrappers."""
    def strip(t):
        while t[0] == "call" and t[1].endswith(("::deref", "::deref_mut")) and t[2]:
            t = t[2][0]
        return t
    return strip(a) == strip(b)


def _const_range(rng):
    if rng[0] != "agg" or not rng[1].startswith("std::ops::Range"):
        return None, None
    d = dict(rng[3])
    lo = d.get("start")
    hi = d.get("end")
    lo_v = lo[1] if lo and lo[0] == "const" and isinstance(lo[1], int) else None
    hi_v = hi[1] if hi and hi[0] == "const" and isinstance(hi[1], int) else None
    if lo is not None and lo_v is None:
        return None, None
    if hi is not None and hi_v is None:
        return None, None
    return lo_v, hi_v


def _last_range(t):
    """Range term of the outermost slicing step in a slice term."""
    p = None
    if t[0] in ("call",):
        p = t[3]
    elif t[0] in ("param", "field", "arg"):
        p = t[3]
    elif t[0] == "agg":
        p = t[4]
    if p:
        for e in reversed(p):
            if e[0] == "[]" and len(e) == 2:
                return e[1]
    return None


def _slice_len_term(t):
    """If t is X[..n], return n."""
    r = _last_range(t)
    if r is not None and r[0] == "agg" and r[1] == "std::ops::RangeTo":
        return dict(r[3]).get("end")
    return None


def _short_term(t):
    s = term_str(t)
    s = re.sub(r"std::(\w+::)+", "", s)
    s = re.sub(r"core::(\w+::)+", "", s)
    return s[:70]
