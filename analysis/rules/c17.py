"""C17 — the on-disk layout is the fixed, versioned cacache format: the format descriptor extracted from the code
equals the specification in the property."""
import re

from .common import *
from ..core import _range_str
from ..symval import walk

PROP = "C17"

ORACLE = {
    "bucket_path": ["{cache}", "index-v5", "sha1hex(key)[0..2]", "sha1hex(key)[2..4]", "sha1hex(key)[4..]"],
    "content_path": ["{cache}", "content-v2", "{algorithm}", "hex(digest)[0..2]", "hex(digest)[2..4]", "hex(digest)[4..]"],
    "record": "\\n{sha256hex(json)}\\t{json}",
    "json_fields": ["key", "integrity", "time", "size", "metadata", "raw_metadata"],
    "integrity_field_type": "std::option::Option<std::string::String>",
    # what the derived serializer hands to serde for each field: the field itself, with its own type (a `#[serde(with = ..)]`,
    # `serialize_with`, `flatten` ... would put a wrapper or another representation — hex text for bytes, say — on disk)
    "json_field_encodings": ["std::string::String", "std::option::Option<std::string::String>", "u128", "usize", "serde_json::Value",
                             "std::option::Option<std::vec::Vec<u8>>"],
    "reader_field_separator": "\t",
    "reader_checksum": "sha256hex(fields[1]) == fields[0]",
    "listing_root": ["{cache}", "index-v5"],
    "hash_key": "hex(sha1(key))",
    "hash_entry": "hex(sha256(json))",
}


def run(ctx, rep):
    for cfg, w in ctx.worlds():
        check_config(cfg, w, rep)
    return rep


def seg_str(w, t, fnpath):
    """Canonical rendering of one path segment term."""
    R = w.roles
    if t[0] == "param":
        return "{cache}" if t[2] == 0 and not t[3] else "{param#%d}" % t[2]
    if t[0] == "const":
        return str(t[1])
    if t[0] == "fmt":
        s = ""
        for p in t[1]:
            if p[0] == "lit":
                s += p[1]
            else:
                a = p[2]
                if a[0] == "const":
                    s += str(a[1])
                else:
                    inner = seg_str(w, a, fnpath)
                    if inner == "{algorithm-enum}" and p[1] == "new_display":
                        inner = "{algorithm}"      # Display of the algorithm == to_string()
                    s += inner if inner.startswith("{") or inner.startswith("sha") or inner.startswith("hex(") else "{" + inner + "}"
        return s
    if t[0] == "call":
        rng = ""
        for e in t[3]:
            if e[0] == "[]" and len(e) == 2:
                rng = "[%s]" % _range_str(e[1])
        if t[1] in R.hash_fns and len(t[2]) == 1 and t[2][0][0] == "param" and t[2][0][2] == 1:
            return "%shex(key)%s" % (R.hash_fns[t[1]], rng)
        if t[1] == "ssri::Integrity::to_hex" and t[2] and t[2][0][0] == "param" and t[2][0][2] == 1:
            fld = [e for e in t[3] if e[0] == "f"]
            if fld and fld[0][1] == "1":
                return "hex(digest)%s" % rng
            if fld and fld[0][1] == "0":
                return "{algorithm-enum}"
        if t[1].endswith("ToString>::to_string") and t[2]:
            inner = seg_str(w, t[2][0], fnpath)
            if inner == "{algorithm-enum}":
                return "{algorithm}"
            return "to_string(%s)" % inner
    return "?" + term_str(t)[:60]


def segments(w, t, fnpath):
    """Flatten join / push chains (and '/' inside literals) into a list of canonical segments."""
    out = []
    if t[0] == "call" and t[1] == "std::path::Path::join" and len(t[2]) == 2:
        out += segments(w, t[2][0], fnpath)
        out += segments(w, t[2][1], fnpath)
        return out
    if t[0] == "pushed":
        base = t[1]
        if not (base[0] == "call" and base[1] == "std::path::PathBuf::new"):
            out += segments(w, base, fnpath)
        for s in t[2]:
            out += segments(w, s, fnpath)
        return out
    s = seg_str(w, t, fnpath)
    return [x for x in s.split("/") if x != ""] if "/" in s and not s.startswith("{") else [s]


def digest_desc(w, lf):
    t = w.sym.of_place(lf.body, 0, ())
    kind = w.roles.hash_fns.get(lf.path)
    ins = [st for st in walk(t) if st[0] == "call" and (st[1].endswith("Digest>::update") or st[1] == "digest::Digest::update")]
    arg_ok = len(ins) == 1 and ins[0][2] == (("param", lf.path, 0, ()),)
    enc = t[0] == "call" and t[1] == "hex::encode"
    return kind, arg_ok and enc, term_str(t)[:100]


def check_config(cfg, w, rep):
    prog = w.prog
    R = w.roles
    is_async = not cfg.startswith("sync")
    desc = {}
    where = {}
    # paths
    for role, paths in (("bucket_path", R.bucket_path), ("content_path", R.content_path)):
        if len(paths) != 1:
            rep.violation("anchor:%s" % role, "ANCHOR-MISSING: %d functions have the %s role (expected 1)" % (len(paths), role), config=cfg, rule="anchor-floor")
            continue
        lf = prog.fns[paths[0]]
        t = w.sym.of_place(lf.body, 0, ())
        desc[role] = segments(w, t, lf.path)
        where[role] = lf.body.loc()
    # the directory the listing walks
    roots = []
    for e in w.inv.effects:
        if e.kind == "ReadDir" and e.term.callee is not None and "walkdir" in e.term.callee.path:
            roots.append(segments(w, e.terms.get("path"), None))
            where["listing_root"] = e.loc()
    desc["listing_root"] = roots[0] if len(roots) == 1 else "DIFFERENT:%s" % roots
    # hash roles
    for p, kind in R.hash_fns.items():
        lf = prog.fns[p]
        k, ok, txt = digest_desc(w, lf)
        # which role: the one used by BUCKET_PATH is HASH_KEY; the one used in record templates is HASH_ENTRY
        used_by_bucket = any(p in term_str(w.sym.of_place(prog.fns[b].body, 0, ())) for b in R.bucket_path)
        name = "hash_key" if used_by_bucket else "hash_entry"
        desc[name] = "hex(%s(%s))" % (k, "key" if name == "hash_key" else "json") if ok else "?" + txt
        where[name] = lf.body.loc()
    # record templates of every insert
    recs = set()
    for p in R.index_inserts:
        lf = prog.fns[p]
        em = record_emission(w, lf)
        if em["pieces"] is None:
            recs.add("?" + "; ".join(em["problems"])[:60])
            continue
        s = ""
        for pc in em["pieces"]:
            if pc[0] == "lit":
                s += pc[1].replace("\n", "\\n").replace("\t", "\\t")
            else:
                a = pc[2]
                if a[0] == "call" and a[1] in R.hash_fns:
                    s += "{%shex(json)}" % R.hash_fns[a[1]]
                elif a[0] == "call" and a[1] == "serde_json::to_string":
                    s += "{json}"
                else:
                    s += "{?%s}" % term_str(a)[:30]
        recs.add(s)
        if em["writes"]:
            where["record"] = em["writes"][0].loc()
    desc["record"] = sorted(recs)[0] if len(recs) == 1 else "DIFFERENT:" + " | ".join(sorted(recs))
    # json fields: constants of the derived Serialize impl, in order
    rt = sorted(R.record_types)[0] if R.record_types else None
    names = []
    for p, lf in prog.fns.items():
        if rt and rt in p and p.endswith("::serialize") and "Serialize for" in p:
            for blk, t in lf.body.calls():
                if t.callee is not None and t.callee.path.endswith("SerializeStruct::serialize_field"):
                    names.append(t.args[1].const_str)
            where["json_fields"] = lf.body.loc()
    desc["json_fields"] = names
    encs = []
    for p, lf in prog.fns.items():
        if rt and rt in p and p.endswith("::serialize") and "Serialize for" in p:
            for blk, t in lf.body.calls():
                if t.callee is not None and t.callee.path.endswith("SerializeStruct::serialize_field"):
                    encs.append((t.callee.args or ["?"])[-1])
            where["json_field_encodings"] = lf.body.loc()
    desc["json_field_encodings"] = encs
    ity = None
    for (v, f, ty) in w.adt_fields(rt or ""):
        if f == "integrity":
            ity = ty
    desc["integrity_field_type"] = ity
    # readers
    seps = set()
    sums = set()
    for p in R.bucket_readers:
        lf = prog.fns[p]
        # the reader and the private helpers it validates lines with (one level; the hash roles themselves excluded)
        sites = list(prog.call_sites(lf))
        for _b, _blk, _t, g in prog.local_calls(lf):
            if not g.outer.reachable and g.path not in R.hash_fns and g.path not in R.bucket_readers:
                sites += list(prog.call_sites(g))
        for b, blk, t in sites:
            if t.callee is not None and t.callee.path == "core::str::<impl str>::split" and len(t.args) > 1:
                seps.add(t.args[1].const_val if t.args[1].is_const else "?")
            if t.callee is not None and t.callee.path in ("std::cmp::PartialEq::eq", "std::cmp::PartialEq::ne"):
                a = w.sym.of_operand(b, t.args[0])
                c = w.sym.of_operand(b, t.args[1])
                for x, y in ((a, c), (c, a)):
                    if x[0] == "call" and x[1] in R.hash_fns:
                        def fld(z):
                            for e in (z[3] if z[0] in ("call", "param", "field", "arg") else ()):
                                if e[0] == "[]" and len(e) == 4:
                                    return e[2]
                            return None
                        sums.add("%shex(fields[%s]) == fields[%s]" % (R.hash_fns[x[1]], fld(x[2][0]) if x[2] else "?", fld(y)))
        where["reader_field_separator"] = lf.body.loc()
    desc["reader_field_separator"] = sorted(seps)[0] if len(seps) == 1 else "DIFFERENT:%s" % sorted(map(str, seps))
    desc["reader_checksum"] = sorted(sums)[0] if len(sums) == 1 else "DIFFERENT:%s" % sorted(sums)
    where["reader_checksum"] = where.get("reader_field_separator")

    for k, want in ORACLE.items():
        got = desc.get(k)
        if got == want:
            rep.ob(cfg, "descriptor", k, "%s = %s" % (k, got))
        else:
            rep.violation("descriptor:%s" % k,
                          "on-disk format changed: %s is %r, the versioned cacache format requires %r" % (k, got, want),
                          loc=where.get(k), config=cfg, rule="descriptor")
    # the library reads what an independent writer of this format produced: every bucket reader takes ALL lines of the file
    # and validates each as the format says (the reader clauses of C06, re-checked here: a reader that stops early, drops
    # lines or validates differently reads a reference-written cache differently from the reference)
    from ..framework import Report
    from . import c06
    sub = Report("C06")
    for p_ in R.bucket_readers:
        c06.check_reader(cfg, w, sub, prog.fns[p_])
    for (c_, rule, k, desc, ok) in sub.obligations:
        if ok:
            rep.ob(cfg, "reader/" + rule, k, desc)
    for k, v in sub.violations.items():
        rep.violation("reader:%s" % k, "an index written by another implementation of the format would be read differently — " + v.msg,
                      loc=v.loc, config=cfg, rule="reader/" + (v.rule or ""), witness=v.witness)
    # ... and interprets the log as the format says: per key the LAST valid record in file order wins and a null integrity
    # removes the key — in lookups (C05 b) and in the listing (C10 b-d). A library that picks by timestamp, or filters records
    # textually, reads a reference-written history differently from the reference.
    from . import c05, c10
    from .c01 import find_fns
    sub = Report("C05")
    for p_ in sorted(find_fns(w)):
        c05.check_find(cfg, w, sub, prog.fns[p_])
    sub2 = Report("C10")
    c10.check_config(cfg, w, sub2)
    for tag, sb in (("lookup", sub), ("listing", sub2)):
        for (c_, rule, k, desc, ok) in sb.obligations:
            if ok:
                rep.ob(cfg, "%s/%s" % (tag, rule), k, desc)
        for k, v in sb.violations.items():
            rep.violation("%s:%s" % (tag, k), "a history written by another implementation of the format would be interpreted differently — " + v.msg,
                          loc=v.loc, config=cfg, rule="%s/%s" % (tag, v.rule or ""), witness=v.witness)
    if "link_to" in cfg:
        # with link_to "data lives at content-v2/<algorithm>/<digest>" means: the symlink at that address points at the very file
        # whose bytes were digested (absolute target taken where it is opened, exact digest input, real existence check)
        from . import c19
        sub3 = Report("C19")
        c19.check_config(cfg, w, sub3)
        L = ("e-absolute-target", "b-hashes-what-it-reads", "b-input-slice", "b-consumes-all", "d-existing-destination")
        for (c_, rule, k, desc, ok) in sub3.obligations:
            if rule in L and ok:
                rep.ob(cfg, "link/" + rule, k, desc)
        for k, v in sub3.violations.items():
            if v.rule in L:
                rep.violation("link:%s" % k, "the entry at a content address would not be the data of that address — " + v.msg, loc=v.loc, config=cfg,
                              rule="link/" + v.rule, witness=v.witness)
    # writer/reader agreement (sibling check): the reader validates with the same HASH_ENTRY role the writers use
    rep.count("descriptor_keys[%s]" % cfg, len(ORACLE))
    rep.floor("index_inserts", len(R.index_inserts), 2 if is_async else 1, cfg)
    rep.floor("bucket_readers", len(R.bucket_readers), 2 if is_async else 1, cfg)
