"""C11 — index metadata is returned as supplied, with truthful defaults (field agreement at every representation change)."""
import re

from .common import *
from .c08 import insert_calls
from ..symval import walk

PROP = "C11"
RECORD_FIELDS = ["key", "integrity", "time", "size", "metadata", "raw_metadata"]
SETTERS = {"algorithm": "algorithm", "size": "size", "metadata": "metadata", "raw_metadata": "raw_metadata", "time": "time",
           "integrity": "sri"}


def run(ctx, rep):
    for cfg, w in ctx.worlds():
        check_config(cfg, w, rep)
    return rep


def check_config(cfg, w, rep):
    prog = w.prog
    R = w.roles
    is_async = not cfg.startswith("sync")
    rts = sorted(R.record_types)
    rt = rts[0] if rts else None

    # ---- write side: the record aggregate in every INDEX_INSERT ----
    for p in R.index_inserts:
        lf = prog.fns[p]
        check_record_agg(cfg, w, rep, lf, rt)
    # ---- the undeclared size is the commit's byte counter ----
    for p in R.commits:
        check_commit_size(cfg, w, rep, prog.fns[p])
        check_commit_keeps_declared(cfg, w, rep, prog.fns[p])
    check_commit_always_inserts(cfg, w, rep, "commit")
    # ---- ... and that byte counter is the number of data bytes written: `counter += amount the inner writer accepted` in every
    #      data-accepting method of the keyed writers (C02 c, re-checked here) ----
    from ..framework import Report as _Report
    from . import c02 as _c02
    from ..world import strip_refs as _sr
    subc = _Report("C02")
    for lf_ in prog.fns.values():
        o_ = lf_.outer
        if o_.name in ("write", "poll_write") and o_.impl_trait and _sr(o_.impl_self or "") in ("put::SyncWriter", "put::Writer"):
            _c02.check_counter(cfg, w, subc, lf_)
    for (c_, rule, k, desc, ok) in subc.obligations:
        if ok:
            rep.ob(cfg, "commit-size/" + rule, k, desc)
    for k, v in subc.violations.items():
        rep.violation("commit-size:%s" % k, "the size recorded by default would not be the number of bytes written — " + v.msg, loc=v.loc, config=cfg,
                      rule="commit-size/" + (v.rule or ""))
    # ---- listings return what lookups return: the listing's selection and field map (C10), re-checked here ----
    from ..framework import Report
    from . import c10
    sub = Report("C10")
    c10.check_config(cfg, w, sub)
    for (c_, rule, k, desc, ok) in sub.obligations:
        if ok:
            rep.ob(cfg, "listing/" + rule, k, desc)
    for k, v in sub.violations.items():
        rep.violation("listing:%s" % k, "a listing could return something else than the writer attached — " + v.msg, loc=v.loc, config=cfg,
                      rule="listing/" + (v.rule or ""), witness=v.witness)
    # ---- read side: every Metadata aggregate built from a record ----
    n_md = 0
    for b in prog.bodies:
        cf = prog.cfg(b)
        for blk in b.blocks:
            if blk.cleanup or blk.i not in cf.live():
                continue
            for i, s in enumerate(blk.stmts):
                if s.k == "assign" and s.rv.k == "agg" and s.rv.j["agg"] == "adt" and s.rv.j["path"] == "index::Metadata":
                    n_md += 1
                    check_metadata_agg(cfg, w, rep, b, blk, s, rt)
    rep.floor("metadata_aggregates", n_md, 3 if is_async else 2, cfg)
    # ---- builder side ----
    n_set = 0
    for lf in prog.fns.values():
        o = lf.outer
        if o.impl_self == "put::WriteOpts" and o.name in SETTERS and not o.impl_trait:
            n_set += 1
            check_setter(cfg, w, rep, lf)
    rep.floor("writeopts_setters", n_set, 6, cfg)
    # ... and nobody else writes them: every program-wide source of WriteOpts.time / metadata / raw_metadata is the field's
    # own setter, a constant None (constructors, Default, tombstones) or a copy of the same field of another WriteOpts —
    # so "when not supplied" is decided at the insert (commit time), not earlier, and nothing substitutes the caller's value.
    # (sri and size may additionally be filled in by a commit on the declared-None edge: checked above.)
    n_src = 0
    for fld in ("time", "metadata", "raw_metadata"):
        for (b_, blk_i, i_, op) in prog.field_sources("put::WriteOpts", fld):
            n_src += 1
            owner_lf = prog.owner_fn(b_)
            o_ = owner_lf.outer
            if o_.impl_self == "put::WriteOpts" and o_.name in SETTERS and SETTERS[o_.name] == fld:
                continue
            tm = w.sym.of_operand(b_, op) if op is not None else ("unknown", "call result")
            alts = list(tm[1]) if tm[0] == "alt" else [tm]
            ok_ = all((a[0] == "agg" and a[1].endswith("Option") and a[2] == "None") or
                      (a[0] == "field" and a[1] == "put::WriteOpts" and a[2] == fld and not a[3]) or
                      (a[0] == "call" and a[1].endswith("::default")) for a in alts)
            if ok_:
                rep.ob(cfg, "builder-side", "%s.%s.source" % (fn_key(owner_lf), fld), "`%s` initialises WriteOpts.%s with None / a copy" % (short(owner_lf.path), fld))
            else:
                rep.violation("field-writer:%s:%s" % (fn_key(owner_lf), fld),
                              "`%s` writes WriteOpts.%s = %s outside the field's setter: the value recorded would not be what the writer attached "
                              "(or, for the default time, not the time of the commit)" % (short(owner_lf.path), fld, term_str(tm)[:80]),
                              loc=b_.loc(), config=cfg, rule="builder-side")
    rep.floor("writeopts_field_sources", n_src, 3, cfg)
    # ---- schema side ----
    check_schema(cfg, w, rep, rt)
    # ---- NOW ----
    now_fns = set()
    for p in R.index_inserts:
        lf = prog.fns[p]
        for b, blk, t in prog.call_sites(lf):
            if t.callee is not None and t.callee.path in ("std::option::Option::<T>::unwrap_or_else", "std::option::Option::<T>::unwrap_or") and len(t.args) > 1:
                g = _time_provider(w, w.sym.of_operand(b, t.args[1]))
                if g is not None:
                    now_fns.add(g.path)
    for nf in sorted(now_fns):
        lf = prog.fns[nf]
        t = w.sym.of_place(lf.body, 0, ())
        s = term_str(t)
        if t[0] == "call" and t[1] == "std::time::Duration::as_millis" and "std::time::SystemTime::duration_since(std::time::SystemTime::now()" in s \
                and "UNIX_EPOCH" in s:
            rep.ob(cfg, "default-time", fn_key(lf), "default timestamp = SystemTime::now().duration_since(UNIX_EPOCH).as_millis()")
        else:
            rep.violation("default-time:%s" % fn_key(lf), "the default timestamp is %s, not the wall-clock time in Unix milliseconds" % s[:120],
                          loc=lf.body.loc(), config=cfg, rule="default-time")
    if not now_fns:
        rep.violation("anchor:now", "ANCHOR-MISSING: no default-time function found in the index inserts", config=cfg, rule="anchor-floor")


def _time_provider(w, t):
    """The default-time provider passed to unwrap_or_else: a fn item, or a closure that just calls one. Returns the
    logical function that computes the default."""
    prog = w.prog
    if t[0] == "fn":
        return prog.fns.get(t[1])
    if t[0] == "agg":
        cb = prog.by_path.get(t[1])
        if cb is not None:
            rt = w.sym.of_place(cb, 0, ())
            if rt[0] == "call" and rt[1] in prog.fns and not rt[2]:
                return prog.fns[rt[1]]
            if rt[0] == "call" and rt[1] == "std::time::Duration::as_millis":
                return prog.owner_fn(cb)
    if t[0] == "call" and t[1] in prog.fns and not t[2]:
        return prog.fns[t[1]]
    return None


def _opt_field(t, name):
    """term denotes WriteOpts.<name> (possibly cloned)."""
    return t[0] == "field" and t[1] == "put::WriteOpts" and t[2] == name and not t[3]


def check_record_agg(cfg, w, rep, lf, rt):
    prog = w.prog
    key = fn_key(lf)
    aggs = []
    for b in prog.fn_bodies(lf):
        cf = prog.cfg(b)
        for blk in b.blocks:
            if blk.cleanup or blk.i not in cf.live():
                continue
            for s in blk.stmts:
                if s.k == "assign" and s.rv.k == "agg" and s.rv.j["agg"] == "adt" and s.rv.j["path"] == rt:
                    aggs.append((b, blk, s))
    if len(aggs) != 1:
        rep.violation("record-agg:%s" % key, "index insert `%s` builds %d records (expected 1)" % (short(lf.path), len(aggs)), loc=lf.body.loc(),
                      config=cfg, rule="write-side")
        return
    b, blk, s = aggs[0]
    f = {}
    for nm, op in zip(s.rv.j["fields"], s.rv.ops):
        f[nm] = w.sym.of_operand(b, op)
    if list(s.rv.j["fields"]) != RECORD_FIELDS:
        rep.violation("record-fields:%s" % key, "record type has fields %s (expected %s)" % (s.rv.j["fields"], RECORD_FIELDS), loc=span_str(s.span),
                      config=cfg, rule="write-side")
        return
    checks = []
    # key ← the insert's key parameter unchanged
    checks.append(("key", f["key"] == ("param", lf.path, 1, ()), "the `key` parameter unchanged"))
    # integrity ← opts.sri mapped through to_string
    t = f["integrity"]
    ok = t[0] == "call" and t[1] == "std::option::Option::<T>::map" and len(t[2]) == 2 and _opt_field(t[2][0], "sri")
    if ok:
        cl = t[2][1]
        cb = prog.by_path.get(cl[1]) if cl[0] == "agg" else None
        ct = w.sym.of_place(cb, 0, ()) if cb is not None else None
        ok = ct is not None and ct[0] == "call" and ct[1].endswith("ToString>::to_string") and ct[2] and ct[2][0][0] == "arg"
    checks.append(("integrity", ok, "opts.sri.map(to_string)"))
    # time ← opts.time, else NOW()
    t = f["time"]
    ok = t[0] == "call" and t[1] in ("std::option::Option::<T>::unwrap_or_else", "std::option::Option::<T>::unwrap_or") and \
        _opt_field(t[2][0], "time") and _time_provider(w, t[2][1]) is not None
    checks.append(("time", ok, "opts.time.unwrap_or_else(now)"))
    # size ← opts.size, else 0 (commits always pass Some: checked separately)
    t = f["size"]
    alts = set(t[1]) if t[0] == "alt" else {t}
    ok = alts == {("const", 0), ("field", "put::WriteOpts", "size", (("v", "Some"), ("f", "0")))}
    checks.append(("size", ok, "opts.size, else 0 (every commit passes Some, see commit-size)"))
    t = f["metadata"]
    alts = set(t[1]) if t[0] == "alt" else {t}
    ok = len(alts) == 2 and ("field", "put::WriteOpts", "metadata", (("v", "Some"), ("f", "0"))) in alts and \
        any(a[0] == "agg" and a[1] == "serde_json::Value" and a[2] == "Null" for a in alts)
    checks.append(("metadata", ok, "opts.metadata, else JSON null"))
    checks.append(("raw_metadata", _opt_field(f["raw_metadata"], "raw_metadata"), "opts.raw_metadata unchanged"))
    for nm, ok, how in checks:
        if ok:
            rep.ob(cfg, "write-side", "%s.%s" % (key, nm), "record.%s ← %s in `%s`" % (nm, how, short(lf.path)))
        else:
            rep.violation("write:%s.%s" % (key, nm), "`%s` stores record.%s = %s (expected %s)" % (short(lf.path), nm, term_str(f[nm])[:120], how),
                          loc=span_str(s.span), config=cfg, rule="write-side")
    # an insert cannot report success without having appended the record it was given
    appends = bucket_data_writes(w, lf)[0]
    body_ = lf.body
    cut = {e.blk for e in appends if e.body is body_}
    succ = [rd for rd in ret_defs(prog, body_) if rd.cls in ("success", "unknown", "delegated")]
    reach = prog.cfg(body_).reachable(0, cut_nodes=cut)
    badr = [rd for rd in succ if rd.blk in reach]
    if badr or not cut:
        rep.violation("write-skipped:%s" % key,
                      "`%s` can return success without appending the record (return at %s bypasses the bucket write): what the caller attached "
                      "to this commit — raw metadata, the commit's timestamp — would not be what lookups return" % (
                          short(lf.path), blk_loc(body_, badr[0].blk) if badr else "?"),
                      loc=blk_loc(body_, badr[0].blk) if badr else body_.loc(), config=cfg, rule="write-side")
    else:
        rep.ob(cfg, "write-side", key + ".always-appends", "every success return of `%s` passes the record append" % short(lf.path))
    # what is serialised is that record, and the same string is checksummed and written (C04 b covers the template)
    for bb, bblk, t in prog.call_sites(lf):
        if t.callee is not None and t.callee.path == "serde_json::to_string":
            src = prog.resolve_op(bb, t.args[0], IDENT, bblk.i)
            if src and all(o.kind == "agg" and o.blk == blk.i and o.body is b for o in src):
                rep.ob(cfg, "write-side", key + ".serialised", "the record aggregate is what serde_json::to_string serialises")
            else:
                rep.violation("write-serialised:%s" % key, "`%s` serialises something other than the record it built" % short(lf.path),
                              loc=span_str(t.span), config=cfg, rule="write-side")


def check_commit_size(cfg, w, rep, lf):
    """At the INDEX_INSERT call of a commit, WriteOpts.size is definitely Some: the call is reachable only through the
    Some edge of a switch on it or through an assignment `opts.size = Some(<byte counter>)`."""
    prog = w.prog
    body = lf.body
    key = fn_key(lf)
    cf = prog.cfg(body)
    own = lf.outer.impl_self
    counters = {f for (_, f, t) in w.adt_fields(own) if t == "usize"}
    gates = []
    for b in body.blocks:
        if b.cleanup or b.i not in cf.live():
            continue
        t = b.term
        if t.k == "switch" and t.discr.place is not None:
            for o in prog.resolve_pl(body, t.discr.place, IDENT):
                if o.kind == "discr":
                    pl = o.info.place
                    src = prog.resolve_lifted(body, pl.local, norm_path(pl), IDENT, at=o.blk)
                    if src and all(x.kind == "field" and x.info == ("put::WriteOpts", "size") and not x.path for x in src):
                        gates.append(Gate(body, (b.i, switch_target(t, VIDX["Some"])), "declared size is Some", b.i))
        for s in b.stmts:
            if s.k == "assign":
                np_ = norm_path(s.place)
                if np_ and np_[-1][:2] == ("f", "size") and len(np_[-1]) == 3 and np_[-1][2] == "put::WriteOpts":
                    tm = w.sym.of_operand(body, s.rv.ops[0]) if s.rv.k == "use" else None
                    good = False
                    if tm and tm[0] == "agg" and tm[2] == "Some":
                        v = dict(tm[3]).get("0")
                        good = v is not None and v[0] == "field" and v[1] == own and v[2] in counters
                    if good:
                        for sx in cf.succ[b.i]:
                            gates.append(Gate(body, (b.i, sx), "size := Some(byte counter)", b.i))
                    else:
                        rep.violation("commit-size-src:%s" % key, "commit `%s` fills in the size from %s instead of its byte counter" % (
                            short(lf.path), term_str(tm)[:80] if tm else "?"), loc=span_str(s.span), config=cfg, rule="commit-size")
    ins = [blk.i for b, blk, t in insert_calls(w, lf) if b is body]
    bad = unreachable_without(prog, body, gates, ins)
    if bad or not gates:
        rep.violation("commit-size:%s" % key,
                      "commit `%s` can index an entry whose size was neither declared nor set to the number of bytes written: the index would record size 0" % short(lf.path),
                      loc=blk_loc(body, ins[0]) if ins else body.loc(), config=cfg, rule="commit-size",
                      witness=witness_str(body, bad[0][1]) if bad else None)
    else:
        rep.ob(cfg, "commit-size", key, "at the insert call of `%s` the size is Some: declared, or set to the byte counter" % short(lf.path))


def _is_rec_field(w, tm, rt, nm, payload=False):
    """`tm` is field `nm` of a validated record: the field abstraction, or a record taken out of the bucket reader's stream
    (`for r in records.into_iter().rev()` → next() → Some.0 → .nm) with the field as the last step of its access path."""
    if tm[0] == "field" and tm[1] == rt and tm[2] == nm and (payload or not tm[3]):
        return True
    pth = [e for e in tm[3] if not (payload and e[0] in ("v",) or (payload and e == ("f", "0")))] if tm[0] == "call" else []
    if pth and pth[-1][0] == "f" and pth[-1][1] == nm and (len(pth[-1]) < 3 or pth[-1][2] == rt):
        return any(st[0] == "call" and st[1] in w.roles.bucket_readers for st in walk(tm))
    return False


def check_metadata_agg(cfg, w, rep, b, blk, s, rt):
    prog = w.prog
    lf = prog.owner_fn(b)
    key = "%s@%s" % (fn_key(lf), b.path.rsplit("::", 1)[-1])
    names = s.rv.j["fields"]
    ok_all = True
    for nm, op in zip(names, s.rv.ops):
        tm = w.sym.of_operand(b, op)
        if nm == "integrity":
            good = tm[0] == "call" and tm[1] == "core::str::<impl str>::parse" and tm[2] and _is_rec_field(w, tm[2][0], rt, "integrity", payload=True)
            # allow `.ok()?` wrapper: parse(...).ok() then Try
            if not good:
                for st in walk(tm):
                    if st[0] == "call" and st[1] == "core::str::<impl str>::parse" and st[2] and _is_rec_field(w, st[2][0], rt, "integrity", payload=True):
                        good = True
        else:
            good = _is_rec_field(w, tm, rt, nm)
        if good:
            rep.ob(cfg, "read-side", "%s.%s" % (key, nm), "Metadata.%s ← record.%s" % (nm, nm))
        else:
            ok_all = False
            rep.violation("read:%s.%s" % (key, nm), "`%s` fills Metadata.%s from %s (expected the same-named field of the validated record)" % (
                short(lf.path), nm, term_str(tm)[:100]), loc=span_str(s.span), config=cfg, rule="read-side")


def check_setter(cfg, w, rep, lf):
    prog = w.prog
    key = fn_key(lf)
    name = lf.outer.name
    want = SETTERS[name]
    body = lf.body
    assigns = []
    for blk in body.blocks:
        if blk.cleanup:
            continue
        for s in blk.stmts:
            if s.k == "assign" and s.place.local == 1 and s.place.proj:
                np_ = norm_path(s.place)
                assigns.append((np_[-1][1], s))
    good = len(assigns) == 1 and assigns[0][0] == want
    if good:
        s = assigns[0][1]
        tm = w.sym.of_operand(body, s.rv.ops[0]) if s.rv.k == "use" else None
        good = tm is not None and tm[0] == "agg" and tm[2] == "Some" and dict(tm[3]).get("0") == ("param", lf.path, 1, ())
    ret = w.sym.of_place(body, 0, ())
    good = good and ret == ("param", lf.path, 0, ())
    if good:
        rep.ob(cfg, "builder-side", key, "WriteOpts::%s stores Some(argument) in `%s` and returns self" % (name, want))
    else:
        rep.violation("setter:%s" % key, "WriteOpts::%s does not store exactly its argument in field `%s` (assigns %s)" % (
            name, want, [a for a, _ in assigns]), loc=body.loc(), config=cfg, rule="builder-side")


def check_schema(cfg, w, rep, rt):
    prog = w.prog
    ser = None
    vis = None
    for p, lf in prog.fns.items():
        if rt in p and p.endswith("::serialize") and "Serialize for" in p:
            ser = lf
        if rt in p and "__FieldVisitor" in p and p.endswith("::visit_str"):
            vis = lf
    if ser is None or vis is None:
        rep.violation("schema-anchor", "ANCHOR-MISSING: derived Serialize/Deserialize impls of %s not found" % rt, config=cfg, rule="anchor-floor")
        return
    names = []
    ok_map = True
    for blk, t in ser.body.calls():
        if t.callee is not None and t.callee.path.endswith("SerializeStruct::serialize_field"):
            nm = t.args[1].const_str
            names.append(nm)
            src = w.sym.of_operand(ser.body, t.args[2])
            if not (src[0] == "field" and src[1] == rt and src[2] == nm):
                ok_map = False
                rep.violation("schema-map:%s" % nm, "JSON field %r is serialised from %s" % (nm, term_str(src)[:60]), loc=span_str(t.span), config=cfg, rule="schema-side")
    de = []
    for blk, t in vis.body.calls():
        if t.callee is not None and t.callee.path == "std::cmp::PartialEq::eq":
            for a in t.args:
                if a.is_const and a.const_str is not None:
                    de.append(a.const_str)
    if names == RECORD_FIELDS and de == RECORD_FIELDS and ok_map:
        rep.ob(cfg, "schema-side", rt, "derived Serialize emits, and Deserialize accepts, the JSON fields %s in that order, each from its own struct field" % names)
    else:
        rep.violation("schema:%s" % rt, "JSON schema of the index record changed: serialises %s, deserialises %s (expected %s)" % (names, de, RECORD_FIELDS),
                      loc=ser.body.loc(), config=cfg, rule="schema-side")
    # to_string / from_str instantiated with the record type
    n = 0
    for b in prog.bodies:
        for blk, t in b.calls():
            if t.callee is not None and t.callee.path in ("serde_json::to_string", "serde_json::from_str"):
                n += 1
                if not any(rt in a for a in t.callee.args):
                    rep.violation("schema-type:%s" % fn_key(prog.owner_fn(b)), "`%s` (de)serialises %s instead of the record type" % (
                        short(b.path), t.callee.args), loc=span_str(t.span), config=cfg, rule="schema-side")
    rep.floor("serde_json_sites", n, 2, cfg)


def check_commit_keeps_declared(cfg, w, rep, lf):
    """A commit may fill in `opts.sri` / `opts.size` only when the writer declared none: every assignment to those fields in
    the commit body is reachable only through the None edge of a switch on that same field — what the caller attached is
    what gets indexed (e.g. a multi-hash integrity is not replaced by the single computed hash)."""
    prog = w.prog
    body = lf.body
    key = fn_key(lf)
    cf = prog.cfg(body)
    for fld in ("sri", "size"):
        none_gates = []
        assigns = []
        for b in body.blocks:
            if b.cleanup or b.i not in cf.live():
                continue
            t = b.term
            if t.k == "switch" and t.discr.place is not None:
                for o in prog.resolve_pl(body, t.discr.place, IDENT):
                    if o.kind == "discr":
                        pl = o.info.place
                        src = prog.resolve_lifted(body, pl.local, norm_path(pl), IDENT, at=o.blk)
                        if src and all(x.kind == "field" and x.info == ("put::WriteOpts", fld) and not x.path for x in src):
                            none_gates.append(Gate(body, (b.i, switch_target(t, VIDX["None"])), "declared %s is None" % fld, b.i))
            for st in b.stmts:
                if st.k == "assign":
                    np_ = norm_path(st.place)
                    if np_ and np_[-1][:2] == ("f", fld) and len(np_[-1]) == 3 and np_[-1][2] == "put::WriteOpts":
                        assigns.append((b.i, st))
                    # a mutable borrow of the field (Option::take / replace / insert ... through &mut) can change it as well
                    if st.rv.k == "ref" and st.rv.j.get("mut") and st.rv.place is not None:
                        rp = norm_path(st.rv.place)
                        if rp and rp[-1][:2] == ("f", fld) and len(rp[-1]) == 3 and rp[-1][2] == "put::WriteOpts":
                            assigns.append((b.i, st))
        if not assigns:
            continue
        bad = unreachable_without(prog, body, none_gates, [b for b, _ in assigns]) if none_gates else [(assigns[0][0], None)]
        if bad:
            blk = bad[0][0]
            st = [x for b_, x in assigns if b_ == blk][0]
            rep.violation("commit-keeps-%s:%s" % (fld, key),
                          "commit `%s` can overwrite a declared `%s` (assignment at %s is reachable when the writer supplied one): the entry would "
                          "not carry what the writer attached" % (short(lf.path), fld, span_str(st.span)), loc=span_str(st.span), config=cfg,
                          rule="commit-keeps-declared", witness=witness_str(body, bad[0][1]) if bad[0][1] else None)
        else:
            rep.ob(cfg, "commit-keeps-declared", "%s.%s" % (key, fld), "`%s` fills in %s only when none was declared" % (short(lf.path), fld))

