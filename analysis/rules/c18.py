"""C18 — extraction delivers exact bytes; failed checks leave nothing behind."""
import re

from .common import *
from .c01 import reader_types, find_fns, content_read_sinks, _only_fails
from ..world import strip_refs
from .fsrules import FsWorld
from ..provenance import leaf, shape

PROP = "C18"
MATERIALISE = ("Copy", "Reflink", "HardLink")


def run(ctx, rep):
    for cfg, w in ctx.worlds():
        check_config(cfg, w, rep)
    return rep


def _dest_write(w, e):
    """An effect that creates or fills a file at an entry point's explicit destination parameter by hand (open for writing,
    data writes on such a handle)."""
    if e.kind not in ("Open", "WriteData", "WriteFile") or not e.mutating:
        return False
    fw = FsWorld.get(w)
    for role, cs in fw.expanded(e).items():
        for x in cs:
            if shape(x) in ("Entry", "Handle(Entry)") and fw.entry_role(leaf(x)) == "other":
                return True
    return False


def materialising(w, lf):
    return [e for e in w.reach_effects(lf) if e.kind in MATERIALISE or _dest_write(w, e)]


def check_config(cfg, w, rep):
    prog = w.prog
    is_async = not cfg.startswith("sync")
    base, wrap = reader_types(w)
    rtypes = base | wrap
    V = Verified(w)

    # ---- (a0) what "verify" means for an extraction: the reader that is checked was opened on the content file of the call's own
    #      (cache, integrity), is read to the end of that file (no `take(n)` or other adaptor between the file and the loop — a
    #      grown file would be copied whole after only its recorded prefix was hashed), and the file then materialised is that
    #      same content path (the R2 / R6 clauses of C01, re-checked here) ----
    from ..framework import Report as _Report
    from . import c01 as _c01
    sub_ = _Report("C01")
    _c01.check_config(cfg, w, sub_)
    for (c_, rule, k, desc, ok) in sub_.obligations:
        if ok and rule in ("R2-reader-provenance", "R2-verify-loop", "R6-same-file"):
            rep.ob(cfg, "a0/" + rule, k, desc)
    for k, v in sub_.violations.items():
        if v.rule in ("R2-reader-provenance", "R2-verify-loop", "R6-same-file"):
            rep.violation("a0:%s" % k, "an extraction could deliver bytes that were not verified — " + v.msg, loc=v.loc, config=cfg, rule="a0/" + v.rule,
                          witness=v.witness)

    # ---- (a) verify, then materialise (or clean up on failure) ----
    n_vm = 0
    for lf in prog.fns.values():
        chk = [(b, blk, t) for b, blk, t, g in prog.local_calls(lf)
               if g.outer.name == "check" and strip_refs(g.outer.impl_self or "") in rtypes]
        if strip_refs(lf.outer.impl_self or "") in rtypes or lf.outer.reachable:
            continue
        body = lf.body
        if not chk:
            # the verification may sit in a private helper proved VERIFIED (gate on its result) instead of a direct check()
            if not (try_gates(prog, body, V.is_verifying_origin) + match_gates(prog, body, V.is_verifying_origin, "Ok")):
                continue
        mats = []   # blocks where the destination is created / written (own effect or local callee reaching one)
        pl = w.path_like_params(lf)
        dest_i = pl[-1] if len(pl) >= 2 else None

        def touches_dest(e, owner):
            if e.kind in MATERIALISE:
                return True
            if not e.mutating:
                return False
            for role, c in e.classes.items():
                cur = c
                while cur[0] in ("Handle", "Parent"):
                    cur = cur[1]
                if cur[0] == "Param" and cur[1] == owner.path and dest_i is not None and cur[2] == dest_i and e.kind != "RemoveFile":
                    return True
            return False
        for e in w.own_effects(lf):
            if e.body is body and touches_dest(e, lf):
                mats.append((e.blk, e.kind, e.loc()))
        for b, blk, t, g in prog.local_calls(lf):
            if b is body and any(True for _ in materialising(w, g)):
                mats.append((blk.i, "call %s" % short(g.path), span_str(t.span)))
        if not mats:
            continue
        n_vm += 1
        key = fn_key(lf)
        gates = try_gates(prog, body, V.is_verifying_origin) + match_gates(prog, body, V.is_verifying_origin, "Ok")
        bad = unreachable_without(prog, body, gates, [m[0] for m in mats])
        if not bad:
            rep.ob(cfg, "a-verify-then-materialise", key,
                   "`%s` materialises (%s) only after the verification gate %s" % (short(lf.path), mats[0][1], gates[0].what if gates else "?"))
            continue
        # alternative: every failing exit of the verification removes the destination
        ok_cleanup = cleanup_on_failure(w, lf, gates)
        if ok_cleanup:
            rep.ob(cfg, "a-cleanup-on-failure", key, "`%s` materialises first but removes the destination on every verification failure" % short(lf.path))
        else:
            for blk, wit in bad:
                m = [x for x in mats if x[0] == blk][0]
                rep.violation("a-order:%s" % key,
                              "checked extraction `%s` creates the destination (%s at %s) before the content is verified and does not remove it "
                              "when verification fails: a failed check leaves the unverified file behind" % (short(lf.path), m[1], m[2]),
                              loc=m[2], config=cfg, rule="a-verify-then-materialise", witness=witness_str(body, wit))
    rep.floor("verify_and_materialise_fns", n_vm, 6 if is_async else 3, cfg)

    # ---- (d) a destination written by hand is replaced, not overlaid: opening it for writing truncates (or insists on a
    #      new file) — otherwise the tail of a longer pre-existing file survives and the destination is not the stored data ----
    for e in w.inv.effects:
        if e.kind == "Open" and _dest_write(w, e):
            lf_ = prog.owner_fn(e.body)
            fl = {k: v for k, v in e.flags.items() if v}
            if fl.get("truncate") is True or fl.get("create_new") is True:
                rep.ob(cfg, "d-dest-replaced", fn_key(lf_), "`%s` opens the destination with %s" % (short(lf_.path), sorted(fl)))
            else:
                rep.violation("d-dest:%s" % fn_key(lf_),
                              "`%s` opens the extraction destination for writing with %s — neither truncate nor create_new: when the destination "
                              "already exists and is longer than the data, its old tail survives and the file is not the stored bytes" % (
                                  short(lf_.path), sorted(fl)), loc=e.loc(), config=cfg, rule="d-dest-replaced")

    # ---- (e) success means the primitive succeeded: in every function that calls a copy / reflink / hard-link primitive, a
    #      success return is reachable only through the Ok arm of that call (or is that call's result handed on): no error kind
    #      — "already exists", say — is turned into Ok, because then the destination holds whatever was there before ----
    n_prim = 0
    for e in w.inv.effects:
        if e.kind not in MATERIALISE:
            continue
        lf_ = prog.owner_fn(e.body)
        body_ = e.body
        if body_ is not lf_.body:
            continue
        n_prim += 1
        t_ = e.term

        def is_prim(o, t_=t_):
            return o.kind == "call" and o.term is t_ and o.path in AWAIT_PATHS
        gates_ = try_gates(prog, body_, is_prim) + match_gates(prog, body_, is_prim, "Ok")
        succ_ = []
        for rd in ret_defs(prog, body_):
            if rd.cls == "success" or rd.cls == "unknown":
                succ_.append(rd)
            elif rd.cls == "delegated" and not (rd.origin is not None and rd.origin.kind == "call" and (
                    rd.origin.term is t_ or any(o.kind == "call" and o.term is t_ for o in prog.resolve_op(rd.origin.body, rd.origin.term.args[0], OKFLOW, rd.origin.blk)) if rd.origin.term.args else False)):
                succ_.append(rd)
        cf_ = prog.cfg(body_)
        start_ = t_.target if t_.target is not None else e.blk
        reach_ = cf_.reachable(start_, cut_edges={g.edge for g in gates_})
        bad_ = [rd for rd in succ_ if rd.blk in reach_]
        key_ = "%s:%s" % (fn_key(lf_), e.kind)
        if bad_:
            rep.violation("e-swallowed:%s" % key_,
                          "`%s` can report success although its %s primitive failed (return at %s is reachable off the primitive's Ok arm): the "
                          "destination would not hold the stored bytes" % (short(lf_.path), e.kind, blk_loc(body_, bad_[0].blk)),
                          loc=blk_loc(body_, bad_[0].blk), config=cfg, rule="e-primitive-result")
        else:
            rep.ob(cfg, "e-primitive-result", key_, "success of `%s` requires its %s primitive to have returned Ok" % (short(lf_.path), e.kind))
    rep.floor("materialising_primitives", n_prim, 1, cfg)

    # ---- (b) returned count ----
    n_cnt = 0
    for lf in prog.fns.values():
        so = lf.outer.j.get("sig_output", "")
        if "Result<u64," not in so or not materialising(w, lf):
            continue
        if lf.outer.reachable and lf.body is not lf.outer and False:
            pass
        body = lf.body
        key = fn_key(lf)
        for rd in ret_defs(prog, body):
            if rd.cls == "delegated":
                n_cnt += 1
                o = rd.origin
                g = prog.callee_fn(o.term) if o.callee is not None else None
                if g is not None or (o.callee is not None and norm_callee(o.callee.path) in ("std::fs::copy", "std::io::copy")) or \
                        (o.callee is not None and o.callee.path == "errors::IoErrorExt::with_context"):
                    rep.ob(cfg, "b-count-delegated", "%s<-%s" % (key, short(g.path) if g else norm_callee(o.callee.path)),
                           "count returned by `%s` is the callee's" % short(lf.path))
                else:
                    rep.violation("b-count:%s" % key, "`%s` returns a count from `%s`" % (short(lf.path), rd.detail),
                                  loc=blk_loc(body, rd.blk), config=cfg, rule="b-count")
            elif rd.cls == "success":
                n_cnt += 1
                check_count(cfg, w, rep, lf, rd)
    rep.floor("count_returns", n_cnt, 10 if is_async else 5, cfg)

    # ---- (c) keyed wrappers: miss => EntryNotFound(cache, key), no effect; hit => `to` passed unchanged ----
    n_k = 0
    for lf in prog.fns.values():
        finds = [(b, blk, t) for b, blk, t, g in prog.local_calls(lf) if g.path in find_fns(w)]
        if not finds or lf.path.startswith("index::") or not materialising(w, lf):
            continue
        n_k += 1
        check_keyed_extract(cfg, w, rep, lf, finds)
    rep.floor("keyed_extractors", n_k, 10 if is_async else 6, cfg)


def cleanup_on_failure(w, lf, gates):
    """Every failing edge of every verification gate reaches a RemoveFile of the destination before returning."""
    prog = w.prog
    body = lf.body
    cf = prog.cfg(body)
    rm_blocks = set()
    for e in w.own_effects(lf):
        if e.kind == "RemoveFile" and e.body is body:
            c = e.classes.get("path")
            if c and c[0] == "Param":
                rm_blocks.add(e.blk)
    if not rm_blocks or not gates:
        return False
    for g in gates:
        for (u, v) in g.other_edges:
            # all returns reachable from v must be unreachable once the cleanup blocks are cut
            reach = cf.reachable(v, cut_nodes=rm_blocks)
            if any(body.blocks[b].term.k == "return" for b in reach):
                return False
    return True


def _count_terms(w, g, blk_at, depth=0):
    """(ok, why, seen_add) for the Ok payload of `g` at return block `blk_at`: 0 + Σ amounts returned by verification reads;
    a payload that is the Ok payload of a private helper is judged in that helper (one level)."""
    prog = w.prog
    body = g.body
    payload = prog.resolve_lifted(body, 0, (("v", "Ok"), ("f", "0")), OKFLOW, at=blk_at)
    ok = True
    why = []
    seen_add = False
    for o in payload:
        if o.kind == "cast":
            continue
        if o.kind == "const":
            if o.info.const_val != 0:
                ok = False
                why.append("constant %r" % (o.info.const_val,))
            continue
        if o.kind == "binop" and o.info.j["op"] in ("AddWithOverflow", "Add") and o.path in ((), (("f", "0"),)):
            seen_add = True
            ops = o.info.ops
            srcs = [prog.resolve_op(body, x, IDENT, o.blk) for x in ops]
            # one operand is the accumulator itself (same leaves as payload), the other a read amount
            amt_ok = False
            for s_ in srcs:
                if s_ and all(x.kind == "call" and x.callee is not None and
                              re.search(r"(std::io::Read::read|AsyncReadExt::read)$", x.callee.path) and
                              x.path[-2:] == (("v", "Ok"), ("f", "0")) for x in s_):
                    amt_ok = True
            if not amt_ok:
                ok = False
                why.append("added operand is not the amount returned by the verification read")
            continue
        if o.kind == "call" and depth == 0 and tuple(o.path)[-2:] == (("v", "Ok"), ("f", "0")):
            h = prog.callee_fn(o.term)
            if h is not None and not h.outer.reachable:
                sub_ok, sub_why, sub_add = True, [], False
                rds = [r for r in ret_defs(prog, h.body) if r.cls == "success"]
                for r in rds:
                    a, b_, c = _count_terms(w, h, r.blk, depth + 1)
                    sub_ok &= a
                    sub_why += b_
                    sub_add |= c
                if rds and sub_ok and sub_add:
                    seen_add = True
                    continue
                ok = False
                why.append("helper `%s`: %s" % (short(h.path), "; ".join(sub_why) or "no accumulation found"))
                continue
        ok = False
        why.append(repr(o))
    return ok, why, seen_add


def check_count(cfg, w, rep, lf, rd):
    """`Ok(size as u64)`: size accumulates exactly the amounts returned by the verification reads."""
    key = fn_key(lf)
    ok, why, seen_add = _count_terms(w, lf, rd.blk)
    if ok and seen_add:
        rep.ob(cfg, "b-count-sum", key, "`%s` returns 0 + Σ amounts returned by its verification reads" % short(lf.path))
    else:
        rep.violation("b-count:%s" % key,
                      "`%s` returns a byte count that is not the sum of the amounts its verification reads returned (%s)" % (
                          short(lf.path), "; ".join(why) or "no accumulation found"), loc=blk_loc(lf.body, rd.blk), config=cfg, rule="b-count")


def _check_ok_or_form(cfg, w, rep, lf, t, is_find):
    """`index::find(cache, key)?.ok_or_else(|| Error::EntryNotFound(cache, key))?`: the miss is the Break arm of the `?` on the
    ok_or(_else) result; it must reach nothing but the return, and the error must be EntryNotFound of the looked-up (cache, key)."""
    prog = w.prog
    body = lf.body
    key = fn_key(lf)
    cf = prog.cfg(body)
    okors = [(blk, tt) for blk, tt in body.calls() if tt.callee is not None and re.search(r"Option::<T>::(ok_or_else|ok_or)$", tt.callee.path)
             and tt.args and all(is_find(o) for o in prog.resolve_op(body, tt.args[0], IDENT, blk.i)) and prog.resolve_op(body, tt.args[0], IDENT, blk.i)]
    if len(okors) != 1:
        return False
    oblk, ot = okors[0]

    def is_okor(o):
        return o.kind == "call" and o.term is ot and not o.path
    tg = try_gates(prog, body, is_okor, level=IDENT)
    if not tg:
        return False
    # the error value
    err_ok = False
    for o in prog.resolve_op(body, ot.args[1], IDENT, oblk.i):
        eb, evar, eops = None, None, None
        if o.kind == "agg" and o.info.j.get("agg") == "closure":
            cb = prog.by_path.get(o.info.j["path"])
            if cb is not None:
                for bb in cb.blocks:
                    for st in bb.stmts:
                        if st.k == "assign" and st.rv.k == "agg" and st.rv.j.get("agg") == "adt" and st.rv.j.get("path") == "errors::Error":
                            eb, evar, eops = cb, st.rv.j["variant"], st.rv.ops
        elif o.kind == "agg" and o.info.j.get("path") == "errors::Error":
            eb, evar, eops = o.body, o.info.j["variant"], o.info.ops
        if evar == "EntryNotFound" and eops and len(eops) >= 2:
            a0 = param_indices(prog, prog.resolve_lifted(eb, eops[0].place.local, norm_path(eops[0].place), IDENT) if eops[0].place is not None else set(), lf)
            a1 = param_indices(prog, prog.resolve_lifted(eb, eops[1].place.local, norm_path(eops[1].place), IDENT) if eops[1].place is not None else set(), lf)
            c_i = param_indices(prog, prog.resolve_op(body, t.args[0], IDENT), lf)
            k_i = param_indices(prog, prog.resolve_op(body, t.args[1], IDENT), lf)
            err_ok = bool(a0) and bool(a1) and a0 == c_i and a1 == k_i
    for g in tg:
        for (u, miss) in g.other_edges:
            reach = cf.reachable(miss)
            leaks = [e.kind for e in w.own_effects(lf) if e.body is body and e.blk in reach]
            leaks += ["call " + short(gg.path) for bb, bblk, tt, gg in prog.local_calls(lf) if bb is body and bblk.i in reach and w.reach_effects(gg)]
            rds = [rd for rd in ret_defs(prog, body) if rd.blk in reach]
            if leaks:
                rep.violation("c-miss-effect:%s" % key, "`%s` touches the filesystem (%s) when the key is not found" % (short(lf.path), ", ".join(leaks)),
                              loc=blk_loc(body, miss), config=cfg, rule="c-miss")
            elif not err_ok or not rds or any(rd.cls != "failure" for rd in rds):
                rep.violation("c-miss-error:%s" % key, "`%s` does not return Error::EntryNotFound(cache, key) of its own lookup on a missing key" % short(lf.path),
                              loc=blk_loc(body, miss), config=cfg, rule="c-miss")
            else:
                rep.ob(cfg, "c-miss", key, "miss arm of `%s` (`ok_or_else(..)?`) returns Err(EntryNotFound(cache, key)) and reaches no effect" % short(lf.path))
    return True


def check_keyed_extract(cfg, w, rep, lf, finds):
    prog = w.prog
    body = lf.body
    key = fn_key(lf)
    cf = prog.cfg(body)
    pl = w.path_like_params(lf)
    for b, blk, t in finds:
        if b is not body:
            continue
        # switch on the Option returned by the lookup
        def is_find(o):
            return o.kind == "call" and o.term is t and o.path in ((("v", "Ok"), ("f", "0")), (("await",), ("v", "Ok"), ("f", "0")))
        mg = match_gates(prog, body, is_find, "Some")
        if not mg and _check_ok_or_form(cfg, w, rep, lf, t, is_find):
            continue
        if not mg:
            rep.violation("c-nomatch:%s" % key, "`%s` does not branch on whether the key was found" % short(lf.path),
                          loc=span_str(t.span), config=cfg, rule="c-miss")
            continue
        for g in mg:
            for (u, none_tgt) in g.other_edges:
                reach = cf.reachable(none_tgt)
                # effects / local calls with effects on the miss arm
                leaks = []
                for e in w.own_effects(lf):
                    if e.body is body and e.blk in reach:
                        leaks.append(e.kind)
                for bb, bblk, tt, gg in prog.local_calls(lf):
                    if bb is body and bblk.i in reach and (w.reach_effects(gg)):
                        leaks.append("call " + short(gg.path))
                errs = []
                for bi in reach:
                    for s in body.blocks[bi].stmts:
                        if s.k == "assign" and s.rv.k == "agg" and s.rv.j["agg"] == "adt" and s.rv.j["path"] == "errors::Error":
                            errs.append((s.rv.j["variant"], s))
                rds = [rd for rd in ret_defs(prog, body) if rd.blk in reach]
                if leaks:
                    rep.violation("c-miss-effect:%s" % key, "`%s` touches the filesystem (%s) when the key is not found" % (short(lf.path), ", ".join(leaks)),
                                  loc=blk_loc(body, none_tgt), config=cfg, rule="c-miss")
                elif [v for v, _ in errs] != ["EntryNotFound"] or not rds or any(rd.cls != "failure" for rd in rds):
                    rep.violation("c-miss-error:%s" % key,
                                  "`%s` does not return Error::EntryNotFound on a missing key (builds %s; returns %s)" % (
                                      short(lf.path), [v for v, _ in errs], [rd.cls for rd in rds]), loc=blk_loc(body, none_tgt), config=cfg, rule="c-miss")
                else:
                    s = errs[0][1]
                    a0 = param_indices(prog, prog.resolve_op(body, s.rv.ops[0], IDENT), lf)
                    a1 = param_indices(prog, prog.resolve_op(body, s.rv.ops[1], IDENT), lf)
                    c_i = param_indices(prog, prog.resolve_op(body, t.args[0], IDENT), lf)
                    k_i = param_indices(prog, prog.resolve_op(body, t.args[1], IDENT), lf)
                    if a0 == c_i and a1 == k_i and a0 and a1:
                        rep.ob(cfg, "c-miss", key, "miss arm of `%s` returns Err(EntryNotFound(cache, key)) and reaches no effect" % short(lf.path))
                    else:
                        rep.violation("c-miss-args:%s" % key, "`%s` reports EntryNotFound for a different (cache, key) than it looked up" % short(lf.path),
                                      loc=span_str(s.span), config=cfg, rule="c-miss")
    # hit arm: destination parameter passed unchanged to the by-address extractor
    dest_i = pl[-1] if len(pl) >= 2 else None
    for bb, bblk, tt, gg in prog.local_calls(lf):
        if gg.path in find_fns(w) or not materialising(w, gg):
            continue
        gpl = w.path_like_params(gg)
        if len(gpl) < 2 or dest_i is None:
            rep.violation("c-dest:%s" % key, "cannot identify the destination parameter of `%s`/`%s`" % (short(lf.path), short(gg.path)),
                          loc=span_str(tt.span), config=cfg, rule="c-dest")
            continue
        got = param_indices(prog, prog.resolve_op(bb, tt.args[gpl[-1]], IDENT), lf)
        if got == {dest_i}:
            rep.ob(cfg, "c-dest", "%s->%s" % (key, short(gg.path)), "`%s` passes its destination unchanged to `%s`" % (short(lf.path), short(gg.path)))
        else:
            rep.violation("c-dest:%s" % key, "`%s` extracts to %s instead of the caller's destination" % (short(lf.path), got),
                          loc=span_str(tt.span), config=cfg, rule="c-dest")
