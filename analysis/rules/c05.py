"""C05 — a lookup returns the most recent committed entry, or absent after removal (append-only + decision table)."""
import re

from .common import *
from .c01 import find_fns
from ..rows import enumerate_rows, rows_as_set, TooComplex
from ..world import strip_refs

PROP = "C05"

# the oracle decision table of the lookup fold (DESIGN C05 b)
ORACLE = {
    ((("key_eq", False),), "keep-acc"),
    ((("integrity", "None"), ("key_eq", True)), "clear"),
    ((("integrity", "Some"), ("key_eq", True), ("parse", "Ok")), "replace-from-entry"),
    ((("integrity", "Some"), ("key_eq", True), ("parse", "Err")), "keep-acc"),
}
FULL_TRAVERSAL = ("std::iter::Iterator::fold", "std::iter::Iterator::for_each", "std::iter::Iterator::last")
EARLY = ("find", "find_map", "take_while", "map_while", "next", "any", "all", "position", "skip_while", "take", "nth", "try_fold")


def run(ctx, rep):
    for cfg, w in ctx.worlds():
        check_config(cfg, w, rep)
    return rep


def check_config(cfg, w, rep):
    prog = w.prog
    is_async = not cfg.startswith("sync")
    R = w.roles
    # ---- (a) inserts only ever append ----
    n_open = 0
    for p in R.index_inserts:
        lf = prog.fns[p]
        from .fsrules import FsWorld
        from ..provenance import shape as _shape
        fw_ = FsWorld.get(w)
        for e in w.reach_effects(lf):
            on_bucket = e.classes.get("path", ("?",))[0] == "Bucket" or any(_shape(x) == "Bucket(Entry)" for x in fw_.expanded(e).get("path", ()))
            if e.kind == "Open" and on_bucket:
                n_open += 1
                fl = {k: v for k, v in e.flags.items() if v}
                if fl.get("append") is True and fl.get("create") is True and not fl.get("write") and not fl.get("truncate") \
                        and not fl.get("create_new") and "?" not in fl:
                    rep.ob(cfg, "a-append-only", fn_key(lf), "`%s` opens the bucket with append+create only" % short(p))
                else:
                    rep.violation("a-flags:%s" % fn_key(lf), "`%s` opens the bucket with %s: records of earlier writes can be overwritten or dropped" % (short(p), fl),
                                  loc=e.loc(), config=cfg, rule="a-append-only")
    rep.floor("insert_open_sites", n_open, 2 if is_async else 1, cfg)
    # every successful insert appends: the most recent write is always the last record of its key
    for p in R.index_inserts:
        lf = prog.fns[p]
        body_ = lf.body
        cut = {e.blk for e in bucket_data_writes(w, lf)[0] if e.body is body_}
        succ = [rd for rd in ret_defs(prog, body_) if rd.cls in ("success", "unknown", "delegated")]
        reach = prog.cfg(body_).reachable(0, cut_nodes=cut)
        badr = [rd for rd in succ if rd.blk in reach]
        if badr or not cut:
            rep.violation("a-skipped-append:%s" % fn_key(lf), "`%s` can report success without appending a record: the most recent write would not be the last record of its key" % short(p),
                          loc=blk_loc(body_, badr[0].blk) if badr else body_.loc(), config=cfg, rule="a-append-only")
        else:
            rep.ob(cfg, "a-append-only", fn_key(lf) + ".always", "`%s` appends a record on every success path" % short(p))

    # ---- (c) "absent after removal": a removal that reports success has made the key absent — key removals append the
    #      tombstone, a full removal removes the bucket file on every success path (the removal clauses of C09, re-checked) ----
    from ..framework import Report
    from . import c09
    sub = Report("C09")
    c09.check_removal_effects(cfg, w, sub)
    RM = ("lower-bound", "tombstone", "remove-fully-arms", "remove-fully-complete", "clear-all-children")
    for (c_, rule, k, desc, ok) in sub.obligations:
        if rule in RM and ok:
            rep.ob(cfg, "c/" + rule, k, desc)
    for k, v in sub.violations.items():
        if v.rule in RM:
            rep.violation("c:%s" % k, "a key could still be found after a successful removal — " + v.msg, loc=v.loc, config=cfg,
                          rule="c/" + v.rule, witness=v.witness)

    # ---- (a2) every successful keyed commit appends its record ----
    check_commit_always_inserts(cfg, w, rep, "a2")
    # (a3) ... and a commit that fails has indexed nothing (the insertion is the last step that can fail)
    check_no_failure_after_insert(cfg, w, rep, "a3")
    # (a4) ... and a write or removal that reports success has appended its *whole* record
    check_insert_writes_all_or_error(cfg, w, rep, "a4", "the operation would succeed while lookups still return the older entry (or still find a removed key)")

    # ---- (b0) the record stream the lookups fold over is every valid record of the bucket, in file order (the reader clauses
    #      of C06, re-checked: a reader that drops, reorders or stops early changes which record is "the most recent") ----
    from . import c06
    sub = Report("C06")
    for p_ in R.bucket_readers:
        c06.check_reader(cfg, w, sub, prog.fns[p_])
    for (c_, rule, k, desc, ok) in sub.obligations:
        if ok:
            rep.ob(cfg, "b0/" + rule, k, desc)
    for k, v in sub.violations.items():
        rep.violation("b0:%s" % k, "a lookup could miss or mis-order records — " + v.msg, loc=v.loc, config=cfg, rule="b0/" + (v.rule or ""), witness=v.witness)

    # ---- (b) decision table of every lookup ----
    finds = sorted(find_fns(w))
    rep.floor("lookup_fns", len(finds), 2 if is_async else 1, cfg)
    for p in finds:
        check_find(cfg, w, rep, prog.fns[p])


def _reader_stream_ok(w, lf, term):
    """`term` is (an into_iter of) the validated record stream of bucket_path(cache, key) of lookup `lf`, key unchanged."""
    from ..symval import walk
    R = w.roles
    reader_call = None
    for st in walk(term):
        if st[0] == "call" and st[1] in R.bucket_readers:
            reader_call = st
    if reader_call is not None and reader_call[2]:
        bp = reader_call[2][0]
        if bp[0] == "call" and bp[1] in R.bucket_path and bp[2] == (("param", lf.path, 0, ()), ("param", lf.path, 1, ())):
            return True
    return False


def _fold_consumers(prog, g):
    body = g.body
    consumers = [(b, blk, t) for b, blk, t in prog.call_sites(g) if t.callee is not None and b is body and
                 t.callee.path.startswith("std::iter::Iterator::") and t.callee.path.rsplit("::", 1)[-1] not in ("map", "rev", "filter", "filter_map", "into_iter", "collect", "enumerate")]
    folds = [(b, blk, t) for b, blk, t in consumers if t.callee.path in FULL_TRAVERSAL]
    early = [(b, blk, t) for b, blk, t in consumers if t.callee.path.rsplit("::", 1)[-1] in EARLY]
    return folds, early


def _rec_field(o, rec_types):
    """(owner, field, rest) if origin `o` is a field of a validated record: the object-insensitive field abstraction, or any
    value whose access path ends in a field of a record type (`next()` -> Some.0 -> .key)."""
    from ..core import _last_local_field
    if o.kind == "field" and o.info[0] in rec_types:
        return (o.info[0], o.info[1], tuple(o.path))
    fi = _last_local_field(o.path) if o.path else None
    if fi is not None and o.path[fi][2] in rec_types:
        return (o.path[fi][2], o.path[fi][1], tuple(o.path[fi + 1:]))
    return None


def _all_field(origins, rec_types, name):
    if not origins:
        return False
    for x in origins:
        f = _rec_field(x, rec_types)
        if f is None or f[1] != name or f[2]:
            return False
    return True


def make_labeler(w, cl, g, kidx):
    """Symbolic labels of the branches of a per-record decision (`cl`: the fold closure, a filter / filter_map stage, or the
    body of a scanning loop): key comparison, tombstone test, integrity parse — in whichever of the equivalent spellings
    (`==`/`!=`, `if let`/`match`/`is_none()`/`?`, `parse()`/`parse().ok()`)."""
    prog = w.prog
    rec_types = w.roles.record_types

    def is_entry_key(s_):
        return _all_field(s_, rec_types, "key")

    def is_lookup_key(s_):
        return bool(s_) and is_param(prog, s_, g, kidx)

    def parse_of_integrity(x):
        if not (x.kind == "call" and x.callee is not None and x.callee.path == "core::str::<impl str>::parse"):
            return None
        a = prog.resolve_op(x.body, x.term.args[0], IDENT, x.blk)
        return bool(a) and all((_rec_field(y, rec_types) or (None, None))[1] == "integrity" for y in a)

    def label_switch(blk_, term):
        if term.discr.place is None:
            return None
        for o in prog.resolve_pl(cl, term.discr.place, IDENT):
            neg = False
            if o.kind == "unop" and o.info.j["op"] == "Not":
                inner = prog.resolve_op(cl, o.info.ops[0], IDENT, o.blk)
                if len(inner) == 1:
                    o = next(iter(inner))
                    neg = True
            t1, t0 = (0, 1) if neg else (1, 0)
            if o.kind == "call" and o.callee is not None and o.callee.path in ("std::cmp::PartialEq::eq", "std::cmp::PartialEq::ne"):
                eqv, nev = (t1, t0) if o.callee.path.endswith("::eq") else (t0, t1)
                a = prog.resolve_op(o.body, o.term.args[0], IDENT, o.blk)
                c = prog.resolve_op(o.body, o.term.args[1], IDENT, o.blk)
                if (is_entry_key(a) and is_lookup_key(c)) or (is_entry_key(c) and is_lookup_key(a)):
                    return ("key_eq", {switch_target(term, eqv): True, switch_target(term, nev): False})
                return ("key_eq?", {switch_target(term, eqv): "other-comparison:%s" % sorted(map(repr, a | c))[:2], switch_target(term, nev): False})
            if o.kind == "call" and o.callee is not None and o.callee.path in ("std::option::Option::<T>::is_none", "std::option::Option::<T>::is_some"):
                a = prog.resolve_op(o.body, o.term.args[0], IDENT, o.blk)
                if _all_field(a, rec_types, "integrity"):
                    some_v, none_v = (t1, t0) if o.callee.path.endswith("is_some") else (t0, t1)
                    return ("integrity", {switch_target(term, some_v): "Some", switch_target(term, none_v): "None"})
            if o.kind == "discr":
                pl = o.info.place
                src = prog.resolve_lifted(cl, pl.local, norm_path(pl), IDENT, at=o.blk)
                if _all_field(src, rec_types, "integrity"):
                    return ("integrity", {switch_target(term, VIDX["Some"]): "Some", switch_target(term, VIDX["None"]): "None"})
                if src and all(parse_of_integrity(x) is not None and not x.path for x in src):
                    okp = all(parse_of_integrity(x) for x in src)
                    return ("parse" if okp else "parse?", {switch_target(term, VIDX["Ok"]): "Ok", switch_target(term, VIDX["Err"]): "Err"})
                if src and all(x.kind == "call" and x.callee is not None and x.callee.path == "std::result::Result::<T, E>::ok" and not x.path for x in src):
                    inner = set()
                    for x in src:
                        inner |= prog.resolve_op(x.body, x.term.args[0], IDENT, x.blk)
                    if inner and all(parse_of_integrity(y) for y in inner):
                        return ("parse", {switch_target(term, VIDX["Some"]): "Ok", switch_target(term, VIDX["None"]): "Err"})
                if src and all(x.kind == "call" and x.callee is not None and x.callee.path == "std::ops::Try::branch" and not x.path for x in src):
                    inner = set()
                    for x in src:
                        inner |= prog.resolve_op(x.body, x.term.args[0], OKFLOW, x.blk)
                    if _all_field(inner, rec_types, "integrity"):
                        return ("integrity", {switch_target(term, VIDX["Continue"]): "Some", switch_target(term, VIDX["Break"]): "None"})
                    if inner and all(parse_of_integrity(y) for y in inner):
                        return ("parse", {switch_target(term, VIDX["Continue"]): "Ok", switch_target(term, VIDX["Break"]): "Err"})
        return ("?", {s_: "?%d" % i for i, s_ in enumerate(prog.cfg(cl).succ[blk_.i])})
    return label_switch


def _metadata_from_entry(w, cl, operand_or_term, rec_types):
    """The term is a Metadata built field by field from the same-named fields of the record (integrity: its parsed string)."""
    payload = operand_or_term if isinstance(operand_or_term, tuple) else w.sym.of_operand(cl, operand_or_term)
    if payload[0] == "alt":
        alts = [a for a in payload[1] if a[0] == "agg" and a[1] == "index::Metadata"]
        if len(alts) == 1:
            payload = alts[0]
    if not (payload[0] == "agg" and payload[1] == "index::Metadata"):
        return None
    from ..symval import walk
    for nm, tm in dict(payload[3]).items():
        if nm == "integrity":
            if not any(st[0] == "call" and st[1] == "core::str::<impl str>::parse" for st in walk(tm)):
                return False
        else:
            flds = [st for st in walk(tm) if st[0] == "field" and st[1] in rec_types] if tm[0] != "field" else [tm]
            if not (tm[0] == "field" and tm[1] in rec_types and tm[2] == nm) and not (
                    len(flds) == 0 and tm[0] in ("call", "param", "arg") and tm[3] and tm[3][-1][:2] == ("f", nm)):
                return False
    return True


def _closure_or_fn(prog, term):
    """Body of the closure / crate function that the symbolic term names."""
    if term[0] == "agg":
        return prog.by_path.get(term[1])
    if term[0] == "fn" and term[1] in prog.fns and not prog.fns[term[1]].outer.is_async:
        return prog.fns[term[1]].body
    return None


def _state_action(w, cl, blk_, kind, obj, rec_types, wrap):
    """What a definition of the per-record result says: `wrap` Some-levels around the new lookup state.
    wrap=1 (filter_map stage: Option<Option<Metadata>>): None -> keep, Some(None) -> clear, Some(Some(m)) -> replace.
    wrap=0 (scanning loop assigning the lookup result): None -> clear, Some(m) -> replace."""
    if kind == "call" and obj.callee is not None and obj.callee.path == "std::ops::FromResidual::from_residual":
        return "keep-acc" if wrap == 1 else "clear"
    if kind != "assign":
        return "other"
    rv = obj.rv
    if rv.k == "agg" and rv.j.get("path", "").endswith("Option"):
        if rv.j["variant"] == "None":
            return "keep-acc" if wrap == 1 else "clear"
        t = w.sym.of_operand(cl, rv.ops[0])
        if wrap == 1:
            if t[0] == "agg" and t[1].endswith("Option"):
                if t[2] == "None":
                    return "clear"
                inner = dict(t[3]).get("0") if t[3] else None
                if inner is None and t[3]:
                    inner = t[3][0][1]
                m = _metadata_from_entry(w, cl, inner, rec_types) if inner is not None else None
                return "replace-from-entry" if m else ("replace-from-other" if m is False else "some-other")
            return "some-other"
        m = _metadata_from_entry(w, cl, t, rec_types)
        return "replace-from-entry" if m else ("replace-from-other" if m is False else "some-other")
    return "other"


def _try_last_form(cfg, w, rep, lf, g, kidx, b, blk, t, key, stream_ok):
    """`records.into_iter().filter(|r| r.key == key).filter_map(state).last().flatten()`: the last record that says
    something about the key decides — the same decision table as the fold, spread over two stages."""
    prog = w.prog
    rec_types = w.roles.record_types
    it = w.sym.of_operand(b, t.args[0])
    if not (it[0] == "call" and it[1].endswith("Iterator::filter_map") and len(it[2]) == 2):
        return False
    f0 = it[2][0]
    if not (f0[0] == "call" and f0[1].endswith("Iterator::filter") and len(f0[2]) == 2):
        return False
    src, clf_t, st_t = f0[2][0], f0[2][1], it[2][1]
    clf, stf = _closure_or_fn(prog, clf_t), _closure_or_fn(prog, st_t)
    if clf is None or stf is None:
        return False
    if not stream_ok(src):
        rep.violation("b-stream:%s" % key, "lookup `%s` does not scan the full validated record stream of bucket_path(cache, key): %s" % (
            short(lf.path), term_str(src)[:140]), loc=span_str(t.span), config=cfg, rule="b-full-traversal")
    else:
        rep.ob(cfg, "b-stream", key, "`%s` takes the last deciding record of every validated record of bucket_path(cache, key)" % short(lf.path))
    # stage 1: keep exactly the records of the key
    lab1 = make_labeler(w, clf, g, kidx)

    def cls1(blk_, kind, i, obj):
        if kind == "call" and obj.callee is not None and obj.callee.path in ("std::cmp::PartialEq::eq", "std::cmp::PartialEq::ne"):
            a = prog.resolve_op(clf, obj.args[0], IDENT, blk_)
            c = prog.resolve_op(clf, obj.args[1], IDENT, blk_)
            ek = lambda s_: _all_field(s_, rec_types, "key")
            lk = lambda s_: bool(s_) and is_param(prog, s_, g, kidx)
            if (ek(a) and lk(c)) or (ek(c) and lk(a)):
                return "keep-iff-key-eq" if obj.callee.path.endswith("::eq") else "keep-iff-key-ne"
            return "keep-iff-other-comparison"
        if kind == "assign" and obj.rv.k == "use" and obj.rv.ops[0].is_const:
            return "keep" if obj.rv.ops[0].const_val is True else "drop"
        return "other"
    try:
        r1 = rows_as_set(enumerate_rows(prog, clf, lab1, cls1))
        lab2 = make_labeler(w, stf, g, kidx)
        r2 = rows_as_set(enumerate_rows(prog, stf, lab2, lambda blk_, kind, i, obj: _state_action(w, stf, blk_, kind, obj, rec_types, 1), sensitive=True))
    except TooComplex as e:
        rep.violation("b-idiom:%s" % key, "UNRECOGNISED-IDIOM: the stages of the lookup `%s` are not small acyclic decisions (%s)" % (short(lf.path), e),
                      loc=span_str(t.span), config=cfg, rule="b-decision-table")
        return True
    ok1 = r1 in ({((), "keep-iff-key-eq")}, {((("key_eq", True),), "keep"), ((("key_eq", False),), "drop")})
    rows = {((("key_eq", False),), "keep-acc")} | {(tuple(sorted(d + (("key_eq", True),))), a) for d, a in r2}
    if ok1 and rows == ORACLE:
        rep.ob(cfg, "b-decision-table", key, "`%s`: filter keeps exactly the key's records; per record: tombstone → clear; parses → replace from this record; unparsable → passed over; the last one decides" % short(lf.path))
    else:
        rep.violation("b-table:%s" % key,
                      "lookup `%s` does not implement last-valid-record-wins: key filter rows %s; unexpected rows %s; missing rows %s" % (
                          short(lf.path), sorted(map(str, r1))[:2], sorted(map(str, rows - ORACLE))[:3], sorted(map(str, ORACLE - rows))[:3]),
                      loc=stf.loc(), config=cfg, rule="b-decision-table")
    # the lookup returns flatten(last(..))
    body = g.body
    ret = prog.resolve_lifted(body, 0, (("v", "Ok"), ("f", "0")), IDENT) if g is lf else prog.resolve_lifted(body, 0, (), IDENT)
    okr = bool(ret)
    for x in ret:
        if not (x.kind == "call" and x.callee is not None and re.search(r"Option::<.*>::flatten$", x.callee.path) and not x.path):
            okr = False
            continue
        a0 = prog.resolve_op(x.body, x.term.args[0], IDENT, x.blk)
        if not (a0 and all(y.kind == "call" and y.term is t for y in a0)):
            okr = False
    if okr:
        rep.ob(cfg, "b-returns-fold", key, "`%s` returns flatten(last(..)): nothing found or a tombstone last → None" % short(lf.path))
    else:
        rep.violation("b-returns:%s" % key, "`%s` does not return the flattened last deciding record: %s" % (short(lf.path), sorted(map(repr, ret))[:2]),
                      loc=body.loc(), config=cfg, rule="b-decision-table")
    return True


def _try_reverse_scan_form(cfg, w, rep, lf, key, stream_ok):
    """`for r in records.into_iter().rev() { other key → continue; tombstone → return None; parses → return Some(r);
    unparsable → continue }  None`: the first deciding record from the end is the last deciding record — the same table."""
    prog = w.prog
    rec_types = w.roles.record_types
    body = lf.body
    cf = prog.cfg(body)
    nexts = [(blk, t) for blk, t in body.calls() if t.callee is not None and blk.i in cf.live() and not blk.cleanup and
             re.search(r"^<std::iter::Rev<.*> as std::iter::Iterator>::next$", t.callee.rpath or "")]
    if len(nexts) != 1:
        return False
    nblk, nt = nexts[0]
    recv = w.sym.of_operand(body, nt.args[0])
    from ..symval import walk
    revs = [st for st in walk(recv) if st[0] == "call" and st[1].endswith("Iterator::rev")]
    if len(revs) != 1 or not revs[0][2]:
        return False
    loops = [(h, bl) for h, bl in cf.loops() if nblk.i in bl]
    if not loops:
        return False
    h, bl = max(loops, key=lambda x: len(x[1]))
    # the switch on next()'s result
    some_t = none_t = None
    for sb, st_ in switches_on_discr(prog, body, nt.dest.local, norm_path(nt.dest)) if nt.dest is not None else []:
        some_t, none_t = switch_target(st_, VIDX["Some"]), switch_target(st_, VIDX["None"])
    if some_t is None:
        return False
    if not stream_ok(revs[0][2][0]):
        rep.violation("b-stream:%s" % key, "lookup `%s` does not scan the full validated record stream of bucket_path(cache, key): %s" % (
            short(lf.path), term_str(revs[0][2][0])[:140]), loc=span_str(nt.span), config=cfg, rule="b-full-traversal")
    else:
        rep.ob(cfg, "b-stream", key, "`%s` scans every validated record of bucket_path(cache, key) from the newest to the oldest" % short(lf.path))
    # the local that carries the lookup's answer: the payload of the Ok(..) that is returned
    res_local = None
    for kind, blk_, i, d, obj in prog.idx(body).defs.get(0, []):
        if not d and kind == "assign" and obj.rv.k == "agg" and obj.rv.j.get("variant") == "Ok" and obj.rv.ops and obj.rv.ops[0].place is not None \
                and not obj.rv.ops[0].place.proj:
            res_local = obj.rv.ops[0].place.local
    if res_local is None:
        rep.violation("b-idiom:%s" % key, "UNRECOGNISED-IDIOM: reverse-scanning lookup `%s` does not return Ok(<one result variable>)" % short(lf.path),
                      loc=body.loc(), config=cfg, rule="b-decision-table")
        return True
    lab = make_labeler(w, body, lf, 1)
    try:
        per = rows_as_set(enumerate_rows(prog, body, lab, lambda blk_, kind, i, obj: _state_action(w, body, blk_, kind, obj, rec_types, 0),
                                         start=some_t, stop_blocks={h}, ret_local=res_local, sensitive=True))
        end = rows_as_set(enumerate_rows(prog, body, lab, lambda blk_, kind, i, obj: _state_action(w, body, blk_, kind, obj, rec_types, 0),
                                         start=none_t, stop_blocks={h}, ret_local=res_local, sensitive=True))
    except TooComplex as e:
        rep.violation("b-idiom:%s" % key, "UNRECOGNISED-IDIOM: the loop body of the reverse-scanning lookup `%s` is not a small acyclic decision (%s)" % (short(lf.path), e),
                      loc=span_str(nt.span), config=cfg, rule="b-decision-table")
        return True
    # a path that goes round the loop without an answer passes the record over (= the fold keeping its accumulator)
    rows = {(d, "keep-acc" if a is None else a) for d, a in per}
    if rows == ORACLE and end == {((), "clear")}:
        rep.ob(cfg, "b-decision-table", key, "`%s` scans from the newest record: other key / unparsable → next; tombstone → None; parses → this record; exhausted → None" % short(lf.path))
        rep.ob(cfg, "b-returns-fold", key, "`%s` returns the scan's answer" % short(lf.path))
    else:
        rep.violation("b-table:%s" % key,
                      "lookup `%s` does not implement last-valid-record-wins: unexpected rows %s; missing rows %s; after the last record: %s" % (
                          short(lf.path), sorted(map(str, rows - ORACLE))[:3], sorted(map(str, ORACLE - rows))[:3], sorted(map(str, end))[:2]),
                      loc=span_str(nt.span), config=cfg, rule="b-decision-table")
    return True


def check_find(cfg, w, rep, lf):
    prog = w.prog
    key = fn_key(lf)
    R = w.roles
    from ..symval import walk
    # the traversal sits in the lookup itself, or in ONE private helper that is handed the reader's records and the key
    g, kidx, helper_call = lf, 1, None
    folds, early = _fold_consumers(prog, lf)
    if not folds and not early:
        cands = []
        for b_, blk_, t_, h in prog.local_calls(lf):
            if b_ is not lf.body or h.outer.reachable or h.path in R.bucket_readers or h.path in R.bucket_path:
                continue
            args = [w.sym.of_operand(b_, a) for a in t_.args]
            si = [i for i, a in enumerate(args) if _reader_stream_ok(w, lf, a)]
            ki = [i for i, a in enumerate(args) if a == ("param", lf.path, 1, ())]
            if len(si) == 1 and len(ki) == 1:
                cands.append((h, si[0], ki[0], (b_, blk_, t_)))
        if len(cands) == 1:
            g, sidx, kidx, helper_call = cands[0]
            folds, early = _fold_consumers(prog, g)
    body = g.body

    def stream_ok(term_):
        if g is lf:
            return _reader_stream_ok(w, lf, term_)
        base = term_
        while base[0] == "call" and base[1].endswith("into_iter") and base[2]:
            base = base[2][0]
        return base == ("param", g.path, sidx, ())
    lasts = [(b, blk, t) for b, blk, t in folds if t.callee.path.endswith("Iterator::last")]
    if len(folds) == 1 and lasts and not early:
        if _try_last_form(cfg, w, rep, lf, g, kidx, lasts[0][0], lasts[0][1], lasts[0][2], key, stream_ok):
            return
    if not folds and g is lf and [1 for b, blk, t in early if t.callee.path.endswith("::next")] == [1] * len(early) and early:
        if _try_reverse_scan_form(cfg, w, rep, lf, key, lambda term_: _reader_stream_ok(w, lf, term_)):
            return
    if early:
        for b, blk, t in early:
            rep.violation("b-early:%s" % key, "lookup `%s` consumes the record stream with the early-terminating `%s`: a later record for the key would be ignored" % (
                short(lf.path), t.callee.path.rsplit("::", 1)[-1]), loc=span_str(t.span), config=cfg, rule="b-full-traversal")
    if len(folds) != 1:
        rep.violation("b-idiom:%s" % key, "UNRECOGNISED-IDIOM: lookup `%s` does not fold over the whole record stream exactly once (%d fold-like consumers)" % (
            short(lf.path), len(folds)), loc=lf.body.loc(), config=cfg, rule="b-full-traversal")
        return
    b, blk, t = folds[0]
    for fn_ in ({lf.path: lf, g.path: g}).values():
        for blk_, t_ in inplace_changes_of_records(w, fn_.body, set(R.bucket_readers)):
            rep.violation("b-inplace:%s" % key,
                          "lookup `%s` changes the record vector in place (`%s`) before folding over it: the most recent write is the last "
                          "record in file order, which this no longer is" % (short(lf.path), t_.callee.path.rsplit("::", 1)[-1]),
                          loc=span_str(t_.span), config=cfg, rule="b-full-traversal")
    # iterator = into_iter of the validated record stream of BUCKET_PATH(cache, key)
    it = w.sym.of_operand(b, t.args[0])
    if g is lf:
        ok_src = _reader_stream_ok(w, lf, it)
    else:
        # in the helper: the iterator is its records parameter, untouched (the caller's argument was checked above);
        # nothing else in the helper may touch that parameter in place
        base = it
        while base[0] == "call" and base[1].endswith("into_iter") and base[2]:
            base = base[2][0]
        ok_src = base == ("param", g.path, sidx, ())
        for blk_, t_ in g.body.calls():
            if t_.callee is not None and t_.args and t_ is not t:
                a0 = w.sym.of_operand(g.body, t_.args[0])
                if a0 == ("param", g.path, sidx, ()) and inplace_call(t_.callee.path):
                    ok_src = False
    # nothing but identity adaptors between reader and fold
    adaptors = [st[1].rsplit("::", 1)[-1] for st in walk(it) if st[0] == "call" and st[1].startswith("std::iter::Iterator::")]
    if ok_src and not adaptors:
        rep.ob(cfg, "b-stream", key, "`%s` folds over every validated record of bucket_path(cache, key) (key passed unchanged)%s" % (
            short(lf.path), " in its helper `%s`" % short(g.path) if g is not lf else ""))
    else:
        rep.violation("b-stream:%s" % key, "lookup `%s` does not fold over the full validated record stream of bucket_path(cache, key): %s" % (
            short(lf.path), term_str(it)[:140]), loc=span_str(t.span), config=cfg, rule="b-full-traversal")
    if not t.callee.path.endswith("::fold") or len(t.args) < 3:
        rep.violation("b-idiom:%s" % key, "UNRECOGNISED-IDIOM: lookup `%s` consumes the record stream with `%s` rather than with a fold from None" % (
            short(lf.path), t.callee.path.rsplit("::", 1)[-1]), loc=span_str(t.span), config=cfg, rule="b-full-traversal")
        return
    init = w.sym.of_operand(b, t.args[1])
    if not (init[0] == "agg" and init[1].endswith("Option") and init[2] == "None"):
        rep.violation("b-init:%s" % key, "lookup `%s` starts the fold from %s instead of None" % (short(lf.path), term_str(init)[:60]),
                      loc=span_str(t.span), config=cfg, rule="b-decision-table")
    # the fold closure
    cl = None
    for o in prog.resolve_op(b, t.args[2], IDENT, blk.i):
        if o.kind == "agg" and o.info.j["agg"] == "closure":
            cl = prog.by_path.get(o.info.j["path"])
    if cl is None:
        rep.violation("b-closure:%s" % key, "UNRECOGNISED-IDIOM: the fold of `%s` is not given a closure" % short(lf.path), loc=span_str(t.span),
                      config=cfg, rule="b-decision-table")
        return
    rec_types = R.record_types

    label_switch = make_labeler(w, cl, g, kidx)

    def classify_ret(blk_, kind, i, obj):
        if kind == "assign":
            rv = obj.rv
            if rv.k == "use":
                src = prog.resolve_op(cl, rv.ops[0], IDENT, blk_)
                if src and all(x.kind == "param" and x.info == 2 and not x.path for x in src):
                    return "keep-acc"
                return "other:%s" % sorted(map(repr, src))[:2]
            if rv.k == "agg" and rv.j.get("path", "").endswith("Option"):
                if rv.j["variant"] == "None":
                    return "clear"
                payload = w.sym.of_operand(cl, rv.ops[0])
                if payload[0] == "agg" and payload[1] == "index::Metadata":
                    f = dict(payload[3])
                    good = True
                    for nm, tm in f.items():
                        if nm == "integrity":
                            if not (tm[0] == "call" and tm[1] == "core::str::<impl str>::parse"):
                                good = False
                        elif not (tm[0] == "field" and tm[1] in rec_types and tm[2] == nm):
                            good = False
                    return "replace-from-entry" if good else "replace-from-other:%s" % term_str(payload)[:80]
                return "some-other"
        return "other"
    try:
        rows = rows_as_set(enumerate_rows(prog, cl, label_switch, classify_ret))
    except TooComplex as e:
        rep.violation("b-idiom:%s" % key, "UNRECOGNISED-IDIOM: the fold closure of `%s` is not a small acyclic decision (%s)" % (short(lf.path), e),
                      loc=cl.loc(), config=cfg, rule="b-decision-table")
        return
    if rows == ORACLE:
        rep.ob(cfg, "b-decision-table", key, "fold closure of `%s` has exactly the rows: key≠ → keep; key= ∧ tombstone → clear; key= ∧ parses → replace from this record; key= ∧ unparsable → keep" % short(lf.path))
    else:
        extra = rows - ORACLE
        missing = ORACLE - rows
        rep.violation("b-table:%s" % key,
                      "lookup `%s` does not implement last-valid-record-wins: unexpected rows %s; missing rows %s" % (
                          short(lf.path), sorted(map(str, extra))[:3], sorted(map(str, missing))[:3]),
                      loc=cl.loc(), config=cfg, rule="b-decision-table")
    # the result of the fold is what the lookup returns
    if g is lf:
        ret = prog.resolve_lifted(body, 0, (("v", "Ok"), ("f", "0")), IDENT)
    else:
        # helper returns the fold's result; the lookup returns Ok(<helper's result>)
        hret = prog.resolve_lifted(g.body, 0, (), IDENT)
        lret = prog.resolve_lifted(lf.body, 0, (("v", "Ok"), ("f", "0")), IDENT)
        ret = hret if (lret and all(x.kind == "call" and x.term is helper_call[2] for x in lret)) else lret
    if ret and all(x.kind == "call" and x.term is t for x in ret):
        rep.ob(cfg, "b-returns-fold", key, "`%s` returns the fold's result" % short(lf.path))
    else:
        rep.violation("b-returns:%s" % key, "`%s` does not return the fold's result: %s" % (short(lf.path), sorted(map(repr, ret))[:2]),
                      loc=body.loc(), config=cfg, rule="b-decision-table")
