"""C05 — a lookup returns the most recent committed entry, or absent after removal (append-only + decision table)."""
import re

from .common import *
from .c01 import find_fns
from ..rows import enumerate_rows, rows_as_set, TooComplex
from ..world import strip_refs

PROP = "C05"

# the oracle decision table of the lookup fold (DESIGN C05 b)
ORACLE = {
    ((("key_eq", False),), "keep-acc"),
    ((("integrity", "None"), ("key_eq", True)), "clear"),
    ((("integrity", "Some"), ("key_eq", True), ("parse", "Ok")), "replace-from-entry"),
    ((("integrity", "Some"), ("key_eq", True), ("parse", "Err")), "keep-acc"),
}
FULL_TRAVERSAL = ("std::iter::Iterator::fold", "std::iter::Iterator::for_each", "std::iter::Iterator::last")
EARLY = ("find", "find_map", "take_while", "map_while", "next", "any", "all", "position", "skip_while", "take", "nth", "try_fold")


def run(ctx, rep):
    for cfg, w in ctx.worlds():
        check_config(cfg, w, rep)
    return rep


def check_config(cfg, w, rep):
    prog = w.prog
    is_async = not cfg.startswith("sync")
    R = w.roles
    # ---- (a) inserts only ever append ----
    n_open = 0
    for p in R.index_inserts:
        lf = prog.fns[p]
        from .fsrules import FsWorld
        from ..provenance import shape as _shape
        fw_ = FsWorld.get(w)
        for e in w.reach_effects(lf):
            on_bucket = e.classes.get("path", ("?",))[0] == "Bucket" or any(_shape(x) == "Bucket(Entry)" for x in fw_.expanded(e).get("path", ()))
            if e.kind == "Open" and on_bucket:
                n_open += 1
                fl = {k: v for k, v in e.flags.items() if v}
                if fl.get("append") is True and fl.get("create") is True and not fl.get("write") and not fl.get("truncate") \
                        and not fl.get("create_new") and "?" not in fl:
                    rep.ob(cfg, "a-append-only", fn_key(lf), "`%s` opens the bucket with append+create only" % short(p))
                else:
                    rep.violation("a-flags:%s" % fn_key(lf), "`%s` opens the bucket with %s: records of earlier writes can be overwritten or dropped" % (short(p), fl),
                                  loc=e.loc(), config=cfg, rule="a-append-only")
    rep.floor("insert_open_sites", n_open, 2 if is_async else 1, cfg)
    # every successful insert appends: the most recent write is always the last record of its key
    for p in R.index_inserts:
        lf = prog.fns[p]
        body_ = lf.body
        cut = {e.blk for e in bucket_data_writes(w, lf)[0] if e.body is body_}
        succ = [rd for rd in ret_defs(prog, body_) if rd.cls in ("success", "unknown", "delegated")]
        reach = prog.cfg(body_).reachable(0, cut_nodes=cut)
        badr = [rd for rd in succ if rd.blk in reach]
        if badr or not cut:
            rep.violation("a-skipped-append:%s" % fn_key(lf), "`%s` can report success without appending a record: the most recent write would not be the last record of its key" % short(p),
                          loc=blk_loc(body_, badr[0].blk) if badr else body_.loc(), config=cfg, rule="a-append-only")
        else:
            rep.ob(cfg, "a-append-only", fn_key(lf) + ".always", "`%s` appends a record on every success path" % short(p))

    # ---- (c) "absent after removal": a removal that reports success has made the key absent — key removals append the
    #      tombstone, a full removal removes the bucket file on every success path (the removal clauses of C09, re-checked) ----
    from ..framework import Report
    from . import c09
    sub = Report("C09")
    c09.check_removal_effects(cfg, w, sub)
    RM = ("lower-bound", "tombstone", "remove-fully-arms", "remove-fully-complete", "clear-all-children")
    for (c_, rule, k, desc, ok) in sub.obligations:
        if rule in RM and ok:
            rep.ob(cfg, "c/" + rule, k, desc)
    for k, v in sub.violations.items():
        if v.rule in RM:
            rep.violation("c:%s" % k, "a key could still be found after a successful removal — " + v.msg, loc=v.loc, config=cfg,
                          rule="c/" + v.rule, witness=v.witness)

    # ---- (a2) every successful keyed commit appends its record ----
    check_commit_always_inserts(cfg, w, rep, "a2")

    # ---- (b0) the record stream the lookups fold over is every valid record of the bucket, in file order (the reader clauses
    #      of C06, re-checked: a reader that drops, reorders or stops early changes which record is "the most recent") ----
    from . import c06
    sub = Report("C06")
    for p_ in R.bucket_readers:
        c06.check_reader(cfg, w, sub, prog.fns[p_])
    for (c_, rule, k, desc, ok) in sub.obligations:
        if ok:
            rep.ob(cfg, "b0/" + rule, k, desc)
    for k, v in sub.violations.items():
        rep.violation("b0:%s" % k, "a lookup could miss or mis-order records — " + v.msg, loc=v.loc, config=cfg, rule="b0/" + (v.rule or ""), witness=v.witness)

    # ---- (b) decision table of every lookup ----
    finds = sorted(find_fns(w))
    rep.floor("lookup_fns", len(finds), 2 if is_async else 1, cfg)
    for p in finds:
        check_find(cfg, w, rep, prog.fns[p])


def _reader_stream_ok(w, lf, term):
    """`term` is (an into_iter of) the validated record stream of bucket_path(cache, key) of lookup `lf`, key unchanged."""
    from ..symval import walk
    R = w.roles
    reader_call = None
    for st in walk(term):
        if st[0] == "call" and st[1] in R.bucket_readers:
            reader_call = st
    if reader_call is not None and reader_call[2]:
        bp = reader_call[2][0]
        if bp[0] == "call" and bp[1] in R.bucket_path and bp[2] == (("param", lf.path, 0, ()), ("param", lf.path, 1, ())):
            return True
    return False


def _fold_consumers(prog, g):
    body = g.body
    consumers = [(b, blk, t) for b, blk, t in prog.call_sites(g) if t.callee is not None and b is body and
                 t.callee.path.startswith("std::iter::Iterator::") and t.callee.path.rsplit("::", 1)[-1] not in ("map", "rev", "filter", "filter_map", "into_iter", "collect", "enumerate")]
    folds = [(b, blk, t) for b, blk, t in consumers if t.callee.path in FULL_TRAVERSAL]
    early = [(b, blk, t) for b, blk, t in consumers if t.callee.path.rsplit("::", 1)[-1] in EARLY]
    return folds, early


def check_find(cfg, w, rep, lf):
    prog = w.prog
    key = fn_key(lf)
    R = w.roles
    from ..symval import walk
    # the traversal sits in the lookup itself, or in ONE private helper that is handed the reader's records and the key
    g, kidx, helper_call = lf, 1, None
    folds, early = _fold_consumers(prog, lf)
    if not folds and not early:
        cands = []
        for b_, blk_, t_, h in prog.local_calls(lf):
            if b_ is not lf.body or h.outer.reachable or h.path in R.bucket_readers or h.path in R.bucket_path:
                continue
            args = [w.sym.of_operand(b_, a) for a in t_.args]
            si = [i for i, a in enumerate(args) if _reader_stream_ok(w, lf, a)]
            ki = [i for i, a in enumerate(args) if a == ("param", lf.path, 1, ())]
            if len(si) == 1 and len(ki) == 1:
                cands.append((h, si[0], ki[0], (b_, blk_, t_)))
        if len(cands) == 1:
            g, sidx, kidx, helper_call = cands[0]
            folds, early = _fold_consumers(prog, g)
    body = g.body
    if early:
        for b, blk, t in early:
            rep.violation("b-early:%s" % key, "lookup `%s` consumes the record stream with the early-terminating `%s`: a later record for the key would be ignored" % (
                short(lf.path), t.callee.path.rsplit("::", 1)[-1]), loc=span_str(t.span), config=cfg, rule="b-full-traversal")
    if len(folds) != 1:
        rep.violation("b-idiom:%s" % key, "UNRECOGNISED-IDIOM: lookup `%s` does not fold over the whole record stream exactly once (%d fold-like consumers)" % (
            short(lf.path), len(folds)), loc=lf.body.loc(), config=cfg, rule="b-full-traversal")
        return
    b, blk, t = folds[0]
    for fn_ in ({lf.path: lf, g.path: g}).values():
        for blk_, t_ in inplace_changes_of_records(w, fn_.body, set(R.bucket_readers)):
            rep.violation("b-inplace:%s" % key,
                          "lookup `%s` changes the record vector in place (`%s`) before folding over it: the most recent write is the last "
                          "record in file order, which this no longer is" % (short(lf.path), t_.callee.path.rsplit("::", 1)[-1]),
                          loc=span_str(t_.span), config=cfg, rule="b-full-traversal")
    # iterator = into_iter of the validated record stream of BUCKET_PATH(cache, key)
    it = w.sym.of_operand(b, t.args[0])
    if g is lf:
        ok_src = _reader_stream_ok(w, lf, it)
    else:
        # in the helper: the iterator is its records parameter, untouched (the caller's argument was checked above);
        # nothing else in the helper may touch that parameter in place
        base = it
        while base[0] == "call" and base[1].endswith("into_iter") and base[2]:
            base = base[2][0]
        ok_src = base == ("param", g.path, sidx, ())
        for blk_, t_ in g.body.calls():
            if t_.callee is not None and t_.args and t_ is not t:
                a0 = w.sym.of_operand(g.body, t_.args[0])
                if a0 == ("param", g.path, sidx, ()) and inplace_call(t_.callee.path):
                    ok_src = False
    # nothing but identity adaptors between reader and fold
    adaptors = [st[1].rsplit("::", 1)[-1] for st in walk(it) if st[0] == "call" and st[1].startswith("std::iter::Iterator::")]
    if ok_src and not adaptors:
        rep.ob(cfg, "b-stream", key, "`%s` folds over every validated record of bucket_path(cache, key) (key passed unchanged)%s" % (
            short(lf.path), " in its helper `%s`" % short(g.path) if g is not lf else ""))
    else:
        rep.violation("b-stream:%s" % key, "lookup `%s` does not fold over the full validated record stream of bucket_path(cache, key): %s" % (
            short(lf.path), term_str(it)[:140]), loc=span_str(t.span), config=cfg, rule="b-full-traversal")
    if not t.callee.path.endswith("::fold") or len(t.args) < 3:
        rep.violation("b-idiom:%s" % key, "UNRECOGNISED-IDIOM: lookup `%s` consumes the record stream with `%s` rather than with a fold from None" % (
            short(lf.path), t.callee.path.rsplit("::", 1)[-1]), loc=span_str(t.span), config=cfg, rule="b-full-traversal")
        return
    init = w.sym.of_operand(b, t.args[1])
    if not (init[0] == "agg" and init[1].endswith("Option") and init[2] == "None"):
        rep.violation("b-init:%s" % key, "lookup `%s` starts the fold from %s instead of None" % (short(lf.path), term_str(init)[:60]),
                      loc=span_str(t.span), config=cfg, rule="b-decision-table")
    # the fold closure
    cl = None
    for o in prog.resolve_op(b, t.args[2], IDENT, blk.i):
        if o.kind == "agg" and o.info.j["agg"] == "closure":
            cl = prog.by_path.get(o.info.j["path"])
    if cl is None:
        rep.violation("b-closure:%s" % key, "UNRECOGNISED-IDIOM: the fold of `%s` is not given a closure" % short(lf.path), loc=span_str(t.span),
                      config=cfg, rule="b-decision-table")
        return
    rec_types = R.record_types

    def label_switch(blk_, term):
        if term.discr.place is None:
            return None
        for o in prog.resolve_pl(cl, term.discr.place, IDENT):
            if o.kind == "call" and o.callee is not None and o.callee.path in ("std::cmp::PartialEq::eq", "std::cmp::PartialEq::ne"):
                eqv, nev = (1, 0) if o.callee.path.endswith("::eq") else (0, 1)
                a = prog.resolve_op(o.body, o.term.args[0], IDENT, o.blk)
                c = prog.resolve_op(o.body, o.term.args[1], IDENT, o.blk)
                sides = [a, c]

                def is_entry_key(s):
                    return s and all(x.kind == "field" and x.info[0] in rec_types and x.info[1] == "key" and not x.path for x in s)

                def is_lookup_key(s):
                    return s and is_param(prog, s, g, kidx)
                if (is_entry_key(a) and is_lookup_key(c)) or (is_entry_key(c) and is_lookup_key(a)):
                    return ("key_eq", {switch_target(term, eqv): True, switch_target(term, nev): False})
                return ("key_eq?", {switch_target(term, eqv): "other-comparison:%s" % sorted(map(repr, a | c))[:2], switch_target(term, nev): False})
            if o.kind == "discr":
                pl = o.info.place
                src = prog.resolve_lifted(cl, pl.local, norm_path(pl), IDENT, at=o.blk)
                if src and all(x.kind == "field" and x.info[0] in rec_types and x.info[1] == "integrity" and not x.path for x in src):
                    return ("integrity", {switch_target(term, VIDX["Some"]): "Some", switch_target(term, VIDX["None"]): "None"})
                if src and all(x.kind == "call" and x.callee is not None and x.callee.path == "core::str::<impl str>::parse" and not x.path for x in src):
                    # what is parsed must be the record's integrity string
                    okp = True
                    for x in src:
                        a = prog.resolve_op(x.body, x.term.args[0], IDENT, x.blk)
                        if not (a and all(y.kind == "field" and y.info[1] == "integrity" for y in a)):
                            okp = False
                    return ("parse" if okp else "parse?", {switch_target(term, VIDX["Ok"]): "Ok", switch_target(term, VIDX["Err"]): "Err"})
        return ("?", {s: "?%d" % i for i, s in enumerate(prog.cfg(cl).succ[blk_.i])})

    def classify_ret(blk_, kind, i, obj):
        if kind == "assign":
            rv = obj.rv
            if rv.k == "use":
                src = prog.resolve_op(cl, rv.ops[0], IDENT, blk_)
                if src and all(x.kind == "param" and x.info == 2 and not x.path for x in src):
                    return "keep-acc"
                return "other:%s" % sorted(map(repr, src))[:2]
            if rv.k == "agg" and rv.j.get("path", "").endswith("Option"):
                if rv.j["variant"] == "None":
                    return "clear"
                payload = w.sym.of_operand(cl, rv.ops[0])
                if payload[0] == "agg" and payload[1] == "index::Metadata":
                    f = dict(payload[3])
                    good = True
                    for nm, tm in f.items():
                        if nm == "integrity":
                            if not (tm[0] == "call" and tm[1] == "core::str::<impl str>::parse"):
                                good = False
                        elif not (tm[0] == "field" and tm[1] in rec_types and tm[2] == nm):
                            good = False
                    return "replace-from-entry" if good else "replace-from-other:%s" % term_str(payload)[:80]
                return "some-other"
        return "other"
    try:
        rows = rows_as_set(enumerate_rows(prog, cl, label_switch, classify_ret))
    except TooComplex as e:
        rep.violation("b-idiom:%s" % key, "UNRECOGNISED-IDIOM: the fold closure of `%s` is not a small acyclic decision (%s)" % (short(lf.path), e),
                      loc=cl.loc(), config=cfg, rule="b-decision-table")
        return
    if rows == ORACLE:
        rep.ob(cfg, "b-decision-table", key, "fold closure of `%s` has exactly the rows: key≠ → keep; key= ∧ tombstone → clear; key= ∧ parses → replace from this record; key= ∧ unparsable → keep" % short(lf.path))
    else:
        extra = rows - ORACLE
        missing = ORACLE - rows
        rep.violation("b-table:%s" % key,
                      "lookup `%s` does not implement last-valid-record-wins: unexpected rows %s; missing rows %s" % (
                          short(lf.path), sorted(map(str, extra))[:3], sorted(map(str, missing))[:3]),
                      loc=cl.loc(), config=cfg, rule="b-decision-table")
    # the result of the fold is what the lookup returns
    if g is lf:
        ret = prog.resolve_lifted(body, 0, (("v", "Ok"), ("f", "0")), IDENT)
    else:
        # helper returns the fold's result; the lookup returns Ok(<helper's result>)
        hret = prog.resolve_lifted(g.body, 0, (), IDENT)
        lret = prog.resolve_lifted(lf.body, 0, (("v", "Ok"), ("f", "0")), IDENT)
        ret = hret if (lret and all(x.kind == "call" and x.term is helper_call[2] for x in lret)) else lret
    if ret and all(x.kind == "call" and x.term is t for x in ret):
        rep.ob(cfg, "b-returns-fold", key, "`%s` returns the fold's result" % short(lf.path))
    else:
        rep.violation("b-returns:%s" % key, "`%s` does not return the fold's result: %s" % (short(lf.path), sorted(map(repr, ret))[:2]),
                      loc=body.loc(), config=cfg, rule="b-decision-table")
