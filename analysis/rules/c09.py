"""C09 — removals remove exactly what they name and nothing else (effect sets bounded above and below)."""
import re

from .common import *
from .fsrules import FsWorld, effect_fn
from .c01 import find_fns
from ..provenance import leaf, shape, entry_str

PROP = "C09"

KEY_REMOVAL = re.compile(r"^(rm::remove(_sync)?|index::delete(_async)?)$")
HASH_REMOVAL = re.compile(r"^rm::remove_hash(_sync)?$")
CLEAR = re.compile(r"^rm::clear(_sync)?$")
OPTS_REMOVAL = re.compile(r"^index::RemoveOpts::remove(_sync)?$")

TOMBSTONE_MAY = {("CreateDir", "path", "Parent(Bucket(Entry))"), ("Open", "path", "Bucket(Entry)"),
                 ("WriteData", "handle", "Handle(Bucket(Entry))")}
TOMBSTONE_MUST = {("WriteData", "handle", "Handle(Bucket(Entry))"), ("Open", "path", "Bucket(Entry)")}
HASH_SET = {("RemoveFile", "path", "Content(Entry)")}
FULL_MAY = {("RemoveFile", "path", "Content(Entry)"), ("RemoveFile", "path", "Bucket(Entry)")}
CLEAR_SET = {("RemoveDirAll", "path", "Child(Entry)")}


def run(ctx, rep):
    for cfg, w in ctx.worlds():
        check_config(cfg, w, rep)
    return rep


def entry_effects(w, fw, lf):
    """Mutating effects reachable from entry `lf`, as (effect, role, expanded class) restricted to expansions rooted at lf."""
    out = []
    for e in w.reach_effects(lf):
        if not e.mutating:
            continue
        ex = fw.expanded(e)
        if not ex:
            out.append((e, "?", ("Unknown", e.kind)))
        for role, cs in ex.items():
            for c in cs:
                l = leaf(c)
                if l[0] == "Entry" and l[1] != lf.path:
                    continue
                if l[0] == "Dead":
                    continue
                out.append((e, role, c))
    return out


def ident_param(w, fw, term, lf):
    """The symbolic term denotes exactly one parameter of entry lf, travelling by identity; returns its index."""
    c = w.inv.classify(term)
    idxs = set()
    exps = fw.x.expand(c)
    mine = [x for x in exps if leaf(x)[0] == "Entry" and leaf(x)[1] == lf.path]
    # expansions through other callers of the same internal function are not this entry point's behaviour
    for x in (mine if mine else exps):
        l = leaf(x)
        if l[0] == "Dead":
            continue
        if l[0] != "Entry" or shape(x) != "Entry":
            return None
        if l[1] != lf.path:
            continue
        idxs.add(l[2])
    if len(idxs) == 1:
        return next(iter(idxs))
    return None


def param_kind(lf, i):
    ins = lf.outer.j.get("sig_inputs", [])
    if i is None or i >= len(ins):
        return "?"
    t = ins[i]
    if "ssri::Integrity" in t:
        return "integrity"
    if re.search(r"std::path::(Path|PathBuf)", t):
        return "path"
    b = lf.outer.j.get("bounds", [])
    if any(re.match(r"^%s: std::convert::AsRef<std::path::Path>" % re.escape(t), x) for x in b):
        return "path"
    if any(re.match(r"^%s: std::convert::AsRef<str>" % re.escape(t), x) for x in b) or t in ("&str", "std::string::String"):
        return "key"
    return t


def check_config(cfg, w, rep):
    check_removal_effects(cfg, w, rep)
    check_removed_is_absent(cfg, w, rep)
    check_bucket_of_whole_digest(cfg, w, rep)


def check_bucket_of_whole_digest(cfg, w, rep):
    """(f) A full removal unlinks the key's *bucket file*: "every other index entry is unaffected" needs a bucket to belong to
    one digest — its path uses the whole SHA-1 of the key (the last segment is the open-ended rest of the hex string), not a
    prefix of it that other keys share (the bucket-path clause of the C17 descriptor, re-checked here)."""
    from . import c17
    R = w.roles
    for p in R.bucket_path:
        lf = w.prog.fns[p]
        got = c17.segments(w, w.sym.of_place(lf.body, 0, ()), lf.path)
        want = c17.ORACLE["bucket_path"]
        if got == want:
            rep.ob(cfg, "bucket-of-whole-digest", fn_key(lf), "`%s` names a bucket by the whole digest of the key: %s" % (short(p), "/".join(got)))
        else:
            rep.violation("bucket-digest:%s" % fn_key(lf),
                          "`%s` builds %s instead of %s: if a bucket file does not stand for one whole digest, keys share buckets, and a full "
                          "removal (which unlinks the bucket) removes other keys' entries too" % (short(p), got, want),
                          loc=lf.body.loc(), config=cfg, rule="bucket-of-whole-digest")


def check_removal_effects(cfg, w, rep):
    """(a)–(d): what each removal entry point does to the filesystem, bounded above and below."""
    prog = w.prog
    fw = FsWorld.get(w)
    is_async = not cfg.startswith("sync")
    n_entries = 0
    for lf in w.public_fns():
        p = short(lf.path)
        if KEY_REMOVAL.match(p):
            n_entries += 1
            check_set(cfg, w, fw, rep, lf, TOMBSTONE_MAY, TOMBSTONE_MUST, "key removal", want_key=True)
            check_tombstone_value(cfg, w, rep, lf)
            check_key_removal_always_acts(cfg, w, rep, lf)
        elif HASH_REMOVAL.match(p):
            n_entries += 1
            check_set(cfg, w, fw, rep, lf, HASH_SET, HASH_SET, "content removal", want_sri=True)
            check_removal_on_every_success_path(cfg, w, rep, lf, "RemoveFile", "Content", "content file")
        elif CLEAR.match(p):
            n_entries += 1
            check_set(cfg, w, fw, rep, lf, CLEAR_SET, CLEAR_SET, "clear")
            check_clear_loop(cfg, w, rep, lf)
        elif OPTS_REMOVAL.match(p):
            n_entries += 1
            check_set(cfg, w, fw, rep, lf, TOMBSTONE_MAY | FULL_MAY, TOMBSTONE_MUST | FULL_MAY, "RemoveOpts removal", want_key=True)
            check_remove_fully(cfg, w, fw, rep, lf)
            check_key_removal_always_acts(cfg, w, rep, lf)
    rep.floor("removal_entry_points", n_entries, 12 if is_async else 6, cfg)



def check_removed_is_absent(cfg, w, rep):
    prog = w.prog
    # ---- (e) a removed key is not found by reads, metadata and listing: the tombstone these entry points append is
    #      honoured by every lookup (C05 b: last record wins, a None-integrity record clears) and by the listing
    #      (C10 b/d: last-wins de-duplication by key, tombstones dropped after it) ----
    from ..framework import Report
    from . import c05, c10
    for mod, tag, rules in ((c05, "e-lookup", ("b-full-traversal", "b-decision-table", "b-stream", "b-returns-fold")),
                            (c10, "e-listing", None)):
        sub = Report(mod.PROP)
        if mod is c05:
            for p_ in sorted(find_fns(w)):
                c05.check_find(cfg, w, sub, prog.fns[p_])
        else:
            c10.check_config(cfg, w, sub)
        for (c_, rule, k, desc, ok) in sub.obligations:
            if ok:
                rep.ob(cfg, "%s/%s" % (tag, rule), k, desc)
        for k, v in sub.violations.items():
            rep.violation("%s:%s" % (tag, k), "a removed key could still be found — " + v.msg, loc=v.loc, config=cfg,
                          rule="%s/%s" % (tag, v.rule or ""), witness=v.witness)


def check_set(cfg, w, fw, rep, lf, may, must, what, want_key=False, want_sri=False):
    key = fn_key(lf)
    effs = entry_effects(w, fw, lf)
    seen = set()
    for e, role, c in effs:
        sh = shape(c)
        item = (e.kind, role, sh)
        seen.add(item)
        l = leaf(c)
        if item not in may:
            rep.violation("extra:%s:%s:%s" % (key, e.kind, sh),
                          "%s `%s` can also perform %s on %s (in `%s`): a removal must touch nothing but what it names" % (
                              what, short(lf.path), e.kind, sh, short(effect_fn(w, e).path)), loc=e.loc(), config=cfg, rule="upper-bound")
            continue
        if l[0] == "Entry" and fw.entry_role(l) != "cache":
            rep.violation("root:%s:%s" % (key, e.kind), "%s `%s`: %s is rooted at parameter #%d, not the cache directory" % (
                what, short(lf.path), sh, l[2]), loc=e.loc(), config=cfg, rule="upper-bound")
            continue
        # the bucket / content address is selected by this entry point's own key / integrity, unchanged
        cur = c
        while cur[0] in ("Handle", "Parent"):
            cur = cur[1]
        if cur[0] == "Bucket":
            i = ident_param(w, fw, cur[2], lf)
            if i is None or param_kind(lf, i) != "key":
                rep.violation("key:%s:%s" % (key, e.kind),
                              "%s `%s` addresses the bucket of %s instead of its own key parameter unchanged" % (
                                  what, short(lf.path), term_str(cur[2])[:80]), loc=e.loc(), config=cfg, rule="names-what-it-removes")
                continue
        if cur[0] == "Content":
            t = cur[2]
            i = ident_param(w, fw, t, lf)
            if i is not None and param_kind(lf, i) == "integrity":
                pass
            elif is_lookup_integrity(w, fw, t, lf):
                pass
            else:
                rep.violation("sri:%s:%s" % (key, e.kind),
                              "%s `%s` removes the content at %s, which is neither its integrity parameter nor the integrity found for its key" % (
                                  what, short(lf.path), term_str(t)[:100]), loc=e.loc(), config=cfg, rule="names-what-it-removes")
                continue
        rep.ob(cfg, "upper-bound", "%s:%s:%s" % (key, e.kind, sh), "%s `%s`: %s on %s is within the allowed set" % (what, short(lf.path), e.kind, sh))
    for item in must:
        if item in seen:
            rep.ob(cfg, "lower-bound", "%s:%s:%s" % (key, item[0], item[2]), "%s `%s` does perform %s on %s" % (what, short(lf.path), item[0], item[2]))
        else:
            rep.violation("missing:%s:%s:%s" % (key, item[0], item[2]),
                          "%s `%s` never performs %s on %s: it does not remove what it names" % (what, short(lf.path), item[0], item[2]),
                          loc=lf.body.loc(), config=cfg, rule="lower-bound")


def is_lookup_integrity(w, fw, t, lf):
    """t == lookup(cache, key)....integrity with (cache, key) the entry point's own parameters."""
    if t[0] != "call":
        return False
    g = w.prog.fns.get(t[1])
    if g is None:
        return False
    # the callee is (or wraps) an index lookup
    ok_fn = g.path in find_fns(w) or any(h.path in find_fns(w) for h in w.reach_fns(g))
    if not ok_fn:
        return False
    pth = [e for e in t[3] if e != ("await",)]
    if not pth or pth[-1][0] != "f" or pth[-1][1] != "integrity":
        return False
    if len(t[2]) < 2:
        return False
    ci = ident_param(w, fw, t[2][0], lf)
    ki = ident_param(w, fw, t[2][1], lf)
    return ci is not None and ki is not None and param_kind(lf, ci) == "path" and param_kind(lf, ki) == "key"


def check_tombstone_value(cfg, w, rep, lf):
    """Reaches an INDEX_INSERT only with a constant None integrity (decided in detail under C04 c2)."""
    prog = w.prog
    n = 0
    for f in w.reach_fns(lf):
        for b, blk, t, g in prog.local_calls(f):
            if g.path in w.roles.index_inserts:
                n += 1
                optt = options_value(w, b, t.args[2])
                if is_tombstone_options(optt):
                    rep.ob(cfg, "tombstone", fn_key(lf), "`%s` appends a None-integrity record" % short(lf.path))
                else:
                    rep.violation("tombstone:%s" % fn_key(lf), "`%s` appends a record that is not a tombstone" % short(lf.path),
                                  loc=span_str(t.span), config=cfg, rule="tombstone")
    if n == 0:
        rep.violation("tombstone-none:%s" % fn_key(lf), "`%s` never appends a tombstone" % short(lf.path), loc=lf.body.loc(), config=cfg, rule="tombstone")


def check_remove_fully(cfg, w, fw, rep, lf):
    """The flag separates the two documented behaviours: file removals only on remove_fully==true, tombstone only on false."""
    prog = w.prog
    body = lf.body
    key = fn_key(lf)

    def is_flag(o):
        return o.kind == "field" and o.info[1] == "remove_fully" and not o.path
    gt = bool_gates(prog, body, is_flag, True)
    gf = bool_gates(prog, body, is_flag, False)
    if not gt or not gf:
        rep.violation("flag:%s" % key, "`%s` does not branch on its remove_fully flag" % short(lf.path), loc=body.loc(), config=cfg, rule="remove-fully-arms")
        return
    rm_blocks = [e.blk for e in w.own_effects(lf) if e.kind == "RemoveFile" and e.body is body]
    tomb_blocks = []
    for b, blk, t, g in prog.local_calls(lf):
        if b is body and any(h.path in w.roles.index_inserts for h in w.reach_fns(g)):
            tomb_blocks.append(blk.i)
    bad1 = unreachable_without(prog, body, gt, rm_blocks)
    bad2 = unreachable_without(prog, body, gf, tomb_blocks)
    if bad1:
        rep.violation("flag-rm:%s" % key, "`%s` can delete files although remove_fully is false" % short(lf.path),
                      loc=blk_loc(body, bad1[0][0]), config=cfg, rule="remove-fully-arms")
    elif bad2:
        rep.violation("flag-tomb:%s" % key, "`%s` appends a tombstone although remove_fully is true" % short(lf.path),
                      loc=blk_loc(body, bad2[0][0]), config=cfg, rule="remove-fully-arms")
    elif len(rm_blocks) >= 2 and tomb_blocks:
        rep.ob(cfg, "remove-fully-arms", key, "`%s`: %d file removals only under remove_fully==true, tombstone only under false" % (short(lf.path), len(rm_blocks)))
        # ... and the full removal is complete whenever it reports success: from the remove_fully==true edge no success
        # return is reachable without passing the removal of the bucket file, nor without passing the removal of the content
        cf = prog.cfg(body)
        succ = [rd for rd in ret_defs(prog, body) if rd.cls in ("success", "unknown", "delegated")]
        for what, shape_ in (("index bucket", "Bucket"), ("content file", "Content")):
            blks = {e.blk for e in w.own_effects(lf) if e.kind == "RemoveFile" and e.body is body
                    and (e.classes.get("path") or ("?",))[0] == shape_}
            cut_edges = set()
            if shape_ == "Content":
                # no content to remove when the lookup of the key found nothing: the None arm of that lookup is the one bypass
                ff = find_fns(w)

                def is_lookup(o):
                    if o.kind != "call" or o.callee is None:
                        return False
                    h = prog.callee_fn(o.term)
                    return h is not None and (h.path in ff or any(x.path in ff for x in w.reach_fns(h)))
                for mg in match_gates(prog, body, is_lookup, "Some"):
                    cut_edges |= set(mg.other_edges)
            reach = set()
            for g in gt:
                reach |= cf.reachable(g.edge[1], cut_nodes=blks, cut_edges=cut_edges)
            bad = [rd for rd in succ if rd.blk in reach]
            if bad or not blks:
                rep.violation("fully-incomplete:%s:%s" % (key, shape_),
                              "`%s` can report a successful full removal without having removed the %s (success return at %s): the key "
                              "would still be found / its content still stored" % (short(lf.path), what, blk_loc(body, bad[0].blk) if bad else "?"),
                              loc=blk_loc(body, bad[0].blk) if bad else body.loc(), config=cfg, rule="remove-fully-complete")
            else:
                rep.ob(cfg, "remove-fully-complete", "%s.%s" % (key, shape_), "every successful full removal in `%s` passes the removal of the %s" % (short(lf.path), what))
    else:
        rep.violation("flag-shape:%s" % key, "`%s`: expected two file removals and one tombstone path (found %d/%d)" % (short(lf.path), len(rm_blocks), len(tomb_blocks)),
                      loc=body.loc(), config=cfg, rule="remove-fully-arms")


def check_clear_loop(cfg, w, rep, lf):
    """The removal runs for every child: it sits in a loop over read_dir(cache) whose only non-error exit is the
    iterator's end."""
    prog = w.prog
    key = fn_key(lf)
    for f in w.reach_fns(lf):
        for e in w.own_effects(f):
            if e.kind != "RemoveDirAll":
                continue
            body = e.body
            cf = prog.cfg(body)
            loops = [(h, bl) for h, bl in cf.loops() if e.blk in bl]
            if not loops and body.def_kind == "Closure":
                # `read_dir(cache)?.try_for_each(|entry| { ..; remove_dir_all(entry?.path()) })`: the adaptor hands every entry
                # to the closure and stops only when the closure fails; inside the closure every return that is not a failure
                # passes the removal
                ad = w.inv.adaptor_of(body.path)
                from ..symval import walk as _walk
                if ad is not None and ad[0].rsplit("::", 1)[-1] in ("try_for_each", "for_each") and any(
                        st_[0] == "call" and norm_callee(st_[1]) in ("std::path::Path::read_dir", "std::fs::read_dir") for st_ in _walk(ad[1])):
                    rds_ = [rd for rd in ret_defs(prog, body) if rd.cls in ("success", "unknown", "delegated")]
                    reach_ = cf.reachable(0, cut_nodes={e.blk})
                    skipping = [rd for rd in rds_ if rd.blk in reach_ and rd.blk != e.blk]
                    if skipping:
                        rep.violation("clear-skips:%s" % key,
                                      "`%s`: the closure run for each child of the cache can return without a failure and without removing the child (at %s): "
                                      "clear would report success and leave entries behind" % (short(lf.path), blk_loc(body, skipping[0].blk)),
                                      loc=e.loc(), config=cfg, rule="clear-all-children")
                    else:
                        rep.ob(cfg, "clear-all-children", fn_key(f), "`%s` hands every child of read_dir to a closure that removes it or fails" % short(f.path))
                    continue
            if not loops:
                rep.violation("clear-loop:%s" % key, "`%s` removes a single child instead of iterating over the directory" % short(lf.path),
                              loc=e.loc(), config=cfg, rule="clear-all-children")
                continue
            h, bl = max(loops, key=lambda x: len(x[1]))
            from .c01 import _only_fails
            exits = [(u, v) for u in bl for v in cf.succ[u] if v not in bl]
            ok = True
            n_ok = 0
            for (u, v) in exits:
                if _only_fails(prog, body, v):
                    continue
                tu = body.blocks[u].term
                good = False
                if tu.k == "switch" and tu.discr.place is not None:
                    for o in prog.resolve_pl(body, tu.discr.place, IDENT):
                        if o.kind == "discr":
                            pl = o.info.place
                            src = prog.resolve_lifted(body, pl.local, norm_path(pl), IDENT, at=u)
                            if src and all(x.kind == "call" and x.callee is not None and x.callee.path == "std::iter::Iterator::next" for x in src):
                                if switch_target(tu, VIDX["None"]) == v:
                                    good = True
                if good:
                    n_ok += 1
                else:
                    ok = False
            # every child the iterator yields is removed: inside the loop, the back edge is not reachable from the header
            # without passing the removal (no `continue` that skips some kinds of entries)
            back = [u for u in bl if h in cf.succ[u]]
            inner = cf.reachable(h, cut_nodes=(set(cf.live()) - set(bl)) | {e.blk})
            skipped = [u for u in back if u in inner]
            if skipped:
                ok = False
                rep.violation("clear-skips:%s" % key,
                              "`%s`: an iteration of the loop over the cache's children can go round without removing the child (at %s): "
                              "clear would report success and leave entries behind" % (short(lf.path), e.loc()),
                              loc=e.loc(), config=cfg, rule="clear-all-children")
            if ok and n_ok == 1:
                rep.ob(cfg, "clear-all-children", fn_key(f), "removal loop in `%s` ends only when read_dir is exhausted (or on error)" % short(f.path))
            elif not skipped:
                rep.violation("clear-early-exit:%s" % key, "`%s`: the loop over the cache's children can stop before the directory is exhausted" % short(lf.path),
                              loc=e.loc(), config=cfg, rule="clear-all-children")


def check_key_removal_always_acts(cfg, w, rep, lf):
    """A key removal that reports success has appended its tombstone (or, for a full removal, unlinked the bucket): no success
    return of the entry point is reachable without passing one of those steps — no "the key is absent anyway" fast path (the
    absence may rest on a single earlier record, and a second removal must be as durable as the first)."""
    prog = w.prog
    body = lf.body
    key = fn_key(lf)
    acts = set()
    for b, blk, t, g in prog.local_calls(lf):
        if b is body and (g.path in w.roles.index_inserts or any(h.path in w.roles.index_inserts for h in w.reach_fns(g))):
            acts.add(blk.i)
    for e in w.own_effects(lf):
        if e.body is body and e.kind == "RemoveFile" and (e.classes.get("path") or ("?",))[0] == "Bucket":
            acts.add(e.blk)
    if not acts:
        return
    succ = [rd for rd in ret_defs(prog, body) if rd.cls in ("success", "unknown", "delegated") and rd.blk not in acts]
    reach = prog.cfg(body).reachable(0, cut_nodes=acts)
    bad = [rd for rd in succ if rd.blk in reach]
    if bad:
        rep.violation("removal-noop:%s" % key,
                      "key removal `%s` can report success without appending a tombstone or unlinking the bucket (return at %s)" % (
                          short(lf.path), blk_loc(body, bad[0].blk)), loc=blk_loc(body, bad[0].blk), config=cfg, rule="lower-bound")
    else:
        rep.ob(cfg, "lower-bound", key + ".always-acts", "every success return of `%s` passes the tombstone append / bucket removal" % short(lf.path))


def check_removal_on_every_success_path(cfg, w, rep, lf, kind, shape_, what):
    """The removal is not only *reachable* from the entry point: in the function that performs it, no success return can be
    reached without passing it (no early `return Ok(())` when some probe says there is nothing to do — a dangling link_to
    symlink, for one, is "not there" for exists() and still occupies the address)."""
    prog = w.prog
    key = fn_key(lf)
    owners = {}
    for e in w.reach_effects(lf):
        if e.kind == kind and (e.classes.get("path") or ("?",))[0] in (shape_, "Param"):
            owners.setdefault(prog.owner_fn(e.body).path, []).append(e)
    for fp, effs in sorted(owners.items()):
        f = prog.fns[fp]
        body = f.body
        blks = {e.blk for e in effs if e.body is body}
        if not blks:
            continue
        succ = [rd for rd in ret_defs(prog, body) if rd.cls in ("success", "unknown", "delegated")]
        reach = prog.cfg(body).reachable(0, cut_nodes=blks)
        bad = [rd for rd in succ if rd.blk in reach]
        if bad:
            rep.violation("removal-skipped:%s:%s" % (key, short(fp)),
                          "`%s` (behind `%s`) can report success without having removed the %s (return at %s): what was named would "
                          "still be there" % (short(fp), short(lf.path), what, blk_loc(body, bad[0].blk)), loc=blk_loc(body, bad[0].blk),
                          config=cfg, rule="lower-bound")
        else:
            rep.ob(cfg, "lower-bound", "%s.every-path:%s" % (key, short(fp)), "every success return of `%s` passes the removal of the %s" % (short(fp), what))
