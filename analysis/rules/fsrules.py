"""Shared filesystem-provenance machinery for C03 / C07 / C09 / C15 / C19."""
import re

from .common import *
from ..provenance import Expander, leaf, shape, entry_str, WRAPPERS

# (effect kind, role) -> allowed expanded shapes; "Entry" = a path-like parameter of a public entry point.
# The leaf's required role is given separately: "cache" (first path-like parameter) or "other"
# (an explicit destination / link target parameter).
ALLOWED = {
    ("CreateDir", "path"): {"Join(Entry,'tmp')": "cache", "Parent(Content(Entry))": "cache", "Parent(Bucket(Entry))": "cache"},
    ("CreateTemp", "path"): {"Join(Entry,'tmp')": "cache"},
    ("Persist", "handle"): {"TempIn(Join(Entry,'tmp'))": "cache"},
    ("Persist", "dst"): {"Content(Entry)": "cache"},
    ("WriteData", "handle"): {"TempIn(Join(Entry,'tmp'))": "cache", "Mmap(TempIn(Join(Entry,'tmp')))": "cache",
                              "Handle(Bucket(Entry))": "cache", "Handle(Entry)": "dest", "Handle(Content(Entry))": "cache"},
    ("Fallocate", "handle"): {"TempIn(Join(Entry,'tmp'))": "cache"},
    ("HandleMut", "handle"): {"TempIn(Join(Entry,'tmp'))": "cache",      # set_len on the private temp file
                              "Handle(Bucket(Entry))": "cache", "Handle(Content(Entry))": "cache"},   # (confined; C04 / C03 object to them)
    ("Open", "path"): {"Bucket(Entry)": "cache", "Entry": "dest", "Content(Entry)": "cache"},
    ("RemoveFile", "path"): {"Content(Entry)": "cache", "Bucket(Entry)": "cache", "Entry": "dest"},
    ("RemoveDirAll", "path"): {"Child(Entry)": "cache"},
    ("Copy", "src"): {"Content(Entry)": "cache"},
    ("Copy", "dst"): {"Entry": "other", "Content(Entry)": "cache"},      # (into a content address: confined; whether allowed at all is C03's business)
    ("Reflink", "src"): {"Content(Entry)": "cache"},
    ("Reflink", "dst"): {"Entry": "other", "Content(Entry)": "cache"},
    ("HardLink", "src"): {"Content(Entry)": "cache"},
    ("HardLink", "dst"): {"Entry": "other", "Content(Entry)": "cache"},
    ("Symlink", "src"): {"Abs(Entry)": "other"},      # the link target, made absolute (a relative one would dangle)
    ("Symlink", "dst"): {"Content(Entry)": "cache"},
}


class FsWorld:
    """Expanded classes of every effect of one configuration, computed once."""

    _cache = {}

    @classmethod
    def get(cls, w):
        k = id(w)
        r = cls._cache.get(k)
        if r is None:
            r = FsWorld(w)
            cls._cache[k] = r
        return r

    def __init__(self, w):
        self.w = w
        self.x = Expander(w)
        self.exp = {}      # id(effect) -> {role: set(expanded classes)}
        for e in w.inv.effects:
            d = {}
            for role, c in e.classes.items():
                d[role] = self.x.expand(c)
            self.exp[id(e)] = d

    def expanded(self, e):
        return self.exp.get(id(e), {})

    def entry_role(self, c):
        """For an Entry leaf: 'cache' if it is the first path-like parameter of its function, 'other' if it is a
        later path-like parameter, else 'nonpath'."""
        lf = self.w.prog.fns.get(c[1])
        if lf is None:
            return "nonpath"
        pl = self.w.path_like_params(lf)
        if not pl:
            return "nonpath"
        if c[2] == pl[0]:
            return "cache"
        if c[2] in pl:
            return "other"
        return "nonpath"


def effect_fn(w, e):
    return w.prog.owner_fn(e.body)


def check_effect_confined(w, fw, e, rep, cfg, rule, prop_prefix):
    """Every expanded class of every path/handle role of mutating effect `e` is in the ALLOWED table."""
    lf = effect_fn(w, e)
    ok_all = True
    n = 0
    for role, classes in fw.expanded(e).items():
        allowed = ALLOWED.get((e.kind, role))
        for c in classes:
            n += 1
            lf_c = leaf(c)
            sh = shape(c)
            if lf_c[0] == "Dead":
                continue
            through_link = ("link_to" in cfg and (e.kind, role, sh) in (
                ("Copy", "dst", "Content(Entry)"), ("Reflink", "dst", "Content(Entry)"), ("Open", "path", "Content(Entry)"),
                ("WriteData", "handle", "Handle(Content(Entry))"), ("HandleMut", "handle", "Handle(Content(Entry))"))
                and (e.kind != "Open" or e.mutating))
            if through_link:
                ok_all = False
                rep.violation("%s:%s:%s:%s:through-link" % (prop_prefix, fn_key(lf), e.kind, role),
                              "`%s` performs %s *through* a content address: with link_to a content address can be a symlink to a file of the "
                              "caller's, so the bytes land outside the cache (or in a file recreated at a deleted target)" % (short(lf.path), e.kind),
                              loc=e.loc(), config=cfg, rule=rule)
                continue
            if allowed is None or sh not in allowed:
                ok_all = False
                rep.violation("%s:%s:%s:%s:%s" % (prop_prefix, fn_key(lf), e.kind, role, sh),
                              "`%s` performs %s whose %s is %s (%s): not inside the caller's cache directory structure "
                              "(allowed for %s.%s: %s)" % (short(lf.path), e.kind, role, sh, entry_str(c)[:100], e.kind, role,
                                                           ", ".join(sorted(allowed)) if allowed else "nothing"),
                              loc=e.loc(), config=cfg, rule=rule)
                continue
            want = allowed[sh]
            got = fw.entry_role(lf_c) if lf_c[0] == "Entry" else lf_c[0]
            if want == "dest":
                # "the destination explicitly given to an extraction call": a later path parameter of an entry point
                # that is not a link_to call (whose second path is the link target, never to be written: C19)
                want = "other"
                if got == "other" and lf_c[1] in w.roles.symlink_reach:
                    got = "link-target"
            if got != want:
                ok_all = False
                rep.violation("%s:%s:%s:%s:root-%s" % (prop_prefix, fn_key(lf), e.kind, role, got),
                              "`%s` performs %s on %s rooted at %s, which is %s rather than the %s parameter of a public entry point" % (
                                  short(lf.path), e.kind, sh, entry_str(lf_c)[:80], got,
                                  "cache-directory" if want == "cache" else "explicit destination/target"),
                              loc=e.loc(), config=cfg, rule=rule)
    return ok_all, n


def arg_sources(w, lf, i, depth=0, seen=None):
    """Follow parameter `i` of `lf` up the call graph until the passed term is no longer a bare parameter of the
    caller; returns [(caller LogicalFn, body, block, term)]."""
    prog = w.prog
    seen = seen or set()
    if (lf.path, i) in seen or depth > 6:
        return []
    seen.add((lf.path, i))
    out = []
    for (g, b, blk, t) in prog.callers_of(lf):
        if i >= len(t.args):
            continue
        tm = w.sym.of_operand(b, t.args[i])
        if tm[0] == "param" and tm[1] == g.path and not tm[3]:
            out.extend(arg_sources(w, g, tm[2], depth + 1, seen))
        else:
            out.append((g, b, blk, tm))
    return out
