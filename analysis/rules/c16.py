"""C16 — addresses are pure digests; algorithms coexist."""
import re

from .common import *
from ..framework import Report
from ..symval import walk, teq
from ..world import strip_refs
from . import c01, c03

PROP = "C16"
FROM_C01 = ("R4b-ctor", "R2-source", "R2-same-buffer")
FROM_C03 = ("a-who-writes-content", "f-trim-before-publish")


def run(ctx, rep):
    for cfg, w in ctx.worlds():
        check_config(cfg, w, rep)
    return rep


def _import(cfg, rep, sub, rules, tag):
    for (c, rule, key, desc, ok) in sub.obligations:
        if rule in rules and ok:
            rep.ob(cfg, "%s/%s" % (tag, rule), key, desc)
    for k, v in sub.violations.items():
        if v.rule in rules:
            rep.violation("%s:%s" % (tag, k), v.msg, loc=v.loc, config=cfg, rule="%s/%s" % (tag, v.rule), witness=v.witness)


_SALT_TY = re.compile(r"(std::path::PathBuf|std::string::String|put::WriteOpts|^u128$|serde_json::Value|ssri::Integrity$|ssri::Integrity>|std::vec::Vec<u8>>)")


def _salt_field(w, owner, name):
    """A field whose value must not reach a digest: paths, keys, options, counters, times, metadata, addresses (by type).
    Buffers, file handles, mappings, readers / writers / linkers and the state machine are what the data flows through."""
    for (_, fn_, fty_) in w.adt_fields(owner) or w.adt_fields(owner.rsplit("::", 1)[0]):
        if fn_ == name:
            return bool(_SALT_TY.search(fty_.lstrip("&").replace("mut ", "")))
    return name in ("cache", "key", "opts", "written")


def is_default_algo(t):
    """alt(field WriteOpts.algorithm as Some.0 | Algorithm::Sha256)"""
    alts = set(t[1]) if t[0] == "alt" else {t}
    has_field = any(a[0] == "field" and a[1] == "put::WriteOpts" and a[2] == "algorithm" for a in alts)
    has_def = any(a[0] == "agg" and a[1] == "ssri::Algorithm" and a[2] == "Sha256" for a in alts)
    return has_field and has_def and len(alts) == 2


def check_config(cfg, w, rep):
    prog = w.prog
    is_async = not cfg.startswith("sync")
    # ---- (a) the digest builder is created with the caller's algorithm ----
    # builder construction sites: IntegrityOpts::algorithm(IntegrityOpts::new(), <algo>)
    n_b = 0
    ctor_fns = {}
    for b in prog.bodies:
        for blk, t in b.calls():
            if t.callee is not None and t.callee.path == "ssri::IntegrityOpts::algorithm" and blk.i in prog.cfg(b).live():
                n_b += 1
                lf = prog.owner_fn(b)
                at = w.sym.of_operand(b, t.args[1])
                base = w.sym.of_operand(b, t.args[0])
                ins = lf.outer.j.get("sig_inputs", [])
                ai = [i for i, ty in enumerate(ins) if ty == "ssri::Algorithm"]
                if len(ai) == 1 and at == ("param", lf.path, ai[0], ()) and base[0] == "call" and base[1] == "ssri::IntegrityOpts::new":
                    ctor_fns[lf.path] = ai[0]
                    rep.ob(cfg, "a-builder-algo", fn_key(lf), "`%s` builds IntegrityOpts::new().algorithm(<its algo parameter>)" % short(lf.path))
                else:
                    rep.violation("a-builder:%s" % fn_key(lf), "`%s` builds its digest with %s instead of the algorithm it was given" % (
                        short(lf.path), term_str(at)[:60]), loc=span_str(t.span), config=cfg, rule="a-builder-algo")
    rep.floor("builder_sites", n_b, 1, cfg)
    # callers of those constructors pass opts.algorithm.unwrap_or(Sha256)
    n_o = 0
    for p, ai in ctor_fns.items():
        g = prog.fns[p]
        for (lf, b, blk, t) in prog.callers_of(g):
            n_o += 1
            at = w.sym.of_operand(b, t.args[ai])
            if not is_default_algo(at):
                from ..symval import inline_private_calls
                roles_ = set(w.roles.hash_fns) | set(w.roles.bucket_path) | set(w.roles.content_path)
                at = inline_private_calls(w.sym, prog, at, skip=roles_)
            if is_default_algo(at):
                rep.ob(cfg, "a-opts-algo", "%s->%s" % (fn_key(lf), short(p)), "`%s` passes opts.algorithm.unwrap_or(Sha256)" % short(lf.path))
            else:
                rep.violation("a-opts-algo:%s" % fn_key(lf), "`%s` creates its content writer with algorithm %s instead of the requested one (default SHA-256)" % (
                    short(lf.path), term_str(at)[:80]), loc=span_str(t.span), config=cfg, rule="a-opts-algo")
    rep.floor("writer_open_sites", n_o, 2, cfg)
    # the algorithm setter and the *_with_algo entry points
    n_w = 0
    for lf in prog.fns.values():
        name = lf.path.replace("::{closure#0}", "")
        if not re.search(r"_with_algo(::inner)?$", name):
            continue
        ins = lf.outer.j.get("sig_inputs", [])
        ai = [i for i, ty in enumerate(ins) if ty == "ssri::Algorithm"]
        if not ai:
            continue
        forwards = 0
        for b, blk, t, g in prog.local_calls(lf):
            gi = [i for i, ty in enumerate(g.outer.j.get("sig_inputs", [])) if ty == "ssri::Algorithm"]
            if gi and w.sym.of_operand(b, t.args[gi[0]]) == ("param", lf.path, ai[0], ()):
                forwards += 1
        if forwards == 0:
            rep.violation("a-with-algo-unused:%s" % fn_key(lf), "`%s` never passes its algorithm parameter on: the data would be hashed with the default algorithm instead of the requested one" % short(lf.path),
                          loc=lf.body.loc(), config=cfg, rule="a-with-algo")
        for b, blk, t, g in prog.local_calls(lf):
            gi = [i for i, ty in enumerate(g.outer.j.get("sig_inputs", [])) if ty == "ssri::Algorithm"]
            if not gi:
                continue
            n_w += 1
            at = w.sym.of_operand(b, t.args[gi[0]])
            if at == ("param", lf.path, ai[0], ()):
                rep.ob(cfg, "a-with-algo", "%s->%s" % (fn_key(lf), short(g.path)), "`%s` forwards its algorithm parameter unchanged" % short(lf.path))
            else:
                rep.violation("a-with-algo:%s" % fn_key(lf), "`%s` passes %s instead of the requested algorithm" % (short(lf.path), term_str(at)[:60]),
                              loc=span_str(t.span), config=cfg, rule="a-with-algo")
    rep.floor("with_algo_forwarding", n_w, 4 if is_async else 2, cfg)

    # ---- (b) the digest covers the written bytes only (not salted) ----
    n_in = 0
    digest_params = set()
    from .c14 import temp_types
    # state of the content layer itself (staging buffer, file handle, mapping, state machine) — not the keyed wrappers
    tt = {a for a in temp_types(w) if a.startswith("content::")} | {"content::linkto::ToLinker", "content::linkto::AsyncToLinker"}
    for b in prog.bodies:
        lf = prog.owner_fn(b)
        for blk, t in b.calls():
            if t.callee is None or t.callee.path != "ssri::IntegrityOpts::input" or blk.i not in prog.cfg(b).live():
                continue
            n_in += 1
            dep = prog.resolve_op(b, t.args[1], DEPEND, blk.i)
            bad = []
            for o in dep:
                if o.kind == "field":
                    owner = o.info[0]
                    base_owner = owner if owner in tt else owner.rsplit("::", 1)[0]
                    # fields of the content writer's own state (staging buffer, file handle, mapping, state machine)
                    # (which fields are "state" is judged by their type, not their name: the cache path, the key, the options
                    #  and the byte counters are what must not reach the digest)
                    if (owner in tt or base_owner in tt) and not _salt_field(w, owner, o.info[1]):
                        continue
                    bad.append(repr(o))
                elif o.kind == "param":
                    pi = prog.param_index(o)
                    ty = ""
                    if pi is not None:
                        ins = pi[0].outer.j.get("sig_inputs", [])
                        ty = ins[pi[1]] if pi[1] < len(ins) else ""
                    if not re.search(r"(\[u8\]|ReadBuf|^&mut Self$|^&mut |Pin<&mut|Context<)", ty) and "self" not in repr(o):
                        bad.append("%s: %s" % (origin_desc(prog, o), ty))
            if bad:
                rep.violation("b-salted:%s" % fn_key(lf), "`%s` feeds the digest with data depending on %s: the address would not be a pure digest of the bytes" % (
                    short(lf.path), bad[:3]), loc=span_str(t.span), config=cfg, rule="b-digest-input-pure")
            else:
                rep.ob(cfg, "b-digest-input-pure", "%s@%s" % (fn_key(lf), b.path.rsplit("::", 1)[-1]), "digest input in `%s` depends only on the data buffer and I/O amounts" % short(lf.path))
            # the buffer parameters that reach the digest
            for o in dep:
                if o.kind == "param":
                    pi = prog.param_index(o)
                    if pi is not None and re.search(r"\[u8\]", (pi[0].outer.j.get("sig_inputs", []) + [""] * 8)[pi[1]]):
                        digest_params.add((pi[0].path, pi[1]))
    rep.floor("digest_input_sites", n_in, 2 if is_async else 1, cfg)
    # every caller up the call graph passes such a buffer parameter only caller-supplied bytes
    seen = set()
    work = list(digest_params)
    n_up = 0
    while work:
        fp, pi_ = work.pop()
        if (fp, pi_) in seen:
            continue
        seen.add((fp, pi_))
        g = prog.fns.get(fp)
        if g is None:
            continue
        sites = [(lf2, b2, blk2, t2) for (lf2, b2, blk2, t2) in prog.callers_of(g)]
        # trait dispatch through provided methods (write_all -> write, AsyncWriteExt::write_all -> poll_write)
        for lf2 in prog.fns.values():
            if g in w.callees(lf2):
                for b2, blk2, t2 in prog.call_sites(lf2):
                    if t2.callee is not None and re.search(r"(Write|AsyncWriteExt)::(write_all|write)$", t2.callee.path) and \
                            strip_refs(t2.callee.self_ty or "") == strip_refs(g.outer.impl_self or "?"):
                        sites.append((lf2, b2, blk2, t2))
        for (lf2, b2, blk2, t2) in sites:
            ai = pi_ if t2.callee is not None and prog.callee_fn(t2) is g else len(t2.args) - 1
            if ai >= len(t2.args):
                continue
            n_up += 1
            dep2 = prog.resolve_op(b2, t2.args[ai], DEPEND, blk2.i)
            bad = []
            for o in dep2:
                if o.kind == "field" and not (not _salt_field(w, o.info[0], o.info[1]) or o.info[0] in tt or o.info[0].rsplit("::", 1)[0] in tt):
                    bad.append(repr(o))
                elif o.kind == "param":
                    q = prog.param_index(o)
                    ty = (q[0].outer.j.get("sig_inputs", []) + [""] * 8)[q[1]] if q is not None else ""
                    if re.search(r"\[u8\]", ty) or re.fullmatch(r"[A-Z]\w*", ty):
                        if q is not None and re.search(r"\[u8\]", ty):
                            work.append((q[0].path, q[1]))
                    elif not re.search(r"(^&mut |Pin<&mut|Context<|Algorithm)", ty):
                        bad.append("%s: %s" % (origin_desc(prog, o), ty))
                elif o.kind == "call" and o.callee is not None and re.search(r"(as_bytes|to_string|format)$", o.callee.path):
                    bad.append(repr(o))
            if bad:
                rep.violation("b-salted-caller:%s" % fn_key(lf2), "`%s` sends bytes derived from %s into the content writer: the address would not be a pure digest of the caller's data" % (
                    short(lf2.path), bad[:3]), loc=span_str(t2.span), config=cfg, rule="b-digest-input-pure")
            else:
                rep.ob(cfg, "b-digest-input-pure", "%s->%s" % (fn_key(lf2), short(fp)), "`%s` passes only caller-supplied bytes down to the digest" % short(lf2.path))
    rep.floor("digest_buffer_call_sites", n_up, 2, cfg)

    # ---- (c) the address handed back is the computed (or matching declared) one ----
    for p in w.roles.index_inserts:
        lf = prog.fns[p]
        t = w.sym.of_place(lf.body, 0, (("v", "Ok"), ("f", "0")))
        s = term_str(t)
        if "put::WriteOpts.sri" in s or ("WriteOpts.sri" in s):
            rep.ob(cfg, "c-returned-address", fn_key(lf), "`%s` returns the integrity it indexed (opts.sri)" % short(lf.path))
        else:
            rep.violation("c-returned:%s" % fn_key(lf), "`%s` returns %s, not the integrity it indexed" % (short(lf.path), s[:80]),
                          loc=lf.body.loc(), config=cfg, rule="c-returned-address")
    for p in w.roles.commits:
        lf = prog.fns[p]
        for rd in ret_defs(prog, lf.body):
            if rd.cls == "success":
                pay = prog.resolve_lifted(lf.body, 0, (("v", "Ok"), ("f", "0")), IDENT, at=rd.blk)
                from .c08 import publication_origin
                if pay and all(publication_origin(w, o) for o in pay):
                    rep.ob(cfg, "c-returned-address", fn_key(lf), "`%s` returns the publication's computed digest" % short(lf.path))
                else:
                    rep.violation("c-returned:%s" % fn_key(lf), "`%s` returns %s instead of the computed digest" % (short(lf.path), sorted(map(repr, pay))[:2]),
                                  loc=blk_loc(lf.body, rd.blk), config=cfg, rule="c-returned-address")

    # one-shot writers hand back exactly what their commit returned (no history-dependent shortcut)
    n_os = 0
    for lf in prog.fns.values():
        nm = lf.path.replace("::{closure#0}", "")
        if not re.search(r"^put::write(_hash)?(_sync)?_with_algo::inner$", nm):
            continue
        n_os += 1
        bad = []
        for rd in ret_defs(prog, lf.body):
            if rd.cls in ("failure", "neutral"):
                continue
            g = None
            if rd.cls == "delegated" and rd.origin is not None and rd.origin.callee is not None:
                g = prog.callee_fn(rd.origin.term)
            if g is None or g.path not in w.roles.commits:
                bad.append(rd)
        if bad:
            rep.violation("c-one-shot-returns:%s" % fn_key(lf),
                          "`%s` can return an address that is not the result of its own commit (%s): the address would depend on what the cache already "
                          "contains, not only on (algorithm, bytes)" % (short(lf.path), bad[0].detail[:80]), loc=blk_loc(lf.body, bad[0].blk), config=cfg,
                          rule="c-returned-address")
        else:
            rep.ob(cfg, "c-returned-address", fn_key(lf), "`%s` returns exactly its commit's result" % short(lf.path))
    rep.floor("one_shot_writers", n_os, 4 if is_async else 2, cfg)

    # ---- (d) each entry is verified under its own stored/requested integrity; (e) re-publication is the same atomic rename ----
    sub = Report("C01")
    c01.check_config(cfg, w, sub)
    _import(cfg, rep, sub, FROM_C01, "d")
    sub = Report("C03")
    c03.check_config(cfg, w, sub)
    _import(cfg, rep, sub, FROM_C03, "e")
    # ... and it replaces whatever sits at the address, so that all keys of equal data resolve to an intact copy
    from . import c02
    sub = Report("C02")
    c02.check_config(cfg, w, sub)
    _import(cfg, rep, sub, ("d-replacing-rename",), "e")
    # (e') "storing the same bytes again ... leaves the stored copy byte-identical, and all those keys resolve to it": no write,
    #      commit or link path can delete a content file — only the removal API (shared by address)
    check_who_may_remove_content(cfg, w, rep, "e")
    # (b') the address equals the digest of the bytes: what is fed to the digest builder is exactly what was written / read —
    # the digest/sink agreement of the content writers (C02 a) and, with link_to, the exact-slice clause of the linkers' read
    # methods (C19 b), re-checked here
    _import(cfg, rep, sub, ("a-digest-sink", "a-whole-sink"), "b")
    if "link_to" in cfg:
        from . import c19
        sub = Report("C19")
        c19.check_config(cfg, w, sub)
        _import(cfg, rep, sub, ("b-hashes-what-it-reads", "b-input-slice"), "b")
        # (e'') storing bytes the cache already holds through a link_to entry point leaves the stored copy alone: a link is
        # published with symlink(2) only — which fails on an occupied address — never by a rename, copy or write onto the address
        _import(cfg, rep, sub, ("a-never-copies",), "e")
