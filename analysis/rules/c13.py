"""C13 — a failing filesystem operation surfaces as an error: error discipline over every fallible call."""
import re

from .common import *
from ..core import transformer_for
from ..world import strip_refs

PROP = "C13"

# error types whose loss means an I/O-level failure was swallowed
IO_ERR = r"(std::io::Error|errors::Error|tempfile::PersistError|tokio::task::JoinError|walkdir::Error|futures::futures_channel::oneshot::Canceled|futures::channel::oneshot::Canceled)"
FALLIBLE_TY = re.compile(r"Result<.*" + IO_ERR)
# calls that merely transform / forward a Result (never sources)
FORWARDERS = re.compile(
    r"^(std::ops::Try::branch|std::ops::FromResidual::from_residual|errors::IoErrorExt::with_context|"
    r"std::result::Result::<T, E>::(map|map_err|or_else|and_then|ok|err|is_ok|is_err|unwrap|expect|unwrap_or|unwrap_or_else|unwrap_or_default|as_ref|as_mut)|"
    r"std::option::Option::<T>::(ok_or|ok_or_else|map|take|unwrap|as_mut|as_ref)|"
    r"std::convert::(Into::into|From::from)|std::future::IntoFuture::into_future|"
    r"(futures|std::future)::Future::poll|futures::FutureExt::map|std::clone::Clone::clone|"
    r"async_lib::unwrap_joinhandle_value|std::task::Poll::<T>::map|std::iter::once|std::iter::Iterator::(map|collect|flat_map|fold))$")
DISCARD_COMB = re.compile(r"^std::result::Result::<T, E>::(ok|err|is_ok|is_err|unwrap_or|unwrap_or_else|unwrap_or_default|map_or|map_or_else|is_ok_and|is_err_and)$")
ITER_OF_IO_RESULT = re.compile(r"^(std::fs::ReadDir|std::io::Lines<|walkdir::IntoIter|std::io::Bytes<|std::io::Split<|futures::io::Lines<|tokio::io::Lines<|tokio_stream::wrappers::LinesStream<)")
ERR_DROPPING_ADAPTORS = re.compile(r"^std::iter::Iterator::(flatten|filter_map|map_while|flat_map|take_while|skip_while|filter)$")

# Tolerated discards, keyed (owner function, normalised callee, kind); each with its reason.
TOLERATED = {
    ("content::write::make_mmap", "memmap2::MmapMut::map_mut", "ok"):
        "a failed mapping falls back to plain writes on the same temp file",
    ("content::write::make_mmap", "memmap2::MmapMut::map_mut", "matched-and-dropped"):
        "a failed mapping falls back to plain writes on the same temp file (after giving back the pre-allocated space)",
    ("content::write::AsyncWriter::close", "futures::futures_channel::oneshot::Sender::<T>::send", "unused"):
        "send fails only if the receiver is gone, i.e. the caller dropped the close() future",
}


def run(ctx, rep):
    for cfg, w in ctx.worlds():
        check_config(cfg, w, rep)
    return rep


NOT_SOURCES = re.compile(r"^(std::pin::Pin::<Ptr>::(new|new_unchecked|as_mut|get_mut)|std::future::get_context|"
                         r"(async_std|tokio)::task::spawn_blocking|std::iter::Iterator::(?!next$)\w+|"
                         r"std::ops::(Deref::deref|DerefMut::deref_mut)|std::sync::Mutex::<T>::(lock|new)|"
                         r"futures::future::poll_fn|futures::futures_channel::oneshot::channel|std::mem::(drop|take|replace))$")


def is_source(t):
    """A call whose result type carries an I/O-level error and which is not a mere forwarder."""
    if t.callee is None:
        return False
    dty = t.j.get("dest_ty", "")
    if not FALLIBLE_TY.search(dty):
        return False
    if FORWARDERS.search(t.callee.path) or NOT_SOURCES.search(t.callee.path):
        return False
    return True


def outer_err(ty):
    """Error type of the outermost Result in a type string."""
    m = re.match(r"^(?:&mut |&)?std::result::Result<(.*)>$", ty)
    if not m:
        return None
    inner = m.group(1)
    depth = 0
    last = 0
    for i, ch in enumerate(inner):
        if ch in "<([":
            depth += 1
        elif ch in ">)]":
            depth -= 1
        elif ch == "," and depth == 0:
            last = i
    return inner[last + 1:].strip()


def sources(prog, lf):
    """(body, block, term) of fallible sources in a logical function: direct ones, plus the creators of futures /
    streams whose awaited output carries an I/O-level error."""
    out = {}
    for b in prog.fn_bodies(lf):
        cf = prog.cfg(b)
        for blk, t in b.calls():
            if blk.i not in cf.live() or t.callee is None:
                continue
            if is_source(t):
                out[(b.path, blk.i)] = (b, blk, t)
            elif t.callee.path.endswith("Future::poll") and FALLIBLE_TY.search(t.j.get("dest_ty", "")):
                for o in prog.resolve_op(b, t.args[0], IDENT, blk.i):
                    if o.kind == "call" and o.callee is not None and not FORWARDERS.search(o.callee.path) \
                            and not NOT_SOURCES.search(o.callee.path):
                        out[(o.body.path, o.blk)] = (o.body, o.body.blocks[o.blk], o.term)
    return list(out.values())


def propagation_leaves(w, lf):
    """Call sites whose error result flows to a propagation point of the logical function: the function's return value,
    a value sent on a channel, a value stored in a crate ADT; the return value of a nested closure counts only if the
    call receiving that closure is itself propagated."""
    prog = w.prog
    out = set()
    bodies = prog.fn_bodies(lf)
    local_adts = {a["path"] for a in prog.facts.items["adts"]}

    def add_from(body, local, path, at):
        for o in resolve_cut(prog, body, local, path, at):
            if o.kind == "call":
                out.add((o.body.path, o.blk))
    rooted = set()

    def root_returns(b):
        if b.path in rooted:
            return
        rooted.add(b.path)
        if prog.idx(b).defs.get(0):
            add_from(b, 0, (), None)
    root_returns(lf.body)
    for b in bodies:
        idx = prog.idx(b)
        for blk, t in b.calls():
            if t.callee is None or blk.i not in idx.cfg.live():
                continue
            p = t.callee.path
            if p.endswith("oneshot::Sender::<T>::send") or p.endswith("mpsc::Sender::<T>::send"):
                if len(t.args) > 1 and t.args[1].place is not None:
                    add_from(b, t.args[1].place.local, norm_path(t.args[1].place), blk.i)
        for blk in b.blocks:
            if blk.cleanup or blk.i not in idx.cfg.live():
                continue
            for s in blk.stmts:
                if s.k == "assign" and s.rv.k == "agg" and s.rv.j["agg"] == "adt" and s.rv.j["path"] in local_adts:
                    for op in s.rv.ops:
                        if op.place is not None:
                            add_from(b, op.place.local, norm_path(op.place), blk.i)
    # closures whose receiving call is propagated
    changed = True
    while changed:
        changed = False
        for c in bodies:
            if c.path in rooted or c.def_kind != "Closure" or c is lf.body:
                continue
            for (pb, blk_i, i, rv) in prog.ctor_sites.get(c.path, []):
                # which calls receive this closure value?
                for blk, t in pb.calls():
                    for a in t.args:
                        if a.place is None:
                            continue
                        for o in prog.idx(pb).resolve_place(a.place, IDENT):
                            if o.kind == "agg" and o.blk == blk_i and o.idx == i:
                                if (pb.path, blk.i) in out or (t.callee is not None and t.callee.path in SPAWNERS and
                                                               _handle_propagated(prog, pb, blk, t, out)):
                                    root_returns(c)
                                    changed = True
    return out


SPAWNERS = ("async_std::task::spawn_blocking", "tokio::task::spawn_blocking")


def _handle_propagated(prog, pb, blk, t, out):
    return (pb.path, blk.i) in out


OK_ONLY = {("v", "Ok"), ("v", "Continue")}


def _peel_result(ty):
    """Result<X, E> -> X (top-level split)."""
    m = re.match(r"^std::result::Result<(.*)>$", ty.strip())
    if not m:
        return None
    inner = m.group(1)
    depth = 0
    last = None
    for i, ch in enumerate(inner):
        if ch in "<([":
            depth += 1
        elif ch in ">)]":
            depth -= 1
        elif ch == "," and depth == 0:
            last = i
    return inner[:last].strip() if last is not None else None


def still_fallible(o):
    """The projected part of the call's result (after unwrapping Ok layers named in the path) is itself a Result
    carrying an I/O-level error, e.g. the inner io::Result of tokio's Result<io::Result<T>, JoinError>."""
    ty = o.term.j.get("dest_ty", "")
    path = list(o.path)
    if path and path[0] == ("await",):
        path = path[1:]
        m = re.match(r"^tokio::task::JoinHandle<(.*)>$", ty)
        if m:
            ty = "std::result::Result<%s, tokio::task::JoinError>" % m.group(1)
        else:
            m = re.match(r"^async_std::task::JoinHandle<(.*)>$", ty)
            if m:
                ty = m.group(1)
            else:
                m = re.search(r"Output = (.*)>$", ty)
                if m:
                    ty = m.group(1)
                else:
                    return False
    if path and path[0] == ("await_join",):
        path = path[1:]
    while path:
        e = path[0]
        if e in OK_ONLY and len(path) > 1 and path[1][0] == "f":
            nxt = _peel_result(ty)
            if nxt is None:
                return False
            ty = nxt
            path = path[2:]
        else:
            break
    return bool(FALLIBLE_TY.search(ty)) and not path


def resolve_cut(prog, body, local, path, at, _seen=None):
    """Error-flow closure: backward over assignments, forwarders and call arguments; stops at error-discarding
    combinators and does not follow a dependency that goes through the *Ok payload* of a result only."""
    out = set()
    seen = set()
    work = [(body, local, tuple(path), at)]
    while work:
        b, l, q, a = work.pop()
        k = (b.path, l, q, a)
        if k in seen or len(seen) > 8000:
            continue
        seen.add(k)
        for o in prog.resolve_lifted(b, l, q, OKFLOW, at=a):
            if o.kind == "call" and o.callee is not None:
                if DISCARD_COMB.search(o.callee.path):
                    continue
                if any(e in OK_ONLY for e in o.path) and not still_fallible(o):
                    continue   # only the success payload of this call is consumed here: its error does not flow on
                out.add(o)
                for arg in o.term.args:
                    if arg.place is not None:
                        work.append((o.body, arg.place.local, norm_path(arg.place), o.blk))
            elif o.kind in ("agg", "binop", "unop", "cast"):
                out.add(o)
                for arg in o.info.ops:
                    if arg.place is not None:
                        work.append((o.body, arg.place.local, norm_path(arg.place), o.blk))
            else:
                out.add(o)
    return out


def check_config(cfg, w, rep):
    prog = w.prog
    is_async = not cfg.startswith("sync")
    _import_c02(cfg, w, rep)
    _partial_append(cfg, w, rep)
    check_async_flush(cfg, w, rep)
    # R7: the two places where a failed publication step is deliberately tolerated ("somebody else already put it there") do so
    # only under a real existence check of the same destination that follows links: close() (C03 e) and the linker (C19 d)
    from ..framework import Report as _Rp
    from . import c03 as _c03
    _sb = _Rp("C03")
    _c03.check_config(cfg, w, _sb)
    _subs = [(_sb, ("e-failed-publication",))]
    if "link_to" in cfg:
        from . import c19 as _c19
        _sb = _Rp("C19")
        _c19.check_config(cfg, w, _sb)
        _subs.append((_sb, ("d-existing-destination",)))
    for _sb, _rules in _subs:
        for (c_, rule, k, desc, ok) in _sb.obligations:
            if rule in _rules and ok:
                rep.ob(cfg, "R7/" + rule, k, desc)
        for k, v in _sb.violations.items():
            if v.rule in _rules:
                rep.violation("R7:%s" % k, "a failed publication step could be reported as success — " + v.msg, loc=v.loc, config=cfg, rule="R7/" + v.rule)
    # R8: the state left behind by a failing call: no write / commit / read path "cleans up" by deleting a content file (shared)
    check_who_may_remove_content(cfg, w, rep, "R8")
    # R6: a future of one of the runtimes' filesystem functions that is created and dropped without `.await` never runs —
    # neither the operation nor its error exists
    for e in w.inv.unawaited:
        lf_ = prog.owner_fn(e.body)
        rep.violation("R6:%s:%s" % (fn_key(lf_), e.kind),
                      "`%s` creates the future of `%s` and drops it without `.await`: the %s never happens and its failure can never be "
                      "reported" % (short(lf_.path), norm_callee(e.term.callee.path), e.kind), loc=e.loc(), config=cfg, rule="R6-unawaited-future")
    if not w.inv.unawaited and is_async:
        rep.ob(cfg, "R6-unawaited-future", "zero-count", "every future of a runtime filesystem function is awaited, returned or handed on")
    n_src = 0
    n_tol = 0
    for lf in prog.fns.values():
        if "_serde::" in lf.path or lf.outer.impl_trait in ("std::fmt::Display", "std::fmt::Debug", "std::error::Error",
                                                            "miette::Diagnostic"):
            continue
        prop = None
        for (b, blk, t) in sources(prog, lf):
            if True:
                if True:
                    pass
                n_src += 1
                if prop is None:
                    prop = propagation_leaves(w, lf)
                key = "%s:%s" % (fn_key(lf), norm_callee(t.callee.path))
                if (b.path, blk.i) in prop:
                    rep.ob(cfg, "R1-propagated", key, "result of `%s` in `%s` flows to a return / channel / stored operation result" % (
                        norm_callee(t.callee.path), short(lf.path)))
                    continue
                kind = discard_kind(prog, b, blk, t)
                # a secondary operation on a path that can only end in the function's own failure: the caller is told
                # about a failure anyway, so nothing goes unreported (e.g. best-effort cleanup before returning Err)
                if b is lf.body:
                    reach = prog.cfg(b).reachable(blk.i)
                    rds = [rd for rd in ret_defs(prog, b) if rd.blk in reach]
                    if rds and all(rd.cls == "failure" for rd in rds):
                        rep.ob(cfg, "R1-failure-path", key, "`%s` discards the result of `%s` only on a path whose every return is already an error" % (
                            short(lf.path), norm_callee(t.callee.path)))
                        continue
                if norm_callee(t.callee.path) in ("std::fs::metadata", "std::fs::symlink_metadata") and kind in ("is_ok", "is_err"):
                    # metadata(p).is_ok() is Path::exists() spelled out (that is how std implements it): a predicate, not
                    # an operation whose failure the caller must hear about
                    rep.ob(cfg, "R1-existence-probe", key, "`%s` uses metadata().%s() as an existence probe" % (short(lf.path), kind))
                    continue
                if kind in ("matched-and-dropped", "is_err", "is_ok") and recovery_is_truthful(prog, b, blk, t):
                    rep.ob(cfg, "R1-replaced-by-recovery", key, "`%s`: when `%s` fails, everything reported afterwards is an error or the outcome of "
                           "another fallible step (a recovery), never an unconditional success" % (short(lf.path), norm_callee(t.callee.path)))
                    continue
                tk = (short(lf.path), norm_callee(t.callee.path), kind)
                if tk in TOLERATED:
                    n_tol += 1
                    rep.ob(cfg, "R1-tolerated", key, "discard (%s) tolerated: %s" % (kind, TOLERATED[tk]))
                    continue
                rep.violation("R1:%s:%s" % (key, kind),
                              "`%s`: the error of `%s` is dropped (%s) — a failing filesystem operation would go unreported" % (
                                  short(lf.path), norm_callee(t.callee.path), kind), loc=span_str(t.span), config=cfg, rule="R1-must-propagate")
    rep.floor("fallible_sources", n_src, 20, cfg)

    # ---- R3: iterator adaptors that silently drop the Err items of an iterator of io::Result ----
    for b in prog.bodies:
        cf = prog.cfg(b)
        lf = prog.owner_fn(b)
        for blk, t in b.calls():
            if blk.i not in cf.live() or t.callee is None or not ERR_DROPPING_ADAPTORS.search(t.callee.path):
                continue
            selfty = t.callee.args[0] if t.callee.args else ""
            item_io = bool(ITER_OF_IO_RESULT.search(selfty))
            fnarg = None
            for a in t.args:
                if a.is_const and a.fn and re.search(r"Result::<T, E>::(ok|is_ok)$", a.fn["path"]):
                    if any(re.search(IO_ERR, x) for x in a.fn.get("args", [])):
                        fnarg = a.fn["path"]
            name = t.callee.path.rsplit("::", 1)[-1]
            if name in ("flatten",) and item_io:
                rep.violation("R3:%s:flatten:%s" % (fn_key(lf), selfty.split("<")[0]),
                              "`%s` flattens an iterator of io::Result (%s): entries that fail to be read are silently skipped and the "
                              "operation still reports success" % (short(lf.path), selfty[:60]), loc=span_str(t.span), config=cfg,
                              rule="R3-iterator-drops-errors")
            elif fnarg is not None:
                rep.violation("R3:%s:%s:%s" % (fn_key(lf), name, selfty.split("<")[0]),
                              "`%s` applies %s(Result::ok) to an iterator of io::Result (%s): a read error is silently turned into a "
                              "shorter stream" % (short(lf.path), name, selfty[:60]), loc=span_str(t.span), config=cfg,
                              rule="R3-iterator-drops-errors")
    # ---- R2: no unwrap/expect directly on the result of a fallible filesystem call ----
    n_unw = 0
    for b in prog.bodies:
        cf = prog.cfg(b)
        lf = prog.owner_fn(b)
        for blk, t in b.calls():
            if blk.i not in cf.live() or t.callee is None:
                continue
            if not re.search(r"^std::result::Result::<T, E>::(unwrap|expect)$", t.callee.path):
                continue
            aty = (t.j.get("arg_tys") or [""])[0]
            oe = outer_err(aty) or ""
            if not re.search(r"(std::io::Error|errors::Error|PersistError|walkdir::Error)", oe):
                continue
            n_unw += 1
            srcs = [o for o in prog.resolve_op(b, t.args[0], OKFLOW, blk.i) if o.kind == "call" and o.callee is not None]
            # a preceding check of the same result (checked-before) is accepted; C20 re-derives it
            from .c20 import Discharger, Site
            s = Site(b, blk.i, "unwrap", t.callee.path, t)
            d = Discharger(w, [s])
            d.local(s)
            if s.discharge == "checked-before":
                rep.ob(cfg, "R2-no-unwrap", "%s:%s" % (fn_key(lf), "checked"), "unwrap in `%s` is preceded by a check of the same result" % short(lf.path))
            else:
                rep.violation("R2:%s:%s" % (fn_key(lf), ",".join(sorted(norm_callee(o.callee.path) for o in srcs))[:80]),
                              "`%s` unwraps the result of a fallible filesystem operation: an I/O error becomes a panic" % short(lf.path),
                              loc=span_str(t.span), config=cfg, rule="R2-no-unwrap")


def recovery_is_truthful(prog, b, blk, t):
    """The result of call `t` is matched / tested and its error value dropped. That is truthful if, on the failure side, whatever
    the function (or closure) reports afterwards — its return values, the values it sends on a result channel — is an Err(..) or
    derives (Ok-preserving flow) from ANOTHER fallible call made on that side, e.g. the existence check that decides whether
    the failure can be tolerated. An unconditional Ok(..) on the failure side is what the rule is there to catch."""
    cf = prog.cfg(b)

    def is_t(o):
        return o.kind == "call" and o.term is t and o.path in ((), (("await",),))
    fail_starts = set()
    for g in match_gates(prog, b, is_t, "Ok"):
        for (u, v) in g.other_edges:
            fail_starts.add(v)

    def is_err_of_t(o):
        return o.kind == "call" and o.callee is not None and o.callee.path == "std::result::Result::<T, E>::is_err" and \
            any(x.kind == "call" and x.term is t for x in prog.resolve_op(o.body, o.term.args[0], OKFLOW, o.blk))

    def is_ok_of_t(o):
        return o.kind == "call" and o.callee is not None and o.callee.path == "std::result::Result::<T, E>::is_ok" and \
            any(x.kind == "call" and x.term is t for x in prog.resolve_op(o.body, o.term.args[0], OKFLOW, o.blk))
    for g in bool_gates(prog, b, is_err_of_t, True):
        fail_starts.add(g.edge[1])
    for g in bool_gates(prog, b, is_ok_of_t, False):
        fail_starts.add(g.edge[1])
    if not fail_starts:
        return False
    reach = set()
    for v in fail_starts:
        reach |= cf.reachable(v)
    reports = []
    for rd in ret_defs(prog, b):
        if rd.blk in reach:
            reports.append(("ret", rd))
    for bb, tt in b.calls():
        if bb.i in reach and tt.callee is not None and tt.callee.path.endswith("oneshot::Sender::<T>::send"):
            reports.append(("send", (bb, tt)))
    if not reports:
        return False
    for kind, x in reports:
        if kind == "ret":
            if x.cls in ("failure", "neutral"):
                continue
            if x.cls == "delegated" and x.origin is not None and x.origin.kind == "call" and x.origin.term is not t and is_source(x.origin.term):
                continue
            if b.def_kind == "Closure" and x.cls in ("success", "unknown") and any(k_ == "send" for k_, _ in reports):
                continue       # the closure's own value (next state), not a report
            return False
        else:
            bb, tt = x
            leaves = prog.resolve_op(b, tt.args[1], OKFLOW, bb.i)
            if not leaves:
                return False
            for o in leaves:
                if o.kind == "agg" and o.info.j.get("agg") == "adt" and o.info.j.get("variant") == "Err":
                    continue
                if o.kind == "call" and o.term is not t and o.callee is not None and is_source(o.term):
                    continue
                return False
    return True


def discard_kind(prog, b, blk, t):
    """How the result of call `t` is consumed when it is not propagated."""
    if t.dest is None:
        return "unused"
    dl = t.dest.local
    kinds = set()
    used = False
    for bb in b.blocks:
        if bb.cleanup:
            continue
        for s in bb.stmts:
            if s.k == "assign":
                for o in s.rv.ops:
                    if o.place is not None and o.place.local == dl:
                        used = True
                if s.rv.place is not None and s.rv.place.local == dl:
                    used = True
        tt = bb.term
        for o in list(tt.args) + [x for x in (tt.discr,) if x is not None]:
            if o.place is not None and o.place.local == dl:
                used = True
                if tt.k == "call" and tt.callee is not None:
                    kinds.add(tt.callee.path.rsplit("::", 1)[-1])
    if not used:
        return "unused"
    # follow one forwarding step (await / with_context) to name the final consumer
    for k in ("ok", "is_ok", "is_err", "unwrap_or", "unwrap_or_else", "unwrap_or_default", "err"):
        if k in kinds:
            return k
    # look further along the chain
    seen = set()
    frontier = [dl]
    for _ in range(12):
        nxt = []
        for l in frontier:
            for bb in b.blocks:
                if bb.cleanup:
                    continue
                tt = bb.term
                if tt.k == "call" and tt.callee is not None and any(o.place is not None and o.place.local == l for o in tt.args):
                    nm = tt.callee.path.rsplit("::", 1)[-1]
                    if DISCARD_COMB.search(tt.callee.path):
                        return nm
                    if tt.dest is not None and tt.dest.local not in seen:
                        seen.add(tt.dest.local)
                        nxt.append(tt.dest.local)
                for s in bb.stmts:
                    if s.k == "assign" and s.rv.k == "discr":
                        continue
                    if s.k == "assign" and ((s.rv.place is not None and s.rv.place.local == l) or
                                            any(o.place is not None and o.place.local == l for o in s.rv.ops)):
                        if s.place.local not in seen:
                            seen.add(s.place.local)
                            nxt.append(s.place.local)
                if tt.k == "switch" and tt.discr.place is not None and tt.discr.place.local == l:
                    return "matched-and-dropped"
                for s in bb.stmts:
                    if s.k == "assign" and s.rv.k == "discr" and s.rv.place.local == l and \
                            not b.local_ty(l).startswith("std::task::Poll<") and \
                            not b.local_ty(l).startswith("std::ops::ControlFlow<"):
                        return "matched-and-dropped"
        frontier = nxt
        if not frontier:
            break
    return "dropped"


def check_async_flush(cfg, w, rep):
    """R5: a write on one of the runtimes' files only queues the bytes (tokio: hands them to a blocking task; async-std:
    fills a cache) — its failure is reported by the next flush. So no success return may be reachable from such a write
    without passing flush(..).await on the same handle; sync_all / drop do not report the write's error."""
    prog = w.prog
    n = 0
    for lf in prog.fns.values():
        body = lf.body
        effs = [e for e in w.own_effects(lf) if e.kind == "WriteData" and e.body is body and e.term.callee is not None
                and "AsyncWriteExt::" in e.term.callee.path
                and re.search(r"^(tokio|async_std)::fs::File$", (e.term.callee.self_ty or "").lstrip("&").replace("mut ", ""))]
        writes = [e for e in effs if e.flags.get("op") != "flush"]
        if not writes:
            continue
        cf = prog.cfg(body)
        succ = [rd for rd in ret_defs(prog, body) if rd.cls in ("success", "unknown", "delegated")]
        for e in writes:
            n += 1
            flushes = {f.blk for f in effs if f.flags.get("op") == "flush" and f.classes.get("handle") == e.classes.get("handle")}
            reach = cf.reachable(e.blk, cut_nodes=flushes)
            bad = [rd for rd in succ if rd.blk in reach]
            key = "%s:%s" % (fn_key(lf), e.flags.get("op"))
            if bad:
                rep.violation("R5:%s" % key,
                              "`%s` can report success after `%s` on a %s without flushing it: the runtime only queues the write, and its "
                              "failure (ENOSPC, EIO ...) is reported by flush() alone — it would go unreported" % (
                                  short(lf.path), e.flags.get("op"), e.term.callee.self_ty), loc=e.loc(), config=cfg, rule="R5-async-flush",
                              witness="write at %s -> return at %s" % (e.loc(), blk_loc(body, bad[0].blk)))
            else:
                rep.ob(cfg, "R5-async-flush", key, "every success return of `%s` after its async %s passes flush().await on the same file" % (
                    short(lf.path), e.flags.get("op")))
    if not cfg.startswith("sync"):
        rep.floor("async_file_writes", n, 1, cfg)


def _partial_append(cfg, w, rep):
    """R9: a short write of the index record is a failure of the operation, not a success (the all-or-error clause of C04 b)."""
    check_insert_writes_all_or_error(cfg, w, rep, "R9", "a write cut short by a full disk or a file-size limit would go unreported")


def _import_c02(cfg, w, rep):
    """R4: a failing data write has no unaccounted partial effect on the staging file (reused C02 a)."""
    from ..framework import Report
    from . import c02
    sub = Report("C02")
    c02.check_config(cfg, w, sub)
    for (c_, rule, k, desc, ok) in sub.obligations:
        if rule in ("a-digest-sink", "a-whole-sink") and ok:
            rep.ob(cfg, "R4/" + rule, k, desc)
    for k, v in sub.violations.items():
        if v.rule in ("a-digest-sink", "a-whole-sink"):
            rep.violation("R4:%s" % k, v.msg, loc=v.loc, config=cfg, rule="R4/" + v.rule)
