"""C07 — concurrent lock-free use behaves like some serial order: four structural necessary conditions."""
import re

from .common import *
from ..framework import Report
from . import c03, c04

PROP = "C07"
# (a reader racing a writer must never find an index entry whose content is not there yet: content is published before the
#  index record is appended, and the publication really succeeded — C04 a)
FROM_C04 = ("b-single-append", "b-one-write-call", "b-record-template", "c-bucket-open", "c-bucket-mutation",
            "a-publish-before-index", "a/e-failed-publication", "a/d-existing-destination")
FROM_C03 = ("a-who-writes-content", "b-staged-in-cache-tmp", "b-temp-location")
ATOMIC = re.compile(r"^std::sync::atomic::(Atomic(Bool|U8|U16|U32|U64|Usize|I8|I16|I32|I64|Isize)|Atomic<(bool|u8|u16|u32|u64|usize|i8|i16|i32|i64|isize)>)$")


def run(ctx, rep):
    for cfg, w in ctx.worlds():
        check_config(cfg, w, rep)
    return rep


def _import(cfg, rep, sub, rules, tag):
    for (c, rule, key, desc, ok) in sub.obligations:
        if rule in rules and ok:
            rep.ob(cfg, "%s/%s" % (tag, rule), key, desc)
    for k, v in sub.violations.items():
        if v.rule in rules or v.rule == "anchor-floor":
            rep.violation("%s:%s" % (tag, k), v.msg, loc=v.loc, config=cfg, rule="%s/%s" % (tag, v.rule), witness=v.witness)


def check_config(cfg, w, rep):
    prog = w.prog
    # (a) one index record = one write on an O_APPEND descriptor   (b) content visible only by atomic rename of a
    # uniquely named temp file in {cache}/tmp
    sub = Report("C04")
    c04.check_config(cfg, w, sub, strict_single=True)
    _import(cfg, rep, sub, FROM_C04, "a")
    sub = Report("C03")
    c03.check_config(cfg, w, sub)
    _import(cfg, rep, sub, FROM_C03, "b")

    # (a') ... and the append handle is used as it was opened: no call on it (or anywhere in the insert) that the dependency model
    # does not know — a buffer-size or mode setting on the runtime's file can split one write into several appends
    for p_ in w.roles.index_inserts:
        lf_ = prog.fns[p_]
        for e in w.own_effects(lf_):
            if e.kind == "Unmodelled":
                rep.violation("a-unmodelled:%s" % fn_key(lf_),
                              "index insert `%s` uses %s, which is not in the dependency model: whether the record still reaches the O_APPEND "
                              "descriptor in one write is not known" % (short(lf_.path), e.flags.get("by_name") or e.term.callee.path),
                              loc=e.loc(), config=cfg, rule="a/b-one-write-call")
    # (c) every directory creation tolerates concurrent creation
    n = 0
    for e in w.inv.effects:
        if e.kind != "CreateDir":
            continue
        n += 1
        lf = prog.owner_fn(e.body)
        if e.flags.get("recursive") is True and not e.flags.get("?"):
            rep.ob(cfg, "c-mkdir-recursive", "%s:%s" % (fn_key(lf), class_shape(e.classes.get("path", ("?",)))),
                   "directory creation in `%s` is create_dir_all / DirBuilder.recursive(true)" % short(lf.path))
        else:
            rep.violation("c-mkdir:%s" % fn_key(lf),
                          "`%s` creates a directory non-recursively (%s): a concurrent creator makes it fail with EEXIST" % (
                              short(lf.path), e.term.callee.path), loc=e.loc(), config=cfg, rule="c-mkdir-recursive")
    rep.floor("create_dir_sites", n, 3, cfg)

    # (d) no in-process cache state
    st = prog.facts.items["statics"]
    bad = 0
    for s in st:
        ty = s["ty"]
        if s["mut"] or s.get("thread_local") or (not s["freeze"] and not ATOMIC.match(ty)):
            bad += 1
            rep.violation("d-static:%s" % s["path"],
                          "static `%s: %s` (%s) can hold in-process cache state: operations would no longer communicate through the filesystem only" % (
                              s["path"], ty, "static mut" if s["mut"] else ("thread_local" if s.get("thread_local") else "interior mutability")),
                          loc=span_str(s.get("span")), config=cfg, rule="d-no-shared-state")
        else:
            rep.ob(cfg, "d-no-shared-state", s["path"], "static `%s: %s` is immutable (Freeze) or a plain atomic scalar" % (s["path"], ty))
    # thread-local accesses through std's thread_local! machinery show up as LocalKey statics / ThreadLocalRef rvalues
    n_tls = 0
    for b in prog.bodies:
        for blk in b.blocks:
            for s in blk.stmts:
                if s.k == "assign" and s.rv.k == "tlsref":
                    n_tls += 1
                    rep.violation("d-tls:%s" % fn_key(prog.owner_fn(b)), "`%s` reads a thread-local static" % short(b.path),
                                  loc=span_str(s.span), config=cfg, rule="d-no-shared-state")
    if not st and not n_tls:
        rep.ob(cfg, "d-no-shared-state", "zero-count", "the crate defines no static items at all (%d bodies scanned for thread-local refs)" % len(prog.bodies))
