"""C12 — sync, async-std and tokio flavours are observationally equivalent: sibling agreement of abstract signatures."""
import re

from .common import *
from .fsrules import FsWorld, effect_fn
from ..provenance import leaf, shape
from ..symval import walk
from ..world import strip_refs

PROP = "C12"

# Accepted differences between siblings: (pair key, component, item) -> reason. Keyed semantically, never by position.
ACCEPTED = {
    # the async keyed writer never maps memory (WriteOpts::open passes None as the mapping size): a staging strategy,
    # not an observable difference — the bytes still go through the same temp file and rename
    ("mmap-staging", "effects"): "async keyed writers stage through plain writes only; sync keyed writers may also pre-allocate and map the temp file "
                                 "(same temp file, same rename; observable results are identical)",
}
# (sync function, component) -> reason: structural differences in *how* an error is routed that do not change what the caller sees
ACCEPTED_HANDLING = {
    "content::write::Writer::close": "the async close reports through a result channel: it tests is_err() and sends, where the sync close matches and returns "
                                     "(both tolerate a failed persist only under an existence probe: decided under C03 e)",
    "content::read::has_content": "exists-style predicate returning bool: the async flavour turns the metadata error into `false`, the sync flavour asks Path::exists()",
}
MMAP_ONLY = {("Fallocate", "handle", "TempIn(Join(Entry,'tmp'))"), ("WriteData", "handle", "Mmap(TempIn(Join(Entry,'tmp')))"),
             ("HandleMut", "handle", "TempIn(Join(Entry,'tmp'))"), ("Mmap", "handle", "TempIn(Join(Entry,'tmp'))"),
             ("MmapFlush", "handle", "Mmap(TempIn(Join(Entry,'tmp')))")}


# functions whose bodies are cfg-selected per runtime (the runtime abstraction layer and the poll_read adaptors):
# their call sets legitimately differ; their effects / errors / role calls are still compared
RUNTIME_SPECIFIC = re.compile(r"(^async_lib::|::poll_read$|::poll_close$|::poll_shutdown$|bucket_entries_async$)")


def run(ctx, rep):
    worlds = dict(ctx.worlds())
    n_pairs = 0
    for cfg, w in worlds.items():
        if cfg.startswith("sync"):
            continue
        n_pairs += check_sync_async(cfg, w, rep)
    rep.floor("sync_async_pairs", n_pairs, 20, ctx.tier)
    # async-std vs tokio builds of the same feature set
    n_rt = 0
    for cfg, w in worlds.items():
        if cfg.startswith("asyncstd"):
            other = "tokio" + cfg[len("asyncstd"):]
            if other in worlds:
                n_rt += check_runtimes(cfg, w, other, worlds[other], rep)
    rep.floor("runtime_pairs", n_rt, 50, ctx.tier)
    # Operations whose copies are each compared with ONE decision-level oracle elsewhere — stream readers (C01 R3: the checker is
    # fed exactly the bytes the inner read delivered), bucket readers (C06: which lines are records), lookups (C05 b: which
    # record wins), commits (C08: what is rejected). A copy that deviates from the oracle while a sibling does not (or deviates
    # differently) is not equivalent to that sibling: reported here. Copies that all deviate in the same way are still
    # equivalent to each other — that is the oracle property's finding, not this one's.
    from ..framework import Report
    from . import c01, c05, c06, c08
    from .c01 import reader_types, find_fns
    from ..world import strip_refs as _sr
    for cfg, w in worlds.items():
        prog = w.prog
        base, wrap = reader_types(w)
        groups = []
        streams = [lf for lf in prog.fns.values() if lf.outer.name in ("read", "poll_read") and _sr(lf.outer.impl_self or "") in base and lf.outer.impl_trait]
        groups.append(("C01", "stream reader", streams, lambda sub_, lf_: c01.check_stream_impl(cfg, w, sub_, lf_)))
        groups.append(("C06", "bucket reader", [prog.fns[p_] for p_ in w.roles.bucket_readers], lambda sub_, lf_: c06.check_reader(cfg, w, sub_, lf_)))
        groups.append(("C05", "lookup", [prog.fns[p_] for p_ in sorted(find_fns(w))], lambda sub_, lf_: c05.check_find(cfg, w, sub_, lf_)))
        fam = {}
        for p_ in w.roles.commits:
            fam.setdefault(p_.split("::")[0], []).append(prog.fns[p_])
        for k_, fs_ in sorted(fam.items()):
            groups.append(("C08", "%s commit" % k_, fs_, lambda sub_, lf_: c08.check_commit(cfg, w, sub_, lf_)))
        if "link_to" in cfg:
            from . import c19
            linkers = [lf for lf in prog.fns.values() if lf.outer.name in ("read", "poll_read") and lf.outer.impl_trait and
                       _sr(lf.outer.impl_self or "").startswith("content::linkto::")]
            groups.append(("C19", "linker read", linkers, lambda sub_, lf_: c19.check_linker_read(cfg, w, sub_, lf_)))
        for tag, what, fns_, run_ in groups:
            per = {}
            for lf_ in fns_:
                sub = Report(tag)
                run_(sub, lf_)
                per[lf_.path] = sub
            sigs = {p_: frozenset(v.rule for v in sb.violations.values()) for p_, sb in per.items()}
            uniform = len(set(sigs.values())) <= 1
            for p_, sb in per.items():
                for (c_, rule, k, desc, ok) in sb.obligations:
                    if ok:
                        rep.ob(cfg, "oracle-%s/%s" % (tag, rule), k, desc)
                if uniform:
                    if sb.violations:
                        rep.ob(cfg, "oracle-%s/uniform-deviation" % tag, short(p_), "all %s copies of this configuration deviate from the oracle in the same way (reported under %s)" % (what, tag))
                    continue
                for k, v in sb.violations.items():
                    rep.violation("oracle-%s:%s" % (tag, k), "this %s deviates from the oracle while a sibling copy does not (or deviates differently) — %s" % (what, v.msg),
                                  loc=v.loc, config=cfg, rule="oracle-%s/%s" % (tag, v.rule or ""), witness=v.witness)
    return rep


# ----------------------------------------------------------------- pairing

def sibling_of(path):
    """Name of the async sibling of a sync function path, or None."""
    p = path
    subs = [
        (r"^(get|put|rm|linkto)::(\w+?)_sync(_with_algo|_unchecked)?(::inner)?$", None),
    ]
    m = re.match(r"^(get|put|rm|linkto)::(\w+)$", p)
    if m and "_sync" in m.group(2):
        return "%s::%s" % (m.group(1), m.group(2).replace("_sync", ""))
    table = {
        "content::read::open": "content::read::open_async", "content::read::read": "content::read::read_async",
        "content::read::copy": "content::read::copy_async", "content::read::copy_unchecked": "content::read::copy_unchecked_async",
        "content::read::reflink": "content::read::reflink_async", "content::read::hard_link": "content::read::hard_link_async",
        "content::read::has_content": "content::read::has_content_async",
        "content::read::Reader::check": "content::read::AsyncReader::check",
        "content::rm::rm": "content::rm::rm_async",
        "content::write::Writer::new": "content::write::AsyncWriter::new", "content::write::Writer::close": "content::write::AsyncWriter::close",
        "index::insert": "index::insert_async", "index::find": "index::find_async", "index::delete": "index::delete_async",
        "index::bucket_entries": "index::bucket_entries_async", "index::RemoveOpts::remove_sync": "index::RemoveOpts::remove",
        "put::SyncWriter::commit": "put::Writer::commit", "put::SyncWriter::create": "put::Writer::create",
        "put::SyncWriter::create_with_algo": "put::Writer::create_with_algo",
        "put::WriteOpts::open_sync": "put::WriteOpts::open", "put::WriteOpts::open_hash_sync": "put::WriteOpts::open_hash",
        "get::SyncReader::open": "get::Reader::open", "get::SyncReader::open_hash": "get::Reader::open_hash", "get::SyncReader::check": "get::Reader::check",
        "linkto::SyncToLinker::open": "linkto::ToLinker::open", "linkto::SyncToLinker::open_hash": "linkto::ToLinker::open_hash",
        "linkto::SyncToLinker::commit": "linkto::ToLinker::commit", "linkto::SyncToLinker::consume": "linkto::ToLinker::consume",
        "linkto::<impl put::WriteOpts>::link_to_sync": "linkto::<impl put::WriteOpts>::link_to",
        "linkto::<impl put::WriteOpts>::link_to_hash_sync": "linkto::<impl put::WriteOpts>::link_to_hash",
        "content::linkto::ToLinker::new": "content::linkto::AsyncToLinker::new", "content::linkto::ToLinker::commit": "content::linkto::AsyncToLinker::commit",
    }
    return table.get(p)


# ----------------------------------------------------------------- signatures

def effect_sig(w, fw, lf):
    """Set of (kind, flags, role, shape) of every effect reachable from lf, with paths expanded relative to lf's parameters
    when lf is public, else in local form with parameter positions."""
    out = set()
    for e in w.reach_effects(lf):
        if e.kind in ("Stat",):
            kind = "Stat"
        else:
            kind = e.kind
        # write_all / write_fmt / write_all_vectored are one observable operation (all bytes or an error); how many
        # system calls they take is a concurrency matter (C07), not a difference between flavours
        fl = tuple(sorted((k, ("write_all" if k == "op" and v in ALL_OR_ERROR_WRITES else v)) for k, v in e.flags.items()
                          if k in ("read", "write", "append", "create", "truncate", "recursive", "op") and v))
        if lf.outer.reachable:
            ex = fw.expanded(e)
            for role, cs in ex.items():
                mine = [c for c in cs if leaf(c)[0] == "Entry" and leaf(c)[1] == lf.path]
                # expansions through *other* callers of the effect's function are not part of this entry point's behaviour
                use = mine if mine else [c for c in cs if leaf(c)[0] not in ("Entry", "Dead", "ClosureArg")]
                for c in use:
                    l = leaf(c)
                    pos = "#%s" % fw.entry_role(l) if l[0] == "Entry" else ""
                    out.add((kind, fl, role, shape(c) + pos))
        # internal functions: compared through their public callers (effects are expanded to entry-point parameters there)
    return out


def error_sig(w, lf):
    out = set()
    for f in w.reach_fns(lf):
        for b in w.prog.fn_bodies(f):
            for blk in b.blocks:
                if blk.cleanup:
                    continue
                for s in blk.stmts:
                    if s.k == "assign" and s.rv.k == "agg" and s.rv.j["agg"] == "adt" and s.rv.j["path"] in ("errors::Error", "ssri::Error"):
                        out.add("%s::%s" % (s.rv.j["path"], s.rv.j["variant"]))
    return out


def role_sig(w, lf):
    """Which role functions and which ssri primitives the operation uses, transitively over the crate-local call graph
    (so that extracting a private helper does not change the signature)."""
    prog = w.prog
    R = w.roles
    out = set()
    roles = {}
    for p in R.index_inserts:
        roles[p] = "INDEX_INSERT"
    for p in R.bucket_readers:
        roles[p] = "BUCKET_READER"
    for p in R.content_path:
        roles[p] = "CONTENT_PATH"
    for p in R.bucket_path:
        roles[p] = "BUCKET_PATH"
    for p in R.content_closes:
        roles[p] = "CONTENT_CLOSE"
    for p in R.hash_fns:
        roles[p] = "HASH:" + R.hash_fns[p]
    for f in w.reach_fns(lf):
        r = roles.get(f.path)
        if r is not None and f is not lf:
            out.add(("ROLE", r))
        for b, blk, t in prog.call_sites(f):
            if t.callee is not None and t.callee.path.startswith("ssri::"):
                out.add(("SSRI", t.callee.path))
    return out


_RTN = [
    (re.compile(r"\b(async_std|tokio)::fs::"), "RT::fs::"),
    (re.compile(r"\b(async_std|tokio)::task::"), "RT::task::"),
    (re.compile(r"\b(async_std|tokio)::io::"), "RT::io::"),
    (re.compile(r"\b(futures|tokio::io|tokio_stream|futures::io|futures::stream)::(Async\w+|StreamExt|Stream)\b"), r"RT::\2"),
    (re.compile(r"\btokio::io::ReadBuf::<'a>::\w+"), "RT::readbuf"),
]


def ext_calls(w, lf):
    """Normalised set of callee paths used by the logical function (runtime crates unified)."""
    out = set()
    for b, blk, t in w.prog.call_sites(lf):
        if t.callee is None:
            continue
        p = t.callee.path
        if p.endswith("Future::poll") or p.startswith("std::pin::Pin") or p in ("std::future::get_context", "std::future::IntoFuture::into_future"):
            continue
        for rx, rep_ in _RTN:
            p = rx.sub(rep_, p)
        p = p.replace("RT::io::Async", "RT::Async").replace("poll_shutdown", "poll_close")
        out.add(p)
    return out


def handling_sig(w, lf, _seen=None):
    """How the function treats the error of each fallible call it makes: propagated with `?`/return, matched on
    (conditionally tolerated), tested with is_ok/is_err, or discarded."""
    from .c13 import sources, propagation_leaves, discard_kind
    prog = w.prog
    out = set()
    prop = None
    _seen = _seen or set()
    if lf.path in _seen:
        return out
    _seen.add(lf.path)
    local_adts = {a["path"] for a in prog.facts.items["adts"]}
    for (b, blk, t) in sources(prog, lf):
        g = prog.callee_fn(t)
        if g is not None:
            # crate-local plumbing: a paired or public callee is compared with its own sibling; a private unpaired
            # helper is part of this function's behaviour
            if not g.outer.reachable and not g.outer.impl_trait and sibling_of(short(g.path)) is None and not any(sibling_of(short(q)) == short(g.path) for q in prog.fns):
                out |= handling_sig(w, g, _seen)
            continue
        if strip_refs(t.callee.self_ty or "") in local_adts:
            continue     # provided trait method dispatching to a crate impl (e.g. AsyncReadExt::read on the crate's reader)
        name = norm_callee(t.callee.path)
        for rx, rep_ in _RTN:
            name = rx.sub(rep_, name)
        name = name.replace("RT::io::Async", "RT::Async").replace("poll_shutdown", "poll_close")
        name = re.sub(r"^RT::AsyncRead::poll_read$", "std::io::Read::read", name)
        name = re.sub(r"^RT::AsyncWrite::poll_(write|flush|close)$", r"std::io::Write::\1", name)
        name = re.sub(r"^(std::iter::Iterator|RT::StreamExt)::next$", "next", name)
        if name == "next":
            # how the *iteration protocol* is spelled (`for` / `while let Some(..) = next()` / `try_for_each(|item| ..)`) is not
            # an observable difference; what happens to each item's error is compared through the calls made on it
            continue
        name = re.sub(r"^RT::task::spawn_blocking$", "spawn_blocking", name)
        name = re.sub(r"^std::io::Write::(write_fmt|write_all_vectored)$", "std::io::Write::write_all", name)
        name = re.sub(r"^std::fs::DirBuilder::create$", "std::fs::create_dir_all", name)     # (recursive is checked by the effect flags)
        cls = "discarded"
        if prop is None:
            prop = propagation_leaves(w, lf)
        if (b.path, blk.i) in prop:
            cls = "propagated"
        # explicit match / if-let on the result (not the `?` desugaring)
        for bb in b.blocks:
            if bb.cleanup:
                continue
            for st in bb.stmts:
                if st.k == "assign" and st.rv.k == "discr":
                    pl = st.rv.place
                    ty = b.local_ty(pl.local)
                    if ty.startswith("std::ops::ControlFlow<") or ty.startswith("std::task::Poll<"):
                        continue
                    for o in prog.resolve_lifted(b, pl.local, norm_path(pl), OKFLOW, at=bb.i):
                        if o.kind == "call" and o.body is b and o.blk == blk.i and o.path in ((), (("await",),)):
                            # `match r { Ok(v) => v, Err(e) => return Err(e) }` is `r?` written out: an Err arm from which only
                            # failure returns are reachable tolerates nothing
                            tsw = bb.term
                            if cls == "propagated" and tsw.k == "switch" and tsw.discr.place is not None and tsw.discr.place.local == st.place.local \
                                    and ty.lstrip("&").startswith("std::result::Result<"):
                                from .c01 import _only_fails
                                err_t = switch_target(tsw, VIDX["Err"])
                                if err_t is not None and _only_fails(prog, b, err_t):
                                    continue
                            cls = "matched" if cls == "propagated" else "matched-and-dropped"
            tt = bb.term
            if tt.k == "call" and tt.callee is not None and tt.callee.path in (
                    "std::result::Result::<T, E>::is_err", "std::result::Result::<T, E>::is_ok"):
                for o in prog.resolve_op(b, tt.args[0], OKFLOW, bb.i):
                    if o.kind == "call" and o.body is b and o.blk == blk.i:
                        cls = "tested" if cls in ("propagated", "tested") else cls
        if name == "std::fs::metadata" and cls == "discarded" and discard_kind(prog, b, blk, t) in ("is_ok", "is_err"):
            continue     # an existence probe (the sync flavour asks Path::exists(), which is not a fallible call at all)
        out.add((name, cls))
    return out


def _is_flush(item):
    """An effect-signature or handling-signature item that denotes a flush."""
    if len(item) == 4 and item[0] == "WriteData":
        return ("op", "flush") in item[1]
    if len(item) == 2 and isinstance(item[0], str):
        return item[0].endswith("::flush") and item[1] == "propagated"
    return False


def twin_name(p):
    """Name of a crate function with its flavour suffix removed, so that siblings calling each other's twins compare equal."""
    sp = sibling_of(p)
    return sp if sp is not None else p


def order_sig(w, lf):
    """Ordered pairs (A, B) of this function's own mutating steps — filesystem effects, and calls to crate functions that
    reach one — such that B is reachable from A and not A from B: "whenever both happen, A happens first". A step is named by
    (effect kind, provenance class head) or by the twin-normalised callee."""
    prog = w.prog
    body = lf.body
    cf = prog.cfg(body)
    steps = []
    for e in w.own_effects(lf):
        if e.mutating and e.body is body:
            c = e.classes.get("dst") or e.classes.get("path") or e.classes.get("handle") or ("?",)
            cur = c
            while cur and cur[0] in ("Handle", "Parent") and len(cur) > 1:
                cur = cur[1]
            steps.append((e.blk, (e.kind, cur[0] if cur else "?")))
    for b, blk, t, g in prog.local_calls(lf):
        if b is body and any(x.mutating for x in w.reach_effects(g)):
            steps.append((blk.i, ("call", twin_name(short(g.path)))))
    out = set()
    for (b1, s1) in steps:
        for (b2, s2) in steps:
            if s1 != s2 and b1 != b2 and cf.can_reach(b1, b2) and not cf.can_reach(b2, b1):
                out.add((s1, s2))
    return out


def signature(w, fw, lf):
    return {"effects": effect_sig(w, fw, lf), "errors": error_sig(w, lf), "roles": role_sig(w, lf), "handling": handling_sig(w, lf),
            "order": order_sig(w, lf)}


def diff_sig(a, b):
    out = []
    for comp in ("effects", "errors", "roles", "handling"):
        only_a = a[comp] - b[comp]
        only_b = b[comp] - a[comp]
        if only_a or only_b:
            out.append((comp, only_a, only_b))
    # order: only inversions count (A before B in one copy, B before A in the other) — a step present in one copy only is
    # already an `effects` difference
    inv_a = {(x, y) for (x, y) in a.get("order", ()) if (y, x) in b.get("order", ()) and (x, y) not in b.get("order", ())}
    if inv_a:
        out.append(("order", inv_a, {(y, x) for (x, y) in inv_a}))
    return out


def _norm_roles(items):
    """Roles named after the flavour-specific twin are the same role."""
    return items


# ----------------------------------------------------------------- checks

def check_sync_async(cfg, w, rep):
    prog = w.prog
    fw = FsWorld.get(w)
    n = 0
    for p, lf in sorted(prog.fns.items()):
        sp = sibling_of(short(p))
        if sp is None:
            continue
        g = prog.fns.get(sp)
        if g is None:
            # async fn paths carry no suffix; try the closure-less name
            g = next((x for q, x in prog.fns.items() if short(q) == sp), None)
        if g is None:
            rep.count("sync_only_api[%s]" % cfg)   # e.g. hard_link_hash_sync: the async API has no such entry point
            continue
        n += 1
        a = signature(w, fw, lf)
        b = signature(w, fw, g)
        key = "%s~%s" % (short(p), sp)
        diffs = diff_sig(a, b)
        clean = True
        for comp, only_s, only_a in diffs:
            # accepted: mapping-only effects present on one side
            if comp == "effects":
                rs = {x for x in only_s if (x[0], x[2], x[3].split("#")[0]) not in MMAP_ONLY and x[0] not in ("Mmap", "MmapFlush")}
                ra = {x for x in only_a if (x[0], x[2], x[3].split("#")[0]) not in MMAP_ONLY and x[0] not in ("Mmap", "MmapFlush")}
                # local (non-expanded) shapes of the mapping effects
                rs = {x for x in rs if not (x[0] in ("Fallocate", "HandleMut") or "Mmap" in x[3])}
                ra = {x for x in ra if not (x[0] in ("Fallocate", "HandleMut") or "Mmap" in x[3])}
                if (only_s - rs) or (only_a - ra):
                    rep.ob(cfg, "accepted-difference", key + ":mmap-staging", ACCEPTED[("mmap-staging", "effects")])
                only_s, only_a = rs, ra
            if comp == "handling" and short(p) in ACCEPTED_HANDLING:
                rep.ob(cfg, "accepted-difference", key + ":handling", ACCEPTED_HANDLING[short(p)])
                continue
            # a flush that only the async flavour performs is a staging detail: flushing a std::fs::File is a no-op,
            # while the runtimes' files complete (and report) their writes only on flush. The converse is reported.
            only_a = {x for x in only_a if not _is_flush(x)}
            if comp == "roles":
                only_s = {_twin_role(x) for x in only_s}
                only_a = {_twin_role(x) for x in only_a}
                only_s, only_a = only_s - only_a, only_a - only_s
            if only_s or only_a:
                clean = False
                rep.violation("sync-async:%s:%s" % (key, comp),
                              "sync `%s` and async `%s` differ in their %s: only sync: %s; only async: %s — the flavours would not be observationally equivalent" % (
                                  short(p), sp, comp, sorted(map(str, only_s))[:4], sorted(map(str, only_a))[:4]),
                              loc=lf.body.loc(), config=cfg, rule="sync-async-agreement")
        if clean:
            rep.ob(cfg, "sync-async-agreement", key, "`%s` ≡ `%s`: %d effects, %d error variants, %d role calls agree" % (
                short(p), sp, len(a["effects"]), len(a["errors"]), len(a["roles"])))
    return n


def _twin_role(x):
    return x


def check_runtimes(cfg_a, wa, cfg_b, wb, rep):
    fa = FsWorld.get(wa)
    fb = FsWorld.get(wb)
    n = 0

    def norm_name(p):
        return p.replace("futures::AsyncRead", "RT::AsyncRead").replace("tokio::io::AsyncRead", "RT::AsyncRead") \
            .replace("futures::AsyncWrite", "RT::AsyncWrite").replace("tokio::io::AsyncWrite", "RT::AsyncWrite") \
            .replace("poll_shutdown", "poll_close")
    names_a = {norm_name(p): lf for p, lf in wa.prog.fns.items() if "_serde::" not in p}
    names_b = {norm_name(p): lf for p, lf in wb.prog.fns.items() if "_serde::" not in p}
    for p in sorted(set(names_a) | set(names_b)):
        if p in ("async_lib::lines_to_stream", "async_lib::unwrap_joinhandle_value"):
            continue   # the runtime abstraction layer itself
        la, lb = names_a.get(p), names_b.get(p)
        if la is None or lb is None:
            rep.violation("runtime-missing:%s" % short(p), "`%s` exists only in the %s build" % (short(p), cfg_a if la else cfg_b),
                          config=cfg_a, rule="runtime-agreement")
            continue
        n += 1
        a = signature(wa, fa, la)
        b = signature(wb, fb, lb)
        diffs = diff_sig(a, b)
        ea, eb = ext_calls(wa, la), ext_calls(wb, lb)
        if ea != eb and not RUNTIME_SPECIFIC.search(p):
            diffs.append(("calls", ea - eb, eb - ea))
        if not diffs:
            rep.ob(cfg_a + "|" + cfg_b, "runtime-agreement", short(p), "`%s` has the same abstract signature on async-std and tokio" % short(p))
        else:
            for comp, oa, ob in diffs:
                rep.violation("runtime:%s:%s" % (short(p), comp),
                              "`%s` differs between the async-std and tokio builds in its %s: only async-std: %s; only tokio: %s" % (
                                  short(p), comp, sorted(map(str, oa))[:4], sorted(map(str, ob))[:4]),
                              loc=la.body.loc(), config=cfg_a, rule="runtime-agreement")
    return n
