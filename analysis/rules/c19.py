"""C19 — linked entries (link_to) read back verified target bytes, never copy or clobber. Analysed in link_to configurations."""
import re

from .common import *
from .fsrules import FsWorld, effect_fn, arg_sources
from .c09 import entry_effects
from ..framework import Report
from ..provenance import leaf, shape, entry_str
from ..symval import walk, teq
from ..world import strip_refs
from . import c08

PROP = "C19"

ENTRY_MAY = {("CreateDir", "path", "Parent(Content(Entry))"), ("Symlink", "dst", "Content(Entry)"), ("Symlink", "src", "Abs(Entry)"),
             ("CreateDir", "path", "Parent(Bucket(Entry))"), ("Open", "path", "Bucket(Entry)"), ("WriteData", "handle", "Handle(Bucket(Entry))")}
ENTRY_MUST_KEYED = {("Symlink", "dst", "Content(Entry)"), ("Symlink", "src", "Abs(Entry)"), ("WriteData", "handle", "Handle(Bucket(Entry))")}
ENTRY_MUST_HASH = {("Symlink", "dst", "Content(Entry)"), ("Symlink", "src", "Abs(Entry)")}


def run(ctx, rep):
    n = 0
    for cfg, w in ctx.worlds(lambda c: "link_to" in c):
        n += 1
        check_config(cfg, w, rep)
    rep.floor("link_to_configurations", n, 1, ctx.tier)
    return rep


def link_entries(w):
    return [lf for lf in w.public_fns() if lf.path.startswith("linkto::") and any(e.kind == "Symlink" for e in w.reach_effects(lf))]


def check_config(cfg, w, rep):
    prog = w.prog
    fw = FsWorld.get(w)
    is_async = not cfg.startswith("sync")
    # ---- (a) never modifies, never copies ----
    ents = link_entries(w)
    rep.floor("link_entry_points", len(ents), 12 if is_async else 6, cfg)
    for lf in ents:
        key = fn_key(lf)
        seen = set()
        keyed = False
        for e, role, c in entry_effects(w, fw, lf):
            item = (e.kind, role, shape(c))
            seen.add(item)
            if item not in ENTRY_MAY:
                rep.violation("a-extra:%s:%s:%s" % (key, e.kind, shape(c)),
                              "link_to entry point `%s` can perform %s on %s (in `%s`): linking must only create the content symlink and the index record — "
                              "never write, copy or stage data" % (short(lf.path), e.kind, shape(c), short(effect_fn(w, e).path)), loc=e.loc(), config=cfg, rule="a-never-copies")
                continue
            l = leaf(c)
            want = "other" if item == ("Symlink", "src", "Abs(Entry)") else "cache"
            if l[0] == "Entry" and fw.entry_role(l) != want:
                rep.violation("a-root:%s:%s:%s" % (key, e.kind, role), "`%s`: %s %s is rooted at parameter #%d (%s)" % (short(lf.path), e.kind, role, l[2], fw.entry_role(l)),
                              loc=e.loc(), config=cfg, rule="a-never-copies")
                continue
            if item[0] == "WriteData":
                keyed = True
        must = ENTRY_MUST_KEYED if keyed or "hash" not in lf.path else ENTRY_MUST_HASH
        is_commit_like = lf.outer.name in ("commit", "link_to", "link_to_sync", "link_to_hash", "link_to_hash_sync") and not lf.outer.impl_self == "put::WriteOpts"
        if lf.outer.name in ("link_to", "link_to_sync", "link_to_hash", "link_to_hash_sync") and lf.outer.impl_self is None:
            for item in (ENTRY_MUST_KEYED if "hash" not in lf.outer.name else ENTRY_MUST_HASH):
                if item not in seen:
                    rep.violation("a-missing:%s:%s" % (key, item[0]), "`%s` never performs %s on %s" % (short(lf.path), item[0], item[2]), loc=lf.body.loc(),
                                  config=cfg, rule="a-never-copies")
        rep.ob(cfg, "a-never-copies", key, "mutating effects of `%s` ⊆ {mkdir content parent, symlink abs(target) → content path, index append}" % short(lf.path))
    # effects rooted at the target: read-only except being the symlink's source
    n_t = 0
    for e in w.inv.effects:
        lfe = effect_fn(w, e)
        if not lfe.path.startswith(("linkto::", "content::linkto::")):
            continue
        for role, cs in fw.expanded(e).items():
            for c in cs:
                l = leaf(c)
                if l[0] != "Entry" or fw.entry_role(l) != "other" or not l[1].startswith("linkto::"):
                    continue
                n_t += 1
                ok = (not e.mutating) or (e.kind == "Symlink" and role == "src")
                if e.kind == "Open" and {k for k, v in e.flags.items() if v} != {"read"}:
                    ok = False
                if ok:
                    rep.ob(cfg, "a-target-readonly", "%s:%s:%s" % (fn_key(lfe), e.kind, role), "%s on the link target in `%s` is read-only" % (e.kind, short(lfe.path)))
                else:
                    rep.violation("a-target:%s:%s" % (fn_key(lfe), e.kind), "`%s` performs %s%s on the link target: the target must never be modified" % (
                        short(lfe.path), e.kind, e.flags or ""), loc=e.loc(), config=cfg, rule="a-target-readonly")
    rep.floor("target_effects", n_t, 4, cfg)

    # ---- (b) hashes what it reads, all of it ----
    n_r = 0
    for lf in prog.fns.values():
        o = lf.outer
        own = strip_refs(o.impl_self or "")
        if o.name in ("read", "poll_read") and o.impl_trait and own.startswith("content::linkto::"):
            n_r += 1
            check_linker_read(cfg, w, rep, lf)
    rep.floor("linker_read_impls", n_r, 2 if is_async else 1, cfg)
    for p in w.roles.commits:
        lf = prog.fns[p]
        if not lf.path.startswith("linkto::"):
            continue
        check_consume(cfg, w, rep, lf)

    # ---- (c) declared size and integrity are enforced as for ordinary writes; default size = the target's length ----
    sub = Report("C08")
    for p in w.roles.commits:
        if p.startswith("linkto::"):
            c08.check_commit(cfg, w, sub, prog.fns[p])
    for (c, rule, k, desc, ok) in sub.obligations:
        if ok:
            rep.ob(cfg, "c/" + rule, k, desc)
    for k, v in sub.violations.items():
        rep.violation("c:%s" % k, v.msg, loc=v.loc, config=cfg, rule="c/" + (v.rule or ""), witness=v.witness)
    n_sz = 0
    for lf in prog.fns.values():
        if not lf.path.startswith("linkto::"):
            continue
        for b, blk, t in prog.call_sites(lf):
            if t.callee is not None and t.callee.path == "put::WriteOpts::size":
                n_sz += 1
                tm = w.sym.of_operand(b, t.args[1])
                g = prog.fns.get(tm[1]) if tm[0] == "call" else None
                ok = False
                if g is not None:
                    rt = w.sym.of_place(g.body, 0, (("v", "Ok"), ("f", "0")))
                    s = term_str(rt)
                    ok = "std::fs::Metadata::len" in s and "std::path::Path::metadata(param#0" in s
                    # and it is applied to this function's target parameter
                    pl = w.path_like_params(lf)
                    ok = ok and tm[2] and tm[2][0][0] == "param" and pl and tm[2][0][2] == pl[-1]
                if ok:
                    rep.ob(cfg, "c-default-size", fn_key(lf), "`%s` declares size = metadata(target).len()" % short(lf.path))
                else:
                    rep.violation("c-default-size:%s" % fn_key(lf), "`%s` declares a size that is not the target file's length: %s" % (short(lf.path), term_str(tm)[:80]),
                                  loc=span_str(t.span), config=cfg, rule="c-default-size")
    rep.floor("default_size_sites", n_sz, 4 if is_async else 2, cfg)

    # ---- (d) an existing destination is accepted only under an existence probe; (e) the stored target is absolute ----
    for e in w.inv.effects:
        if e.kind != "Symlink":
            continue
        sf = effect_fn(w, e)
        # find the crate function that wraps the symlink call and decides about its failure
        for (g, b, blk, t) in prog.callers_of(sf) or [(sf, e.body, e.body.blocks[e.blk], e.term)]:
            body = b
            dst_term = w.sym.of_operand(b, t.args[1]) if len(t.args) > 1 else None

            def is_sym(o, t=t):
                return o.kind == "call" and o.term is t and not o.path

            def is_exists(o, dst_term=dst_term):
                if o.kind != "call" or o.callee is None or o.path:
                    return False
                if norm_callee(o.callee.path) not in ("std::path::Path::exists", "std::path::Path::try_exists"):
                    return False
                return teq(w.sym.of_operand(o.body, o.term.args[0]), dst_term)
            gates = match_gates(prog, body, is_sym, "Ok") + try_gates(prog, body, is_sym) + bool_gates(prog, body, is_exists, True)
            succ = [rd for rd in ret_defs(prog, body) if rd.cls in ("success", "unknown")]
            bad = unreachable_without(prog, body, gates, [rd.blk for rd in succ])
            if bad or not gates:
                rep.violation("d-symlink-failure:%s" % fn_key(g), "`%s` can report success although the symlink could not be created and the destination was not shown to exist" % short(g.path),
                              loc=span_str(t.span), config=cfg, rule="d-existing-destination")
            else:
                rep.ob(cfg, "d-existing-destination", fn_key(g), "`%s` succeeds only if symlink() succeeded or exists(same destination)" % short(g.path))
        # (e') the path is made absolute in the same function that opens the target (so that a relative path is resolved
        # against one working directory: the one in effect when the file was opened and hashed)
        src_term = e.terms.get("src")
        if src_term is not None and src_term[0] == "param" and src_term[1] == sf.path:
            srcs_up = arg_sources(w, sf, src_term[2])
        else:
            srcs_up = [(sf, e.body, e.body.blocks[e.blk], src_term)]
        for (g, b, blk, st) in srcs_up:
            t = blk.term
            if st[0] == "field":
                srcs = prog.field_sources(st[1], st[2])
                okf = bool(srcs)
                for (fb, fblk, fi, op) in srcs:
                    ft = w.sym.of_operand(fb, op) if op is not None else None
                    flf = prog.owner_fn(fb)
                    is_abs = ft is not None and ft[0] == "call" and norm_callee(ft[1]) in ("std::path::absolute", "std::fs::canonicalize", "std::path::Path::canonicalize") \
                        and ft[2] and ft[2][0][0] == "param"
                    opens_same = False
                    if is_abs:
                        for e2 in w.own_effects(flf):
                            if e2.kind == "Open" and e2.terms.get("path") == ft[2][0]:
                                opens_same = True
                    if not (is_abs and opens_same):
                        okf = False
                if okf:
                    rep.ob(cfg, "e-absolute-target", fn_key(g) + ":where-opened", "the stored target is absolutised in the constructor that opens it")
                else:
                    rep.violation("e-absolute-late:%s" % fn_key(g),
                                  "the link target stored by `%s` is not made absolute in the function that opens (and hashes) it: a relative target would be "
                                  "resolved against a different working directory at commit time than the one the bytes were read from" % st[1],
                                  loc=span_str(t.span), config=cfg, rule="e-absolute-target")
            else:
                rep.violation("e-absolute-late:%s" % fn_key(g), "the symlink source in `%s` is %s, not the linker's stored absolute target" % (short(g.path), term_str(st)[:80]),
                              loc=span_str(t.span), config=cfg, rule="e-absolute-target")
        # (e)
        shapes = {shape(c) for c in fw.expanded(e).get("src", set())}
        if shapes == {"Abs(Entry)"}:
            rep.ob(cfg, "e-absolute-target", fn_key(sf), "the path stored in the symlink is std::path::absolute(<caller's target>)")
        else:
            rep.violation("e-relative-target:%s" % fn_key(sf),
                          "the path stored in the content symlink is %s: a relative target is resolved from the content directory and dangles" % sorted(shapes),
                          loc=e.loc(), config=cfg, rule="e-absolute-target")


def check_linker_read(cfg, w, rep, lf):
    prog = w.prog
    body = lf.body
    key = fn_key(lf)
    own = strip_refs(lf.outer.impl_self)
    cf = prog.cfg(body)
    inputs = [(blk, t) for blk, t in body.calls() if t.callee is not None and t.callee.path == "ssri::IntegrityOpts::input" and blk.i in cf.live()]
    if not inputs:
        rep.violation("b-feed:%s" % key, "linker `%s` never feeds its digest builder" % short(lf.path), loc=body.loc(), config=cfg, rule="b-hashes-what-it-reads")
        return
    cut = {blk.i for blk, _ in inputs}
    # tolerated bypass: zero-length read
    zero_edges = set()
    for bb in body.blocks:
        tu = bb.term
        if bb.cleanup or bb.i not in cf.live() or tu.k != "switch" or tu.discr.place is None:
            continue
        for o in prog.resolve_pl(body, tu.discr.place, IDENT):
            if o.kind == "binop" and o.info.j["op"] in ("Gt", "Ne", "Eq", "Lt", "Le", "Ge"):
                ops = o.info.ops
                syms = [w.sym.of_operand(body, x) for x in ops]
                opn = o.info.j["op"]
                if opn in ("Gt", "Ne") and syms[1] == ("const", 0):
                    zero_edges.add((bb.i, switch_target(tu, 0)))
                elif opn == "Eq" and syms[1] == ("const", 0):
                    zero_edges.add((bb.i, switch_target(tu, 1)))
                elif opn == "Gt" and syms[0][0] == "call" and syms[1][0] == "call" and "filled" in term_str(syms[0]) and "filled" in term_str(syms[1]):
                    zero_edges.add((bb.i, switch_target(tu, 0)))     # filled().len() > pre_len  false => nothing read
                elif opn == "Lt" and syms[0] == ("const", 0):
                    zero_edges.add((bb.i, switch_target(tu, 0)))
            elif o.kind == "call" and o.callee is not None and o.callee.path.endswith("::is_empty") and tu.j.get("discr_ty") == "bool":
                # `if !bytes.is_empty() { builder.input(bytes) }`: the very slice that is hashed is empty
                a0 = w.sym.of_operand(o.body, o.term.args[0])
                if any(teq(a0, w.sym.of_operand(body, it.args[1])) for _, it in inputs):
                    zero_edges.add((bb.i, switch_target(tu, 1)))
            elif o.kind == "unop" and o.info.j["op"] == "Not":
                for o2 in prog.resolve_op(body, o.info.ops[0], IDENT, o.blk):
                    if o2.kind == "call" and o2.callee is not None and o2.callee.path.endswith("::is_empty"):
                        a0 = w.sym.of_operand(o2.body, o2.term.args[0])
                        if any(teq(a0, w.sym.of_operand(body, it.args[1])) for _, it in inputs):
                            zero_edges.add((bb.i, switch_target(tu, 0)))
    rds = [rd for rd in ret_defs(prog, body) if rd.cls in ("success", "unknown", "delegated")]
    reach = cf.reachable(0, cut_edges=zero_edges, cut_nodes=cut)
    bad = [rd for rd in rds if rd.blk in reach]
    if bad:
        rep.violation("b-feed:%s" % key, "linker `%s` can hand out bytes it has not hashed (success return at %s bypasses builder.input)" % (short(lf.path), blk_loc(body, bad[0].blk)),
                      loc=blk_loc(body, bad[0].blk), config=cfg, rule="b-hashes-what-it-reads")
    else:
        rep.ob(cfg, "b-hashes-what-it-reads", key, "every success return of `%s` passes builder.input (only bypass: nothing was read)" % short(lf.path))
    for blk, t in inputs:
        dep = prog.resolve_op(body, t.args[1], DEPEND, blk.i)
        want = 2 if lf.outer.name == "poll_read" else 1
        has_buf = any(o.kind == "param" and (prog.param_index(o) or (None, None))[1] == want for o in dep)
        inner = [o for o in dep if o.kind == "call" and o.callee is not None and re.search(r"(Read::read|AsyncRead::poll_read)$", o.callee.path)]
        filled = any(o.kind == "call" and o.callee is not None and o.callee.path.endswith("ReadBuf::<'a>::filled") for o in dep)
        tgt_ok = False
        for o in inner:
            h = prog.resolve_op(o.body, o.term.args[0], IDENT, o.blk)
            if h and all(x.kind == "field" and x.info[0] == own and any(
                    fn_ == x.info[1] and re.search(r"(^|::)fs::File$", fty_) for (_, fn_, fty_) in w.adt_fields(own)) for x in h):
                tgt_ok = True
        from .c01 import fed_slice_exact
        exact = fed_slice_exact(w, lf, body, blk, t, own) if has_buf and (tgt_ok or filled) else None
        if exact is True:
            rep.ob(cfg, "b-input-slice", key, "`%s` hashes exactly the bytes the read from the target just placed in the caller's buffer" % short(lf.path))
        elif exact is not None:
            rep.violation("b-slice:%s" % key, "`%s` does not hash exactly the bytes just read from the target (%s)" % (short(lf.path), exact), loc=span_str(t.span),
                          config=cfg, rule="b-hashes-what-it-reads")
        else:
            rep.violation("b-slice:%s" % key, "`%s` hashes something other than the bytes just read from the target" % short(lf.path), loc=span_str(t.span),
                          config=cfg, rule="b-hashes-what-it-reads")


def check_consume(cfg, w, rep, lf):
    """commit consumes the rest of the target before finalising the digest; the consume loop ends only on a zero-length read."""
    prog = w.prog
    body = lf.body
    key = fn_key(lf)
    # call to a method of the same type that (transitively) reads self, before the linker commit
    own = strip_refs(lf.outer.impl_self or "")
    consumers = []
    for b, blk, t, g in prog.local_calls(lf):
        if b is body and strip_refs(g.outer.impl_self or "") == own and g is not lf:
            reads = [x for x in w.reach_fns(g) if x.outer.name in ("read", "poll_read") and strip_refs(x.outer.impl_self or "") == own]
            if reads:
                consumers.append((blk, t, g))
    pubs = [(blk, t, g) for b, blk, t, g in prog.local_calls(lf) if b is body and (g.path in w.roles.symlink_reach) and not g.path.startswith("linkto::")]
    if not consumers or not pubs:
        rep.violation("b-consume:%s" % key, "commit `%s` does not drain the rest of the target before finalising the digest" % short(lf.path), loc=body.loc(),
                      config=cfg, rule="b-consumes-all")
        return
    cblk, ct, cg = consumers[0]

    def is_consume(o):
        return o.kind == "call" and o.term is ct and o.path in ((), (("await",),))
    gates = try_gates(prog, body, is_consume) + match_gates(prog, body, is_consume, "Ok")
    bad = unreachable_without(prog, body, gates, [blk.i for blk, _, _ in pubs])
    if bad or not gates:
        rep.violation("b-consume-order:%s" % key, "commit `%s` can finalise the digest and create the symlink without having drained the target (`%s`)" % (short(lf.path), short(cg.path)),
                      loc=span_str(pubs[0][1].span), config=cfg, rule="b-consumes-all")
    else:
        rep.ob(cfg, "b-consumes-all", key, "`%s` calls `%s`? before the linker commit on every path" % (short(lf.path), short(cg.path)))
    # the consume function: success only after a read that returned 0
    cbody = cg.body
    ccf = prog.cfg(cbody)
    zero_edges = []
    for bb in cbody.blocks:
        tu = bb.term
        if bb.cleanup or bb.i not in ccf.live() or tu.k != "switch" or tu.discr.place is None:
            continue
        for o in prog.resolve_pl(cbody, tu.discr.place, IDENT):
            if o.kind == "binop" and o.info.j["op"] in ("Gt", "Ne", "Eq"):
                srcs = [prog.resolve_op(cbody, x, IDENT, o.blk) for x in o.info.ops]
                consts = [s for s in srcs if s and all(y.kind == "const" and y.info.const_val == 0 for y in s)]
                amts = [s for s in srcs if s and all(y.kind == "call" and y.callee is not None and prog.callee_fn(y.term) is not None
                                                      and y.path[-2:] == (("v", "Ok"), ("f", "0")) for y in s)]
                if consts and amts:
                    # amount must come from a read through this same wrapper type
                    okr = True
                    for y in amts[0]:
                        rg = prog.callee_fn(y.term)
                        if not any(x.outer.name in ("read", "poll_read") and strip_refs(x.outer.impl_self or "") == own for x in w.reach_fns(rg)):
                            okr = False
                    if okr:
                        zv = 0 if o.info.j["op"] in ("Gt", "Ne") else 1
                        zero_edges.append(Gate(cbody, (bb.i, switch_target(tu, zv)), "read amount == 0", bb.i))
    succ = [rd for rd in ret_defs(prog, cbody) if rd.cls in ("success", "unknown")]
    bad = unreachable_without(prog, cbody, zero_edges, [rd.blk for rd in succ])
    if bad or not zero_edges:
        rep.violation("b-consume-loop:%s" % fn_key(cg), "`%s` can return success before a read of the target returned 0: the digest would cover only a prefix of the file" % short(cg.path),
                      loc=cbody.loc(), config=cfg, rule="b-consumes-all")
    else:
        rep.ob(cfg, "b-consumes-all", fn_key(cg), "`%s` returns Ok only after a read through the linker returned 0 bytes" % short(cg.path))
