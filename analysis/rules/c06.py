"""C06 — damage to an index file is contained to the damaged records (trust gate + skip-and-continue)."""
import re

from .common import *
from .c01 import _only_fails
from ..symval import walk

PROP = "C06"
NEXT = re.compile(r"^(std::iter::Iterator::next|futures::StreamExt::next|tokio_stream::StreamExt::next|futures::stream::StreamExt::next)$")


def run(ctx, rep):
    for cfg, w in ctx.worlds():
        is_async = not cfg.startswith("sync")
        rep.floor("bucket_readers", len(w.roles.bucket_readers), 2 if is_async else 1, cfg)
        for p in w.roles.bucket_readers:
            check_reader(cfg, w, rep, w.prog.fns[p])
        # (d) containment relies on every operation leaving its OWN record: a removal that skips its tombstone because "the key is
        #     absent anyway" makes that absence hang on one earlier record — damage to that single record then revives the entry,
        #     i.e. it affects more than the damaged record (C09's lower bound, re-checked)
        from ..framework import Report
        from . import c09
        sub = Report("C09")
        c09.check_removal_effects(cfg, w, sub)
        for (c_, rule, k, desc, ok) in sub.obligations:
            if rule == "lower-bound" and ok:
                rep.ob(cfg, "d/" + rule, k, desc)
        for k, v in sub.violations.items():
            if v.rule == "lower-bound":
                rep.violation("d:%s" % k, "damage to one record could change more than that record — " + v.msg, loc=v.loc, config=cfg, rule="d/lower-bound")
    return rep


def check_reader(cfg, w, rep, lf):
    prog = w.prog
    key = fn_key(lf)
    body = lf.body
    cf = prog.cfg(body)
    R = w.roles
    fs = [(b, blk, t) for b, blk, t in prog.call_sites(lf) if t.callee is not None and t.callee.path in (
        "serde_json::from_str", "serde_json::from_slice")]
    if len(fs) != 1 or fs[0][0] is not body:
        rep.violation("shape:%s" % key, "UNRECOGNISED-IDIOM: bucket reader `%s` does not parse records at exactly one site of its own body (%d sites)" % (
            short(lf.path), len(fs)), loc=body.loc(), config=cfg, rule="a-trust-gate")
        return
    _, fblk, ft = fs[0]

    # ---- (a) trust gate: JSON is parsed only after HASH_ENTRY(payload) == stored hash, both from the same 2-field split ----
    payload = prog.resolve_op(body, ft.args[0], IDENT, fblk.i)
    helper = _validating_helper(prog, body, payload)
    if helper is None:
        _trust_gate(cfg, w, rep, lf, body, payload, [fblk.i], span_str(ft.span), "parse a record's JSON")
    else:
        # the payload is what a private helper hands back in Some(..): the reader must parse only on the Some arm, and the
        # helper must hand back a payload only through the checksum gate (same clauses, one call deeper)
        g, hcalls = helper
        some_gates = match_gates(prog, body, lambda o: o.kind == "call" and any(o.term is hc.term for hc in hcalls) and not o.path, "Some")
        if not some_gates or unreachable_without(prog, body, some_gates, [fblk.i]):
            rep.violation("a-bypass:%s" % key, "bucket reader `%s` can parse a line that its validating helper `%s` rejected" % (short(lf.path), short(g.path)),
                          loc=span_str(ft.span), config=cfg, rule="a-trust-gate")
        gb = g.body
        somes = []
        for rd in ret_defs(prog, gb):
            if rd.cls == "success":
                somes.append(rd.blk)
        pay_g = prog.resolve_lifted(gb, 0, (("v", "Some"), ("f", "0")), IDENT)
        if not somes or not pay_g:
            rep.violation("a-gate:%s" % key, "UNRECOGNISED-IDIOM: validating helper `%s` of `%s` does not return Some(payload)" % (short(g.path), short(lf.path)),
                          loc=gb.loc(), config=cfg, rule="a-trust-gate")
        else:
            _trust_gate(cfg, w, rep, lf, gb, pay_g, somes, gb.loc(), "hand back a payload", via=g)
    # ---- (b0) the line stream is the bucket file's own lines, not adapted by anything that could end or filter it ----
    _line_source(cfg, w, rep, lf)

    # ---- (b) skip and continue ----
    loops = [(h, bl) for h, bl in cf.loops() if fblk.i in bl]
    if not loops:
        rep.violation("b-idiom:%s" % key, "UNRECOGNISED-IDIOM: bucket reader `%s` does not iterate over lines in a loop" % short(lf.path),
                      loc=body.loc(), config=cfg, rule="b-skip-continue")
        return
    h, bl = max(loops, key=lambda x: len(x[1]))
    exits = [(u, v) for u in sorted(bl) for v in cf.succ[u] if v not in bl]
    n_end = 0
    n_err = 0
    for (u, v) in exits:
        tu = body.blocks[u].term
        cls = None
        if _only_fails(prog, body, v) and body.blocks[v].term.k != "unreachable" and not _is_unreachable_only(prog, body, v):
            # error exit: must carry the line's own read error and must not be taken for InvalidData
            if _error_exit_ok(prog, body, u, v):
                cls = "io-error"
                n_err += 1
            else:
                cls = None
        elif _is_unreachable_only(prog, body, v):
            continue
        elif tu.k == "switch" and tu.discr.place is not None:
            for o in prog.resolve_pl(body, tu.discr.place, IDENT):
                if o.kind == "discr":
                    pl = o.info.place
                    src = prog.resolve_lifted(body, pl.local, norm_path(pl), IDENT, at=u)
                    if src and all(x.kind == "call" and x.callee is not None and NEXT.search(x.callee.path) and
                                   x.path in ((), (("await",),)) for x in src) and switch_target(tu, VIDX["None"]) == v:
                        cls = "stream-end"
                        n_end += 1
        if cls is None:
            rep.violation("b-stop:%s" % key,
                          "bucket reader `%s` can leave its line loop at %s for a reason other than end-of-file or a genuine read error: "
                          "one bad record would hide every record after it" % (short(lf.path), blk_loc(body, u)),
                          loc=blk_loc(body, u), config=cfg, rule="b-skip-continue")
    if n_end == 1:
        rep.ob(cfg, "b-skip-continue", key, "line loop of `%s` ends only at end of stream (+%d genuine-read-error exit); every rejection continues" % (short(lf.path), n_err))
    elif n_end != 1:
        rep.violation("b-end:%s" % key, "bucket reader `%s`: expected exactly one end-of-stream exit, found %d" % (short(lf.path), n_end),
                      loc=body.loc(), config=cfg, rule="b-skip-continue")
    # undecodable line is skipped, not fatal: the Err arm of the line has an InvalidData guard that stays in the loop
    if _invalid_data_continue(prog, body, bl):
        rep.ob(cfg, "b-undecodable-line", key, "a line that is not valid UTF-8 (InvalidData) is skipped inside the loop")
    else:
        rep.violation("b-undecodable:%s" % key, "bucket reader `%s` does not skip a line that is not valid UTF-8 (InvalidData) and continue" % short(lf.path),
                      loc=body.loc(), config=cfg, rule="b-skip-continue")

    # ---- (b2) completeness: a line that decodes, has two fields, matches its checksum and parses IS collected. Inside the loop,
    #      the only ways round without pushing are the rejections the format defines (undecodable line, field count, checksum,
    #      JSON error — or the validating helper's None); any other `continue` silently drops valid records ----
    _reader_complete(cfg, w, rep, lf, body, h, bl, ft, helper)

    # ---- (c) what is collected and returned is exactly the validated records ----
    pushes = [(b, blk, t) for b, blk, t in prog.call_sites(lf) if t.callee is not None and t.callee.path == "std::vec::Vec::<T, A>::push" and b is body]
    ok = False
    if len(pushes) == 1:
        _, pblk, pt = pushes[0]
        item = prog.resolve_op(body, pt.args[1], IDENT, pblk.i)
        if item and all(x.kind == "call" and x.term is ft and x.path == (("v", "Ok"), ("f", "0")) for x in item):
            vec = prog.resolve_op(body, pt.args[0], IDENT, pblk.i)
            rets = [rd for rd in ret_defs(prog, body) if rd.cls == "success"]
            okr = True
            n_vec = 0
            for rd in rets:
                pay = prog.resolve_lifted(body, 0, (("v", "Ok"), ("f", "0")), IDENT, at=rd.blk)
                for x in pay:
                    if x in vec:
                        n_vec += 1
                    elif x.kind == "call" and x.callee is not None and x.callee.path == "std::vec::Vec::<T>::new":
                        pass
                    else:
                        okr = False
            ok = okr and n_vec >= 1
    if ok and len(pushes) == 1:
        vec = prog.resolve_op(body, pushes[0][2].args[0], IDENT, pushes[0][1].i)
        for blk_, t_ in body.calls():
            if t_.callee is not None and t_.args and inplace_call(t_.callee.path) and not t_.callee.path.endswith("::push"):
                a0 = prog.resolve_op(body, t_.args[0], OKFLOW, blk_.i)
                if a0 and vec and (a0 & vec):
                    ok = False
                    rep.violation("c-order:%s" % key,
                                  "bucket reader `%s` changes the collected records in place (`%s`) before returning them: their order is the "
                                  "file order that lookups and the listing rely on" % (short(lf.path), t_.callee.path.rsplit("::", 1)[-1]),
                                  loc=span_str(t_.span), config=cfg, rule="c-collects-validated")
    if ok:
        rep.ob(cfg, "c-collects-validated", key, "`%s` returns exactly the records that passed the checksum and parsed" % short(lf.path))
    elif not any(k_.startswith("c-order:") for k_ in rep.violations):
        rep.violation("c-collect:%s" % key, "bucket reader `%s` does not return exactly the vector of validated records" % short(lf.path),
                      loc=body.loc(), config=cfg, rule="c-collects-validated")


def _split_field(origins):
    """origins all denote element [i] of the same `split(..).collect()[..]`; return (base key, i)."""
    res = None
    for o in origins:
        if o.kind != "call" or o.callee is None:
            return None
        idxs = [e for e in o.path if e[0] == "[]" and len(e) == 4]
        if len(idxs) != 1:
            return None
        base = (o.body.path, o.blk)
        r = (base, idxs[0][2])
        if res is not None and res != r:
            return None
        res = r
    return res


def _is_unreachable_only(prog, body, v):
    cf = prog.cfg(body)
    reach = cf.reachable(v)
    return not any(body.blocks[b].term.k == "return" for b in reach)


def _error_exit_ok(prog, body, u, v):
    """The failure returned on this exit carries the Err payload of the line just read."""
    cf = prog.cfg(body)
    reach = cf.reachable(v)
    for rd in ret_defs(prog, body):
        if rd.blk in reach and rd.cls == "failure":
            pay = prog.resolve_lifted(body, 0, (("v", "Err"), ("f", "0")), OKFLOW, at=rd.blk)
            if pay and all(x.kind == "call" and x.callee is not None and NEXT.search(x.callee.path) for x in pay):
                return True
    return False


def _invalid_data_continue(prog, body, loop_blocks):
    cf = prog.cfg(body)
    for b in loop_blocks:
        tu = body.blocks[b].term
        if tu.k != "switch" or tu.discr.place is None or tu.j.get("discr_ty") != "bool":
            continue
        for o in prog.resolve_pl(body, tu.discr.place, IDENT):
            if o.kind == "call" and o.callee is not None and o.callee.path == "std::cmp::PartialEq::eq":
                from ..symval import Sym
                sym = getattr(prog, "_c06_sym", None) or Sym(prog)
                prog._c06_sym = sym
                txt = " ".join(term_str(sym.of_operand(body, a)) for a in o.term.args)
                if "InvalidData" in txt and "std::io::Error::kind" in txt:
                    t_true = switch_target(tu, 1)
                    # the true edge stays inside the loop (reaches the header again without leaving)
                    if t_true in loop_blocks:
                        return True
    return False


def _validating_helper(prog, body, payload):
    """If every leaf of the parsed payload is the Some payload of a call to one private crate function, return
    (that function, the call origins)."""
    if not payload:
        return None
    gs = set()
    for o in payload:
        if o.kind != "call" or o.callee is None or tuple(o.path) != (("v", "Some"), ("f", "0")):
            return None
        g = prog.callee_fn(o.term)
        if g is None or g.outer.reachable:
            return None
        gs.add(g.path)
    if len(gs) != 1:
        return None
    return prog.fns[next(iter(gs))], list(payload)


def _trust_gate(cfg, w, rep, lf, body, payload, targets, loc, what, via=None):
    """In `body`: the blocks `targets` (the JSON parse, or a helper's Some(payload) returns) are reachable only through the
    equal edge of HASH_ENTRY(payload) ==/!= stored hash, where payload and stored hash are fields 1 and 0 of the same
    TAB-split of the line, and the split has exactly two fields."""
    prog = w.prog
    R = w.roles
    key = fn_key(lf)
    cf = prog.cfg(body)
    where = "`%s`" % short(lf.path) + (" (through `%s`)" % short(via.path) if via is not None else "")
    gate = None
    why = "no comparison of HASH_ENTRY(payload) with the stored hash guards it"
    for b in body.blocks:
        tu = b.term
        if b.cleanup or b.i not in cf.live() or tu.k != "switch" or tu.discr.place is None or tu.j.get("discr_ty") != "bool":
            continue
        for o in prog.resolve_pl(body, tu.discr.place, IDENT):
            if o.kind != "call" or o.callee is None or o.callee.path not in ("std::cmp::PartialEq::eq", "std::cmp::PartialEq::ne"):
                continue
            equal_edge = 1 if o.callee.path.endswith("::eq") else 0
            sides = [prog.resolve_op(body, a, IDENT, o.blk) for a in o.term.args]
            for hs, st in ((sides[0], sides[1]), (sides[1], sides[0])):
                # hs: HASH_ENTRY(x) call ; st: stored hash
                hcalls = [x for x in hs if x.kind == "call" and prog.callee_fn(x.term) is not None
                          and R.hash_fns.get(prog.callee_fn(x.term).path) == "sha256" and not x.path]
                if len(hcalls) != len(hs) or not hcalls:
                    continue
                hx = prog.resolve_op(body, hcalls[0].term.args[0], IDENT, hcalls[0].blk)
                if hx != payload:
                    why = "the checksum is computed over %s but %s is used" % (sorted(map(repr, hx))[:1], sorted(map(repr, payload))[:1])
                    continue
                f_payload = _split_field(payload)
                f_hash = _split_field(st)
                if f_payload is None or f_hash is None or f_payload[0] != f_hash[0] or (f_hash[1], f_payload[1]) != (0, 1):
                    why = "UNRECOGNISED-IDIOM: stored hash and payload are not fields 0 and 1 of the same tab-split of the line"
                    continue
                gate = Gate(body, (b.i, switch_target(tu, equal_edge)), "hash_entry(fields[1]) == fields[0]", o.blk)
    if gate is None:
        rep.violation("a-gate:%s" % key, "bucket reader %s: %s" % (where, why), loc=loc, config=cfg, rule="a-trust-gate")
        return
    bad = unreachable_without(prog, body, [gate], targets)
    if bad:
        rep.violation("a-bypass:%s" % key, "bucket reader %s can %s without its checksum having matched" % (where, what),
                      loc=loc, config=cfg, rule="a-trust-gate", witness=witness_str(body, bad[0][1]))
    else:
        rep.ob(cfg, "a-trust-gate", key, "%s: JSON is parsed only on the equal edge of SHA-256-hex(fields[1]) vs fields[0]" % where)
    # exactly two fields, split on a tab
    lg = None
    for b in body.blocks:
        tu = b.term
        if b.cleanup or tu.k != "switch" or tu.discr.place is None:
            continue
        for o in prog.resolve_pl(body, tu.discr.place, IDENT):
            if o.kind == "binop" and o.info.j["op"] == "Eq":
                vals = []
                for x in o.info.ops:
                    for y in prog.resolve_op(body, x, IDENT, o.blk):
                        vals.append(y)
                has2 = any(y.kind == "const" and y.info.const_val == 2 for y in vals)
                haslen = any(y.kind == "unop" and y.info.j["op"] == "PtrMetadata" for y in vals) or \
                    any(y.kind == "call" and y.callee is not None and y.callee.path.endswith("::len") for y in vals)
                if has2 and haslen:
                    lg = Gate(body, (b.i, switch_target(tu, 1)), "field count == 2", b.i)
    if lg is not None and not unreachable_without(prog, body, [lg], targets):
        rep.ob(cfg, "a-two-fields", key, "%s requires exactly two tab-separated fields" % where)
    else:
        rep.violation("a-fields:%s" % key, "bucket reader %s does not require a line to have exactly two fields" % where,
                      loc=loc, config=cfg, rule="a-trust-gate")
    sep = None
    for blk, t in body.calls():
        if t.callee is not None and t.callee.path == "core::str::<impl str>::split" and len(t.args) > 1 and t.args[1].is_const:
            sep = t.args[1].const_val
    if sep == "\t":
        rep.ob(cfg, "a-separator", key, "fields are split on TAB")
    else:
        rep.violation("a-separator:%s" % key, "bucket reader %s splits fields on %r instead of TAB" % (where, sep),
                      loc=loc, config=cfg, rule="a-trust-gate")


LINES = re.compile(r"(^std::io::BufRead::lines|AsyncBufReadExt::lines)$")
BUFREADER = re.compile(r"(^|::)io::BufReader::<R>::new$")
FILE_OPEN = re.compile(r"(^|::)fs::File::open$")
# stream wrappers that yield every item of the wrapped line reader, errors included, and go on after an error
FAITHFUL_WRAPPERS = ("tokio_stream::wrappers::LinesStream::<R>::new",)


def _line_source(cfg, w, rep, lf):
    """The receiver of the reader's next() is lines(BufReader::new(File::open(<path parameter>))), seen through at most a
    crate-local runtime adapter whose whole body is the identity or a faithful wrapper. Any other adaptor (map_while,
    take_while, try_unfold, scan, filter ...) may end the stream at the first bad line or drop lines silently."""
    prog = w.prog
    key = fn_key(lf)
    nexts = [(b, blk, t) for b, blk, t in prog.call_sites(lf) if t.callee is not None and NEXT.search(t.callee.path) and b is lf.body]
    if len(nexts) != 1:
        rep.violation("b-source:%s" % key, "UNRECOGNISED-IDIOM: bucket reader `%s` pulls lines at %d sites (expected one)" % (short(lf.path), len(nexts)),
                      loc=lf.body.loc(), config=cfg, rule="b-line-source")
        return
    b, blk, t = nexts[0]
    term = w.sym.of_operand(b, t.args[0])
    seen = []
    cur = term
    for _ in range(4):
        if cur[0] != "call":
            break
        g = prog.fns.get(cur[1])
        if g is not None and len(cur[2]) == 1:
            # crate-local adapter: its return value must be its argument, or a faithful wrapper of it
            rt = w.sym.of_place(g.body, 0, ())
            arg0 = ("param", g.path, 0, ())
            ok = rt == arg0 or (rt[0] == "call" and rt[1] in FAITHFUL_WRAPPERS and tuple(rt[2]) == (arg0,) and not rt[3])
            if not ok:
                rep.violation("b-source:%s" % key,
                              "bucket reader `%s` reads its lines through `%s`, which is %s — not the identity or a wrapper known to yield every "
                              "line and to continue after an undecodable one: the stream may end at the first bad line" % (
                                  short(lf.path), short(g.path), term_str(rt)[:120]), loc=g.body.loc(), config=cfg, rule="b-line-source")
                return
            seen.append(short(g.path))
            cur = cur[2][0]
            continue
        break
    ok = (cur[0] == "call" and LINES.search(cur[1]) and not cur[3] and len(cur[2]) == 1 and
          cur[2][0][0] == "call" and BUFREADER.search(cur[2][0][1]) and len(cur[2][0][2]) == 1)
    if ok:
        f = cur[2][0][2][0]
        ok = f[0] == "call" and FILE_OPEN.search(f[1]) and len(f[2]) == 1 and f[2][0] == ("param", lf.path, 0, ())
    if ok:
        rep.ob(cfg, "b-line-source", key, "`%s` iterates lines(BufReader::new(File::open(<its path>)))%s with no adaptor in between" % (
            short(lf.path), " through the runtime adapter " + ", ".join(seen) if seen else ""))
    else:
        rep.violation("b-source:%s" % key,
                      "bucket reader `%s` does not iterate the plain lines of its bucket file: %s — an adaptor between the file and the loop "
                      "can end the stream early or drop lines" % (short(lf.path), term_str(term)[:160]), loc=span_str(t.span), config=cfg,
                      rule="b-line-source")


def _reader_complete(cfg, w, rep, lf, body, h, bl, ft, helper):
    prog = w.prog
    R = w.roles
    key = fn_key(lf)
    cf = prog.cfg(body)
    pushes = [blk.i for blk, t in body.calls() if t.callee is not None and t.callee.path == "std::vec::Vec::<T, A>::push" and blk.i in bl]
    if len(pushes) != 1:
        return      # reported under (c)
    push = pushes[0]
    outside = set(cf.live()) - set(bl)

    def reaches_push(v):
        return push in cf.reachable(v, cut_nodes=outside | {h}) or v == push
    allowed = set()
    for b in bl:
        tu = body.blocks[b].term
        if tu.k != "switch" or tu.discr.place is None:
            continue
        ok_switch = False
        for o in prog.resolve_pl(body, tu.discr.place, IDENT):
            if o.kind == "discr":
                pl = o.info.place
                # (OKFLOW: `from_str(..).ok()` decides what `from_str(..)` decides; a constant `None` / `Err(..)` built on some
                #  path — the `return None` of a helper that was looked through — decides nothing here: the decision was taken
                #  at the branch that led to it, and the variant-sensitive reachability follows it through this switch)
                src = prog.resolve_lifted(body, pl.local, norm_path(pl), OKFLOW, at=b)
                dec = [x for x in src if not (x.kind == "agg" and x.info.j.get("agg") == "adt" and x.info.j.get("variant") in ("None", "Some", "Ok", "Err"))]
                if dec and all(x.kind == "call" and x.callee is not None and (
                        NEXT.search(x.callee.path) or x.term is ft or
                        (helper is not None and any(x.term is hc.term for hc in helper[1]))) for x in dec):
                    ok_switch = True
            elif o.kind == "call" and o.callee is not None and o.callee.path in ("std::cmp::PartialEq::eq", "std::cmp::PartialEq::ne"):
                sides = [prog.resolve_op(body, a, IDENT, o.blk) for a in o.term.args]
                for side in sides:
                    if side and all(x.kind == "call" and prog.callee_fn(x.term) is not None and
                                    R.hash_fns.get(prog.callee_fn(x.term).path) == "sha256" for x in side):
                        ok_switch = True
                # the InvalidData test of an undecodable line
                from ..symval import Sym
                sym = getattr(prog, "_c06_sym", None) or Sym(prog)
                prog._c06_sym = sym
                txt = " ".join(term_str(sym.of_operand(body, a)) for a in o.term.args)
                if "InvalidData" in txt and "std::io::Error::kind" in txt:
                    ok_switch = True
            elif o.kind == "binop" and o.info.j["op"] in ("Eq", "Ne", "Lt", "Ge"):
                vals = [y for x in o.info.ops for y in prog.resolve_op(body, x, IDENT, o.blk)]
                if any(y.kind == "const" and y.info.const_val in (1, 2) for y in vals) and (
                        any(y.kind == "unop" and y.info.j["op"] == "PtrMetadata" for y in vals) or
                        any(y.kind == "call" and y.callee is not None and y.callee.path.endswith("::len") for y in vals)):
                    ok_switch = True      # the field-count test of the slice pattern
        if ok_switch:
            for v in cf.succ[b]:
                if v in bl and not reaches_push(v):
                    allowed.add((b, v))
    back = [u for u in bl if h in cf.succ[u]]
    reach = cf.reachable(h, cut_edges=allowed, cut_nodes=outside | {push})
    skipped = [u for u in back if u in reach]
    if skipped:
        # find the offending branch: a switch inside the loop, reachable, one of whose edges avoids the push and is not allowed
        where = None
        for b in sorted(reach):
            tu = body.blocks[b].term
            if tu.k == "switch" and b in bl:
                for v in cf.succ[b]:
                    if v in bl and (b, v) not in allowed and not reaches_push(v):
                        where = blk_loc(body, b)
                        break
            if where:
                break
        rep.violation("b-drops-valid:%s" % key,
                      "bucket reader `%s` can skip a line for a reason the format does not define (branch at %s): a record that decodes, has "
                      "two fields, matches its checksum and parses would be dropped" % (short(lf.path), where or "?"),
                      loc=where or body.loc(), config=cfg, rule="b-complete")
    else:
        rep.ob(cfg, "b-complete", key, "in `%s` every line that passes decode, field count, checksum and JSON parse is collected" % short(lf.path))
