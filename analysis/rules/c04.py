"""C04 — an interrupted keyed write/removal is all-or-nothing (structural clauses a–c)."""
from .common import *
from .c08 import publication_origin, insert_calls
from ..symval import walk, teq

PROP = "C04"


def run(ctx, rep):
    for cfg, w in ctx.worlds():
        check_config(cfg, w, rep)
    return rep


def record_template(w, body, op):
    """Symbolic term of a buffer written to the bucket; returns (fmt term or None, whole term)."""
    t = w.sym.of_operand(body, op)
    cur = t
    # peel identity wrappers recorded as calls (as_bytes etc. are already folded)
    for st in walk(t):
        if st[0] == "fmt":
            return st, t
    return None, t


def check_config(cfg, w, rep, strict_single=False):
    prog = w.prog
    R = w.roles
    is_async = not cfg.startswith("sync")
    # ---- (a) insert only after the content publication succeeded ----
    for p in R.commits:
        lf = prog.fns[p]
        body = lf.body
        key = fn_key(lf)
        gates = try_gates(prog, body, lambda o: publication_origin(w, o) and o.path in AWAIT_PATHS) + \
            match_gates(prog, body, lambda o: publication_origin(w, o) and o.path in AWAIT_PATHS, "Ok")
        gates += match_gates(prog, body, lambda o: publication_origin(w, o) and o.path in AWAIT_PATHS, "Ok")
        ins = [(b, blk, t) for b, blk, t in insert_calls(w, lf) if b is body]
        if not gates:
            rep.violation("a-nopub:%s" % key, "commit `%s` never checks the result of the content publication" % short(lf.path),
                          loc=body.loc(), config=cfg, rule="a-publish-before-index")
            continue
        bad = unreachable_without(prog, body, gates, [blk.i for _, blk, _ in ins])
        if bad:
            for blk, wit in bad:
                rep.violation("a-order:%s" % key,
                              "commit `%s` can append the index record (at %s) without the content publication having succeeded" % (
                                  short(lf.path), blk_loc(body, blk)), loc=blk_loc(body, blk), config=cfg,
                              rule="a-publish-before-index", witness=witness_str(body, wit))
        else:
            rep.ob(cfg, "a-publish-before-index", key, "index insertion in `%s` is reachable only through the Ok arm of %s" % (
                short(lf.path), gates[0].what))
    rep.floor("commits", len(R.commits), (2 if is_async else 1) * (2 if "link_to" in cfg else 1), cfg)
    # "whenever the new entry is visible its content is already completely stored": the publication the insert waits for must not
    # report success on a failed step unless the address really holds content — close() (C03 e) and, with link_to, the linker's
    # symlink step (C19 d), re-checked here
    from ..framework import Report
    subs = []
    from . import c03
    sb = Report("C03")
    c03.check_config(cfg, w, sb)
    subs.append((sb, ("e-failed-publication",)))
    if "link_to" in cfg:
        from . import c19
        sb = Report("C19")
        c19.check_config(cfg, w, sb)
        subs.append((sb, ("d-existing-destination",)))
    for sb, rules in subs:
        for (c_, rule, k, desc, ok) in sb.obligations:
            if rule in rules and ok:
                rep.ob(cfg, "a/" + rule, k, desc)
        for k, v in sb.violations.items():
            if v.rule in rules:
                rep.violation("a:%s" % k, "an entry could become visible although its content is not stored — " + v.msg, loc=v.loc, config=cfg,
                              rule="a/" + v.rule, witness=v.witness)

    # ---- (b) one record = "\n" + HASH_ENTRY(json) + "\t" + json, emitted by all-or-error writes on the append handle ----
    # (crash atomicity needs the leading newline, the checksum and writes that cannot silently stop half-way; that the
    #  record goes out as ONE write call is a concurrency requirement and is demanded by C07 through strict_single)
    for p in R.index_inserts:
        lf = prog.fns[p]
        key = fn_key(lf)
        em = record_emission(w, lf)
        writes = em["writes"]
        loc0 = writes[0].loc() if writes else lf.body.loc()
        if not writes or em["others"]:
            rep.violation("b-onewrite:%s" % key,
                          "index insert `%s` emits a record with %d data write call(s) on the bucket (+%d elsewhere)" % (
                              short(lf.path), len(writes), len(em["others"])), loc=lf.body.loc(), config=cfg, rule="b-single-append")
            continue
        for e in writes:
            if e.flags.get("op") not in ALL_OR_ERROR_WRITES:
                rep.violation("b-partial:%s" % key, "index insert `%s` uses `%s`, which may write only part of the record and still report success" % (
                    short(lf.path), e.flags.get("op")), loc=e.loc(), config=cfg, rule="b-single-append")
        for pr in em["problems"]:
            rep.violation("b-loop:%s" % key, "index insert `%s`: %s" % (short(lf.path), pr), loc=loc0, config=cfg, rule="b-single-append")
        if strict_single:
            if len(writes) != 1 or writes[0].flags.get("op") != "write_all":
                rep.violation("b-strict:%s" % key,
                              "index insert `%s` emits the record with %s instead of one write_all of one buffer: the record can reach the "
                              "O_APPEND descriptor in several system calls, so a concurrent appender can land inside it" % (
                                  short(lf.path), " + ".join(e.flags.get("op", "?") for e in writes)), loc=loc0, config=cfg, rule="b-one-write-call")
            else:
                rep.ob(cfg, "b-one-write-call", key, "`%s` hands the whole record to one write_all" % short(lf.path))
        ok = False
        why = "what is written is not understood as a record template"
        pieces = em["pieces"]
        if pieces is not None:
            if len(pieces) == 4 and pieces[0] == ("lit", "\n") and pieces[1][0] == "arg" and pieces[2] == ("lit", "\t") \
                    and pieces[3][0] == "arg":
                h, j = pieces[1][2], pieces[3][2]
                if h[0] == "call" and h[1] in R.hash_fns and R.hash_fns[h[1]] == "sha256" and len(h[2]) == 1 and teq(h[2][0], j):
                    if pieces[1][1] == "new_display" and pieces[3][1] == "new_display" and pieces[1][3] == 0xC0 and pieces[3][3] == 0xC0:
                        ok = True
                    else:
                        why = "placeholders are not plain Display"
                else:
                    why = "first placeholder is not HASH_ENTRY(second placeholder): %s vs %s" % (term_str(h)[:60], term_str(j)[:60])
            else:
                why = "template is %r, expected \"\\n{}\\t{}\"" % ("".join(x[1] if x[0] == "lit" else "{}" for x in pieces),)
        if ok:
            rep.ob(cfg, "b-record-template", key, "`%s` appends \"\\n{HASH_ENTRY(json)}\\t{json}\" with %s on the append handle" % (
                short(lf.path), "+".join(e.flags.get("op", "?") for e in writes)))
        else:
            rep.violation("b-template:%s" % key, "index insert `%s`: %s" % (short(lf.path), why), loc=loc0, config=cfg,
                          rule="b-record-template")
    rep.floor("index_inserts", len(R.index_inserts), 2 if is_async else 1, cfg)

    # ---- (c) bucket files: append+create or read-only; removed only by the documented full removal ----
    n_bucket = 0
    from .fsrules import FsWorld
    fw_ = FsWorld.get(w)
    for e in w.inv.effects:
        # judged on the path the effect really gets: a helper that is handed the bucket path (parameter) is expanded to its
        # callers' arguments
        classes = dict(e.classes)
        for role, cs in fw_.expanded(e).items():
            if role in classes and classes[role][0] in ("Param", "Handle") and cs:
                for x in cs:
                    cur_ = x
                    while isinstance(cur_, tuple) and cur_ and cur_[0] in ("Handle", "Parent"):
                        cur_ = cur_[1]
                    if isinstance(cur_, tuple) and cur_ and cur_[0] == "Bucket":
                        classes[role] = x
                        break
        for role, c in classes.items():
            if role in ("builder", "len"):
                continue
            root = c
            touches_bucket = False
            cur = c
            while isinstance(cur, tuple) and cur and cur[0] in ("Handle", "Parent"):
                cur = cur[1]
            if isinstance(cur, tuple) and cur and cur[0] == "Bucket":
                touches_bucket = True
            if not touches_bucket:
                continue
            n_bucket += 1
            lf = prog.owner_fn(e.body)
            key = "%s:%s:%s" % (fn_key(lf), e.kind, class_shape(c))
            if e.kind == "Open":
                fl = {k: v for k, v in e.flags.items() if v}
                if fl in ({"read": True},) or (fl.get("append") is True and not fl.get("write") and not fl.get("truncate")
                                              and "?" not in fl and set(fl) <= {"append", "create", "read"}):
                    rep.ob(cfg, "c-bucket-open", key, "bucket opened with %s in `%s`" % (sorted(fl), short(lf.path)))
                else:
                    rep.violation("c-open:%s" % fn_key(lf),
                                  "`%s` opens an index bucket with flags %s (only append+create or read-only keep records intact)" % (
                                      short(lf.path), fl), loc=e.loc(), config=cfg, rule="c-bucket-open")
            elif e.kind == "WriteData":
                rep.ob(cfg, "c-bucket-write", key, "append write in `%s`" % short(lf.path))
            elif e.kind == "CreateDir" and c[0] == "Parent":
                rep.ob(cfg, "c-bucket-mkdir", key, "creates the bucket's parent directories")
            elif e.kind == "RemoveFile" and c[0] == "Bucket":
                if lf.outer.impl_self and "RemoveOpts" in lf.outer.impl_self:
                    rep.ob(cfg, "c-bucket-remove", key, "bucket file removed only by RemoveOpts (documented remove_fully)")
                else:
                    rep.violation("c-remove:%s" % fn_key(lf), "`%s` deletes an index bucket file" % short(lf.path),
                                  loc=e.loc(), config=cfg, rule="c-bucket-remove")
            elif e.mutating:
                rep.violation("c-mut:%s:%s" % (fn_key(lf), e.kind),
                              "`%s` performs %s on an index bucket (%s): buckets must only be appended to" % (
                                  short(lf.path), e.kind, class_str(c)), loc=e.loc(), config=cfg, rule="c-bucket-mutation")
    rep.floor("bucket_effects", n_bucket, 8 if is_async else 5, cfg)

    # ---- (c2) removal of a key = insertion of a tombstone (constant None integrity) ----
    n_tomb = 0
    for lf in prog.fns.values():
        for b, blk, t, g in prog.local_calls(lf):
            if g.path not in R.index_inserts or lf.path in R.commits:
                continue
            # the options argument
            optt = options_value(w, b, t.args[2])
            if optt[0] == "agg" and optt[1] == "put::WriteOpts":
                if is_tombstone_options(optt):
                    n_tomb += 1
                    rep.ob(cfg, "c-tombstone", fn_key(lf), "`%s` removes a key by inserting a record with constant None integrity" % short(lf.path))
                    continue
            rep.violation("c-tombstone:%s" % fn_key(lf),
                          "`%s` calls the index insertion outside a commit with options %s (a removal must insert a None-integrity tombstone)" % (
                              short(lf.path), term_str(optt)[:100]), loc=span_str(t.span), config=cfg, rule="c-tombstone")
    rep.floor("tombstone_writers", n_tomb, 2 if is_async else 1, cfg)

    # ---- (d) readers validate and skip: a torn tail is never mistaken for, and never hides, a record (reused C06 clauses) ----
    from ..framework import Report
    from . import c06
    sub = Report("C06")
    for p in R.bucket_readers:
        c06.check_reader(cfg, w, sub, prog.fns[p])
    for (c_, rule, k, desc, ok) in sub.obligations:
        if ok:
            rep.ob(cfg, "d/" + rule, k, desc)
    for k, v in sub.violations.items():
        rep.violation("d:%s" % k, v.msg, loc=v.loc, config=cfg, rule="d/" + (v.rule or ""), witness=v.witness)
