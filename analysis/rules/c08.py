"""C08 — commit enforces declared integrity and size; a rejected commit maps nothing."""
from .common import *
from ..core import path_str

PROP = "C08"


def run(ctx, rep):
    for cfg, w in ctx.worlds():
        commits = w.roles.commits
        exp = 1
        if not cfg.startswith("sync"):
            exp += 1
        if "link_to" in cfg:
            exp *= 2
        rep.floor("commit_fns", len(commits), exp, cfg)
        for p in commits:
            check_commit(cfg, w, rep, w.prog.fns[p])
        check_who_may_remove_content(cfg, w, rep, "g3")
        # the size guard compares the declared size with the writer's byte counter: that counter is `+= amount reported by
        # the inner writer` in every data-accepting method of the keyed writers (C02 c, re-checked here)
        from ..framework import Report
        from . import c02
        sub = Report("C02")
        c02.check_config(cfg, w, sub)
        for (c_, rule, k, desc, ok) in sub.obligations:
            if rule == "c-counter" and ok:
                rep.ob(cfg, "g2/c-counter", k, desc)
        for k, v in sub.violations.items():
            if v.rule == "c-counter":
                rep.violation("g2:%s" % k, "the declared size would be compared with a wrong byte count — " + v.msg, loc=v.loc, config=cfg,
                              rule="g2/c-counter")
    return rep


def publication_origin(w, o):
    """origin is the (awaited) result of a content close / linker commit call."""
    if o.kind != "call" or o.callee is None:
        return False
    g = w.prog.callee_fn(o.term)
    if g is None or o.callee.path.endswith("Future::poll"):
        return False
    return g.path in w.roles.content_closes or g.path in w.roles.symlink_reach


def insert_calls(w, lf):
    return [(b, blk, t) for b, blk, t, g in w.prog.local_calls(lf) if g.path in w.roles.index_inserts]


def writer_counter_fields(w, lf):
    """usize fields of the committing type that are incremented by its write/read impls."""
    own = lf.outer.impl_self
    return [(v, f, t) for (v, f, t) in w.adt_fields(own) if t == "usize"]


def check_commit(cfg, w, rep, lf):
    prog = w.prog
    body = lf.body
    key = fn_key(lf)
    idx = prog.idx(body)
    cf = prog.cfg(body)
    own = lf.outer.impl_self
    ins = [(b, blk, t) for b, blk, t in insert_calls(w, lf) if b is body]
    if not ins:
        rep.violation("anchor:insert:%s" % key, "ANCHOR-MISSING: commit `%s` has no index insertion in its own body" % short(lf.path),
                      config=cfg, rule="anchor-floor")
        return
    succ_defs = [rd for rd in ret_defs(prog, body) if rd.cls in ("success", "unknown")]
    deleg = [rd for rd in ret_defs(prog, body) if rd.cls == "delegated"]
    oblig = [(blk.i, "index insertion") for _, blk, _ in ins] + [(rd.blk, "success return") for rd in succ_defs]

    # ---- g1: declared integrity ----
    def is_matches(o):
        return o.kind == "call" and o.callee is not None and o.callee.path == "ssri::Integrity::matches" and not o.path

    g1 = []
    for b in body.blocks:
        if b.cleanup or b.i not in cf.live():
            continue
        t = b.term
        if t.k != "switch" or t.discr.place is None:
            continue
        for o in prog.resolve_pl(body, t.discr.place, IDENT):
            # `x.is_none()` / `x.is_some()` on the result of matches()
            if o.kind == "call" and o.callee is not None and o.callee.path in (
                    "std::option::Option::<T>::is_none", "std::option::Option::<T>::is_some"):
                src = prog.resolve_op(body, o.term.args[0], IDENT)
                if src and all(is_matches(x) for x in src):
                    none_means = 1 if o.callee.path.endswith("is_none") else 0
                    pass_tgt = switch_target(t, 1 - none_means)
                    fail_tgt = switch_target(t, none_means)
                    g1.append((Gate(body, (b.i, pass_tgt), "matches(declared, computed).is_some()", o.blk), next(iter(src)), fail_tgt))
            elif o.kind == "discr":
                pl = o.info.place
                src = prog.resolve_lifted(body, pl.local, norm_path(pl), IDENT)
                if src and all(is_matches(x) for x in src):
                    pass_tgt = switch_target(t, VIDX["Some"])
                    fail_tgt = switch_target(t, VIDX["None"])
                    g1.append((Gate(body, (b.i, pass_tgt), "matches(declared, computed) is Some", o.blk), next(iter(src)), fail_tgt))
    # None-edges of switches on the declared integrity / size options
    none_edges = {"sri": [], "size": []}
    for b in body.blocks:
        if b.cleanup or b.i not in cf.live():
            continue
        t = b.term
        if t.k != "switch" or t.discr.place is None:
            continue
        for o in prog.resolve_pl(body, t.discr.place, IDENT):
            if o.kind != "discr":
                continue
            pl = o.info.place
            src = prog.resolve_lifted(body, pl.local, norm_path(pl), IDENT)
            for x in src:
                if x.kind == "field" and x.info[0] == "put::WriteOpts" and not x.path:
                    if x.info[1] in none_edges:
                        none_edges[x.info[1]].append(Gate(body, (b.i, switch_target(t, VIDX["None"])),
                                                          "declared %s is None" % x.info[1], b.i))
    if not g1:
        rep.violation("g1-missing:%s" % key,
                      "commit `%s` has no guard comparing the declared integrity with the computed one (Integrity::matches)" % short(lf.path),
                      loc=body.loc(), config=cfg, rule="g1-integrity-guard")
    else:
        gates = [g for g, _, _ in g1] + none_edges["sri"]
        bad = unreachable_without(prog, body, gates, [b for b, _ in oblig])
        if bad:
            for blk, wit in bad:
                what = dict(oblig).get(blk)
                rep.violation("g1-bypass:%s:%s" % (key, what.replace(" ", "-")),
                              "commit `%s`: %s at %s is reachable without the declared integrity being absent or matching the computed one" % (
                                  short(lf.path), what, blk_loc(body, blk)), loc=blk_loc(body, blk), config=cfg,
                              rule="g1-integrity-guard", witness=witness_str(body, wit))
        else:
            rep.ob(cfg, "g1-integrity-guard", key, "insert and success returns of `%s` are dominated by (declared sri is None | matches(..) is Some)" % short(lf.path))
        # operands + failure arm
        for g, mo, fail_tgt in g1:
            mt = mo.term
            a0 = prog.resolve_op(mo.body, mt.args[0], IDENT)
            a1 = prog.resolve_op(mo.body, mt.args[1], IDENT)
            decl_ok = a0 and all(x.kind == "field" and x.info == ("put::WriteOpts", "sri") for x in a0)
            comp_ok = a1 and all(publication_origin(w, x) for x in a1)
            if decl_ok and comp_ok:
                rep.ob(cfg, "g1-operands", key, "matches() compares WriteOpts.sri with the integrity returned by the publication call")
            else:
                rep.violation("g1-operands:%s" % key,
                              "commit `%s`: the integrity guard compares %s with %s (expected: declared WriteOpts.sri vs the computed integrity)" % (
                                  short(lf.path), sorted(repr(x) for x in a0), sorted(repr(x) for x in a1)),
                              loc=span_str(mt.span), config=cfg, rule="g1-operands")
            # failing edge must construct IntegrityCheckError and reach no insert/success
            reach = cf.reachable(fail_tgt)
            has_err = False
            for bb in reach:
                for s in body.blocks[bb].stmts:
                    if s.k == "assign" and s.rv.k == "agg" and s.rv.j["agg"] == "adt" and s.rv.j["path"] == "ssri::Error" \
                            and s.rv.j["variant"] == "IntegrityCheckError":
                        has_err = True
            leaks = [what for b, what in oblig if b in reach]
            if has_err and not leaks:
                rep.ob(cfg, "g1-failure-arm", key, "mismatch arm builds ssri::Error::IntegrityCheckError and reaches neither insert nor success")
            else:
                rep.violation("g1-failure-arm:%s" % key,
                              "commit `%s`: the integrity-mismatch arm %s" % (short(lf.path),
                                                                             "reaches " + ", ".join(leaks) if leaks else "does not build IntegrityCheckError"),
                              loc=blk_loc(body, fail_tgt), config=cfg, rule="g1-failure-arm")

    # ---- g2: declared size ----
    counters = {f for (_, f, _) in writer_counter_fields(w, lf)}
    g2 = []
    for b in body.blocks:
        if b.cleanup or b.i not in cf.live():
            continue
        t = b.term
        if t.k != "switch" or t.discr.place is None or t.j.get("discr_ty") != "bool":
            continue
        for o in prog.resolve_pl(body, t.discr.place, IDENT):
            if o.kind != "binop":
                continue
            op = o.info.j["op"]
            ops = o.info.ops
            srcs = [prog.resolve_op(body, x, IDENT) for x in ops]

            def is_decl(s):
                return s and all(x.kind == "field" and x.info == ("put::WriteOpts", "size") for x in s)

            def is_counter(s):
                return s and all(x.kind == "field" and x.info[0] == own and x.info[1] in counters for x in s)

            if (is_decl(srcs[0]) and is_counter(srcs[1])) or (is_decl(srcs[1]) and is_counter(srcs[0])):
                if op not in ("Ne", "Eq"):
                    rep.violation("g2-operator:%s" % key,
                                  "commit `%s` compares declared size and byte counter with `%s` instead of equality" % (short(lf.path), op),
                                  loc=span_str(o.span()), config=cfg, rule="g2-size-guard")
                    continue
                eq_val = 1 if op == "Eq" else 0
                g2.append((Gate(body, (b.i, switch_target(t, eq_val)), "declared size == bytes counted", b.i),
                           switch_target(t, 1 - eq_val)))
    if not g2:
        rep.violation("g2-missing:%s" % key,
                      "commit `%s` has no guard comparing the declared size with the byte counter of its writer" % short(lf.path),
                      loc=body.loc(), config=cfg, rule="g2-size-guard")
    else:
        gates = [g for g, _ in g2] + none_edges["size"]
        bad = unreachable_without(prog, body, gates, [b for b, _ in oblig])
        if bad:
            for blk, wit in bad:
                what = dict(oblig).get(blk)
                rep.violation("g2-bypass:%s:%s" % (key, what.replace(" ", "-")),
                              "commit `%s`: %s at %s is reachable without the declared size being absent or equal to the byte count" % (
                                  short(lf.path), what, blk_loc(body, blk)), loc=blk_loc(body, blk), config=cfg,
                              rule="g2-size-guard", witness=witness_str(body, wit))
        else:
            rep.ob(cfg, "g2-size-guard", key, "insert and success returns of `%s` are dominated by (declared size is None | size == counter)" % short(lf.path))
        for g, fail_tgt in g2:
            reach = cf.reachable(fail_tgt)
            has_err = None
            for bb in reach:
                for s in body.blocks[bb].stmts:
                    if s.k == "assign" and s.rv.k == "agg" and s.rv.j["agg"] == "adt" and s.rv.j["path"] == "errors::Error" \
                            and s.rv.j["variant"] == "SizeMismatch":
                        has_err = (bb, s)
            leaks = [what for b, what in oblig if b in reach]
            if has_err and not leaks:
                bb, s = has_err
                a = prog.resolve_op(body, s.rv.ops[0], IDENT)
                c = prog.resolve_op(body, s.rv.ops[1], IDENT)
                if all(x.kind == "field" and x.info == ("put::WriteOpts", "size") for x in a) and \
                        all(x.kind == "field" and x.info[0] == own and x.info[1] in counters for x in c):
                    rep.ob(cfg, "g2-failure-arm", key, "mismatch arm builds Error::SizeMismatch(declared, counted) and reaches neither insert nor success")
                else:
                    rep.violation("g2-error-operands:%s" % key,
                                  "commit `%s`: SizeMismatch is built from %s / %s instead of (declared size, bytes counted)" % (
                                      short(lf.path), sorted(map(repr, a)), sorted(map(repr, c))),
                                  loc=span_str(s.span), config=cfg, rule="g2-failure-arm")
            else:
                rep.violation("g2-failure-arm:%s" % key,
                              "commit `%s`: the size-mismatch arm %s" % (short(lf.path),
                                                                         "reaches " + ", ".join(leaks) if leaks else "does not build Error::SizeMismatch"),
                              loc=blk_loc(body, fail_tgt), config=cfg, rule="g2-failure-arm")

    # ---- a rejected commit performs no filesystem mutation at all ("maps nothing", previous mapping untouched) ----
    fail_targets = [ft for _, _, ft in g1] + [ft for _, ft in g2]
    for ft in fail_targets:
        reach = cf.reachable(ft)
        muts = []
        for e in w.own_effects(lf):
            if e.body is body and e.blk in reach and e.mutating:
                muts.append((e.kind, e.loc()))
        for bb, bblk, tt, gg in prog.local_calls(lf):
            if bb is body and bblk.i in reach:
                m = [e for e in w.reach_effects(gg) if e.mutating]
                if m:
                    muts.append(("call %s (%s)" % (short(gg.path), ", ".join(sorted({e.kind for e in m}))), span_str(tt.span)))
        if muts:
            rep.violation("reject-mutates:%s" % key,
                          "commit `%s` performs filesystem mutations on a rejection path (%s): a rejected commit must leave every existing mapping and "
                          "its content untouched" % (short(lf.path), "; ".join("%s at %s" % m for m in muts[:3])),
                          loc=muts[0][1], config=cfg, rule="rejection-has-no-effect")
        else:
            rep.ob(cfg, "rejection-has-no-effect", "%s@bb%s" % (key, "x"), "rejection arm of `%s` reaches no mutating effect" % short(lf.path))

    # ---- the counter is what the writer's io impl accumulates (link to C02 c) ----
    # delegated returns (insert's result) are fine: they are the insertion itself
    for rd in deleg:
        o = rd.origin
        g = prog.callee_fn(o.term) if o is not None and o.callee is not None else None
        if g is None or g.path not in w.roles.index_inserts:
            rep.violation("ret-delegated:%s" % key,
                          "commit `%s` returns the result of `%s` (expected: the index insertion or the computed integrity)" % (
                              short(lf.path), rd.detail), loc=blk_loc(body, rd.blk), config=cfg, rule="commit-returns")
