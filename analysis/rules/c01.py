"""C01 — checked reads never deliver unverified bytes (DESIGN §5 C01, rules R1–R5)."""
import re

from .common import *
from ..world import strip_refs

PROP = "C01"
READ_SINKS = ("ReadFile", "Open", "Copy", "Reflink", "HardLink")
UNCHECKED = re.compile(r"_unchecked")          # the crate's documented suffix convention
NO_BYTES = re.compile(r"(^|::)(exists|metadata)(_sync)?$")

FLOORS = {  # counted on the pinned tree (hand-confirmed), per runtime flavour
    "sync": {"checked_entry": 8, "verify_prims": 2, "stream_impls": 1, "keyed_wrappers": 5},
    "async": {"checked_entry": 15, "verify_prims": 4, "stream_impls": 2, "keyed_wrappers": 9},
}


def reader_types(w):
    """Crate ADTs holding an ssri::IntegrityChecker (streaming verifiers) and their wrappers."""
    base = set()
    for a in w.prog.facts.items["adts"]:
        for v in a["variants"]:
            for f in v["fields"]:
                if f["ty"] == "ssri::IntegrityChecker":
                    base.add(a["path"])
    wrap = set()
    for a in w.prog.facts.items["adts"]:
        for v in a["variants"]:
            for f in v["fields"]:
                if f["ty"] in base:
                    wrap.add(a["path"])
    return base, wrap


def run(ctx, rep):
    for cfg, w in ctx.worlds():
        check_config(cfg, w, rep)
    return rep


def content_read_sinks(w, lf):
    out = []
    for e in w.reach_effects(lf):
        if e.kind in READ_SINKS:
            for role in ("path", "src"):
                c = e.classes.get(role)
                if c is not None and c[0] == "Content":
                    out.append(e)
    return out


def check_config(cfg, w, rep):
    prog = w.prog
    V = Verified(w)
    base, wrap = reader_types(w)
    rtypes = base | wrap
    flavour = "sync" if cfg.startswith("sync") else "async"

    # ---- R1: every checked retrieval entry point is VERIFIED ----
    n_checked = 0
    for lf in w.public_fns():
        name = lf.outer.name or lf.path.rsplit("::", 1)[-1]
        if not content_read_sinks(w, lf):
            continue
        out_ty = strip_refs(lf.outer.j.get("sig_output", ""))
        returns_reader = any(rt in out_ty for rt in rtypes)
        if UNCHECKED.search(name) or NO_BYTES.search(lf.path):
            rep.count("exempt_entry")
            continue
        if returns_reader:
            continue  # streaming: R3/R4
        if lf.path.startswith("index::"):
            # raw index API: RemoveOpts reaches content only to delete it (no bytes delivered)
            if not any(e.kind in READ_SINKS for e in content_read_sinks(w, lf)):
                continue
        n_checked += 1
        ok = V.verified(lf)
        d = V.detail[lf.path]
        if ok:
            rep.ob(cfg, "R1-verified", fn_key(lf), "success returns of %s are gated by %s" % (
                short(lf.path), "; ".join(g.what for g in d["gates"][:2]) or "a VERIFIED callee (delegated return)"))
        else:
            for rd, wit in d["bad"]:
                rep.violation("R1:%s" % fn_key(lf),
                              "checked retrieval `%s` can return success without passing an integrity verification: "
                              "%s at %s is reachable from entry with every verification gate removed" % (
                                  short(lf.path), rd.detail, blk_loc(lf.body, rd.blk)),
                              loc=blk_loc(lf.body, rd.blk), config=cfg, rule="R1-verified",
                              witness=witness_str(lf.body, wit))
            if not d["bad"]:
                rep.violation("R1:%s" % fn_key(lf), "no return definition found in %s" % lf.path,
                              config=cfg, rule="R1-verified")
    rep.floor("checked_entry", n_checked, FLOORS[flavour]["checked_entry"], cfg)

    # internal verify-and-materialise functions: also VERIFIED + reader provenance (R2')
    n_prim = 0
    for lf in prog.fns.values():
        for b, blk, t in find_calls(prog, lf, r"^ssri::Integrity::check$"):
            n_prim += 1
            check_whole_buffer(cfg, w, rep, lf, b, blk, t)
        for b, blk, t in find_calls(prog, lf, r"^ssri::IntegrityChecker::result$"):
            n_prim += 1
    rep.floor("verify_prims", n_prim, FLOORS[flavour]["verify_prims"], cfg)

    # ---- R2': readers verified by check() were opened on the requested address ----
    for lf in prog.fns.values():
        chk = [(b, blk, t) for b, blk, t, g in prog.local_calls(lf)
               if g.outer.name == "check" and strip_refs(g.outer.impl_self or "") in rtypes]
        if not chk or strip_refs(lf.outer.impl_self or "") in rtypes:
            continue
        for b, blk, t in chk:
            check_reader_provenance(cfg, w, rep, lf, b, blk, t, rtypes)

    # ---- R6: what is handed out is the file that was verified: every materialising primitive (copy, reflink, hard link) takes
    #      its source at exactly content_path(<cache>, <integrity>) of its own parameters — the path the verification pass opens —
    #      and not at something derived from it (read_link / canonicalize of it, a path found by listing ...), which can name a
    #      different file than the one that was read and checked ----
    n_mat = 0
    for e in w.inv.effects:
        if e.kind not in ("HardLink", "Copy", "Reflink"):
            continue
        n_mat += 1
        c_ = e.classes.get("src")
        lf_ = prog.owner_fn(e.body)
        okm = False
        if isinstance(c_, tuple) and c_ and c_[0] == "Content" and c_[1][0] == "Param" and c_[1][1] == lf_.path:
            sriarg = c_[2]
            okm = isinstance(sriarg, tuple) and sriarg and sriarg[0] == "param" and sriarg[1] == lf_.path
        if okm:
            rep.ob(cfg, "R6-same-file", "%s:%s" % (fn_key(lf_), e.kind), "`%s` materialises from content_path(cache, sri) of its own parameters" % short(lf_.path))
        else:
            from ..effects import class_str as _cs
            rep.violation("R6:%s:%s" % (fn_key(lf_), e.kind),
                          "`%s` takes the source of its %s at %s rather than at content_path(<cache>, <integrity>) of its own parameters: the file handed "
                          "out can be another file than the one the verification pass read" % (short(lf_.path), e.kind, _cs(c_)[:100] if c_ else "?"),
                          loc=e.loc(), config=cfg, rule="R6-same-file")
    rep.floor("materialising_effects", n_mat, 4 if flavour == "async" else 3, cfg)

    # ---- R3: streaming readers feed the checker exactly what they hand out ----
    n_stream = 0
    for lf in prog.fns.values():
        o = lf.outer
        if o.name in ("read", "poll_read") and strip_refs(o.impl_self or "") in base and o.impl_trait:
            n_stream += 1
            check_stream_impl(cfg, w, rep, lf)
        elif o.name in ("read", "poll_read") and strip_refs(o.impl_self or "") in wrap and o.impl_trait:
            check_stream_wrapper(cfg, w, rep, lf, base)
    rep.floor("stream_impls", n_stream, FLOORS[flavour]["stream_impls"], cfg)

    # ---- R4: check() is the checker's verdict ----
    for lf in prog.fns.values():
        o = lf.outer
        if o.name == "check" and strip_refs(o.impl_self or "") in rtypes:
            ok = V.verified(lf)
            if ok:
                rep.ob(cfg, "R4-check", fn_key(lf), "`%s` returns Ok only through IntegrityChecker::result()?" % short(lf.path))
            else:
                d = V.detail[lf.path]
                for rd, wit in d["bad"] or [(None, None)]:
                    rep.violation("R4:%s" % fn_key(lf),
                                  "`%s` can report success without the checker's verdict" % short(lf.path),
                                  loc=blk_loc(lf.body, rd.blk) if rd else lf.body.loc(), config=cfg, rule="R4-check")

    # ---- R4b: reader construction ties file and checker to the same requested address ----
    for adt in sorted(base):
        check_reader_ctor(cfg, w, rep, adt)

    # ---- R5: keyed wrappers hand the by-address layer the integrity found for that key ----
    n_keyed = 0
    for lf in prog.fns.values():
        finds = [(b, blk, t) for b, blk, t, g in prog.local_calls(lf) if g.path in find_fns(w)]
        if not finds or lf.path.startswith("index::"):
            continue
        if not content_read_sinks(w, lf):
            continue
        n_keyed += 1
        check_keyed(cfg, w, rep, lf, finds)
    rep.floor("keyed_wrappers", n_keyed, FLOORS[flavour]["keyed_wrappers"], cfg)


_find_cache = {}


def find_fns(w):
    """Index lookup role: public fns of the index module returning Option<Metadata> via a bucket reader."""
    k = id(w)
    if k in _find_cache:
        return _find_cache[k]
    out = set()
    for p, lf in w.prog.fns.items():
        so = lf.outer.j.get("sig_output", "")
        if "std::option::Option<index::Metadata>" in so:
            callee_paths = {g.path for g in w.callees(lf)}
            if callee_paths & set(w.roles.bucket_readers):
                out.add(p)
    _find_cache[k] = out
    return out


def check_whole_buffer(cfg, w, rep, lf, b, blk, t):
    """R2: buffer verified == buffer returned; integrity == requested; file == its content path."""
    prog = w.prog
    key = fn_key(lf)
    data = prog.resolve_op(b, t.args[1], IDENT)
    recv = prog.resolve_op(b, t.args[0], IDENT)
    # returned payload
    ret_payload = prog.resolve_lifted(lf.body, 0, (("v", "Ok"), ("f", "0")), IDENT)
    returns_bytes = "Vec<u8>" in lf.outer.j.get("sig_output", "") or "[u8]" in lf.outer.j.get("sig_output", "")
    if not returns_bytes:
        # a verify-only helper (hands out no bytes): only the provenance of what it verifies matters
        rep.ob(cfg, "R2-verify-only", key, "`%s` verifies without returning bytes" % short(lf.path))
    elif data and ret_payload and data == ret_payload:
        rep.ob(cfg, "R2-same-buffer", key, "buffer passed to Integrity::check is the buffer returned (%s)" % (
            ", ".join(sorted(origin_desc(prog, o) for o in data))))
    else:
        rep.violation("R2-buffer:%s" % key,
                      "`%s` verifies %s but returns %s" % (short(lf.path),
                                                           sorted(origin_desc(prog, o) for o in data),
                                                           sorted(origin_desc(prog, o) for o in ret_payload)),
                      loc=span_str(t.span), config=cfg, rule="R2-same-buffer")
    # receiver is a parameter of integrity type and the data were read from content_path(cache, that param)
    pis = param_indices(prog, recv, lf)
    if pis is None or len(pis) != 1:
        rep.violation("R2-sri:%s" % key, "`%s` verifies against %s, not against the requested integrity parameter" % (
            short(lf.path), sorted(origin_desc(prog, o) for o in recv)), loc=span_str(t.span), config=cfg,
            rule="R2-requested-integrity")
        return
    sri_i = next(iter(pis))
    ok_src = False
    for o in data:
        if o.kind == "call" and o.callee is not None and norm_callee(o.callee.path) in ("std::fs::read",):
            cls = w.inv.classify(w.sym.of_operand(o.body, o.term.args[0]))
            if cls[0] == "Content":
                sri_t = cls[2]
                if sri_t[0] == "param" and sri_t[1] == lf.path and sri_t[2] == sri_i:
                    ok_src = True
        if o.kind == "call" and o.callee is not None and o.callee.path in ("memmap2::Mmap::map", "memmap2::MmapOptions::map"):
            # a read-only mapping of File::open(content_path(cache, sri))
            cls = w.inv.classify(w.sym.of_operand(o.body, o.term.args[-1]))
            cur = cls
            while cur and cur[0] in ("Handle", "Mmap"):
                cur = cur[1]
            if cur and cur[0] == "Content" and cur[2][0] == "param" and cur[2][1] == lf.path and cur[2][2] == sri_i:
                ok_src = True
    if ok_src:
        rep.ob(cfg, "R2-source", key, "verified bytes were read from content_path(cache, param#%d) and checked against param#%d" % (sri_i, sri_i))
    else:
        rep.violation("R2-source:%s" % key,
                      "`%s`: the verified buffer is not the file at the requested integrity's content path" % short(lf.path),
                      loc=span_str(t.span), config=cfg, rule="R2-source")


def check_reader_provenance(cfg, w, rep, lf, b, blk, t, rtypes):
    """The reader whose check() gates a materialisation was opened with this function's cache/sri
    parameters, and the materialising callee receives the same ones."""
    prog = w.prog
    key = fn_key(lf)
    recv = prog.resolve_op(b, t.args[0], IDENT)
    opens = []
    for o in recv:
        if o.kind == "call" and o.callee is not None:
            g = prog.callee_fn(o.term)
            if g is not None and any(rt in strip_refs(g.outer.j.get("sig_output", "")) for rt in rtypes):
                opens.append(o)
                continue
        opens = None
        break
    if not opens:
        rep.violation("R2r:%s" % key, "`%s`: the reader being checked does not come from the content open primitive (%s)" % (
            short(lf.path), sorted(repr(o) for o in recv)), loc=span_str(t.span), config=cfg, rule="R2-reader-provenance")
        return
    for o in opens:
        ot = o.term
        a_cache = param_indices(prog, prog.resolve_op(o.body, ot.args[0], IDENT), lf)
        a_sri = param_indices(prog, prog.resolve_op(o.body, ot.args[1], IDENT), lf)
        if not a_cache or not a_sri or len(a_cache) != 1 or len(a_sri) != 1:
            rep.violation("R2r:%s" % key, "`%s`: verification reader is not opened on this call's (cache, integrity) parameters" % short(lf.path),
                          loc=span_str(ot.span), config=cfg, rule="R2-reader-provenance")
            continue
        ci, si = next(iter(a_cache)), next(iter(a_sri))
        # every materialising / content-touching callee gets the same pair
        same = True
        for e in w.own_effects(lf):
            pass
        for bb, bblk, tt in prog.call_sites(lf):
            g = prog.callee_fn(tt) if tt.callee else None
            if g is None or tt.callee.path.endswith("Future::poll") or tt is ot:
                continue
            if not any(e.kind in ("Copy", "Reflink", "HardLink") for e in w.reach_effects(g)):
                continue
            c2 = param_indices(prog, prog.resolve_op(bb, tt.args[0], IDENT), lf)
            s2 = param_indices(prog, prog.resolve_op(bb, tt.args[1], IDENT), lf)
            if c2 != {ci} or s2 != {si}:
                same = False
                rep.violation("R2r-mat:%s" % key,
                              "`%s` verifies (param#%d, param#%d) but materialises through `%s` with different arguments" % (
                                  short(lf.path), ci, si, short(g.path)), loc=span_str(tt.span), config=cfg,
                              rule="R2-reader-provenance")
        if same:
            rep.ob(cfg, "R2-reader-provenance", key,
                   "reader checked in `%s` was opened on (param#%d, param#%d); materialising callee gets the same pair" % (
                       short(lf.path), ci, si))
    # the verify loop must have consumed the file: loop exits only on a zero-length read
    check_verify_loop(cfg, w, rep, lf, recv_open=opens)


def check_verify_loop(cfg, w, rep, lf, recv_open, _depth=0, _key=None):
    """All reads on the checked reader happen in a loop whose only exit is `read == 0`."""
    prog = w.prog
    body = lf.body
    cfgr = prog.cfg(body)
    key = _key or fn_key(lf)
    reads = []
    for b, blk, t in prog.call_sites(lf):
        if b is not body or t.callee is None:
            continue
        if re.search(r"(std::io::Read::read|AsyncReadExt::read)$", t.callee.path):
            reads.append((blk, t))
    if not reads and _depth < 2:
        # the drain loop may live in a private helper that receives the reader by `&mut`
        helpers = []
        for b, blk, t, g in prog.local_calls(lf):
            if b is not body or g.outer.reachable:
                continue
            for a, ty in zip(t.args, t.j.get("arg_tys", [])):
                if ty.startswith("&mut ") and any(rt in ty for rt in ("Reader", "AsyncReader")):
                    helpers.append((blk, t, g))
        if len(helpers) == 1:
            hblk, ht, hg = helpers[0]
            # the helper's own success must be required (`?`) before the check
            def is_helper(o, ht=ht):
                return o.kind == "call" and o.term is ht and o.path in AWAIT_PATHS
            gts = try_gates(prog, body, is_helper) + match_gates(prog, body, is_helper, "Ok")
            chk_blocks = [blk.i for b, blk, t, g in prog.local_calls(lf) if b is body and g.outer.name == "check"]
            if gts and not unreachable_without(prog, body, gts, chk_blocks):
                return check_verify_loop(cfg, w, rep, hg, recv_open, _depth + 1, key)
    if not reads:
        rep.violation("R2-loop:%s" % key, "`%s` checks a reader it never reads from" % short(lf.path),
                      loc=body.loc(), config=cfg, rule="R2-verify-loop")
        return
    loops = cfgr.loops()
    for blk, t in reads:
        inloops = [(h, bl) for h, bl in loops if blk.i in bl]
        if not inloops:
            rep.violation("R2-loop:%s" % key, "`%s`: verification read is not in a read-until-EOF loop" % short(lf.path),
                          loc=span_str(t.span), config=cfg, rule="R2-verify-loop")
            continue
        # merge all natural loops containing the read (same header in practice)
        h, bl = max(inloops, key=lambda x: len(x[1]))
        exits = [(u, v) for u in bl for v in cfgr.succ[u] if v not in bl]
        ok = True
        n_exit = 0
        for (u, v) in exits:
            # error exits (reach a failure return only) are fine; a success-continuing exit must be `amt == 0`
            if _only_fails(prog, body, v):
                continue
            n_exit += 1
            tu = body.blocks[u].term
            good = False
            if tu.k == "switch" and tu.discr.place is not None:
                for o in prog.resolve_pl(body, tu.discr.place, IDENT):
                    if o.kind == "binop" and o.info.j["op"] in ("Eq", "Ne"):
                        ops = o.info.ops
                        consts = [x for x in ops if x.is_const and x.const_val == 0]
                        others = [x for x in ops if not x.is_const]
                        if consts and others:
                            amt = prog.resolve_op(body, others[0], IDENT)
                            if any(a.kind == "call" and a.term is t or (a.kind == "call" and a.callee and a.blk == blk.i) for a in amt) \
                                    or _amount_of(prog, body, amt, t):
                                want = 1 if o.info.j["op"] == "Eq" else 0
                                if switch_target(tu, want) == v:
                                    good = True
            if not good:
                ok = False
                rep.violation("R2-loop:%s" % key,
                              "`%s`: the verification loop can be left (towards success) by an edge other than `bytes read == 0`" % short(lf.path),
                              loc=blk_loc(body, u), config=cfg, rule="R2-verify-loop")
        if ok and n_exit >= 1:
            rep.ob(cfg, "R2-verify-loop", key, "verification loop in `%s` exits only when the read amount is 0" % short(lf.path))


def _amount_of(prog, body, origins, read_term):
    """origins denote the Ok payload of the read call (possibly awaited / with_context-wrapped)."""
    for o in origins:
        if o.kind == "call" and o.term is read_term:
            return True
    return False


def _only_fails(prog, body, start):
    """Every return reachable from `start` is a failure return (Err / from_residual)."""
    cfg = prog.cfg(body)
    reach = cfg.reachable(start)
    rds = ret_defs(prog, body)
    hit = [rd for rd in rds if rd.blk in reach]
    if not hit:
        # e.g. the `unreachable` arm of an exhaustive match: no return can be reached at all
        return not any(body.blocks[b].term.k == "return" for b in reach)
    return all(rd.cls == "failure" for rd in hit)


def check_stream_impl(cfg, w, rep, lf):
    """R3 for Read::read / AsyncRead::poll_read on a type owning an IntegrityChecker."""
    prog = w.prog
    body = lf.body
    key = fn_key(lf)
    own = strip_refs(lf.outer.impl_self)
    inputs = [(b, blk, t) for b, blk, t in find_calls(prog, lf, r"^ssri::IntegrityChecker::input$")]
    if not inputs:
        rep.violation("R3-feed:%s" % key, "streaming reader `%s` never feeds its integrity checker" % short(lf.path),
                      loc=body.loc(), config=cfg, rule="R3-feed")
        return
    cf = prog.cfg(body)
    cut = {blk.i for _, blk, _ in inputs}
    rds = [rd for rd in ret_defs(prog, body) if rd.cls in ("success", "unknown", "delegated")]
    # tolerated bypass: an edge guarded by `transferred length == 0`
    zero_edges = set()
    for bb in body.blocks:
        if bb.cleanup or bb.i not in cf.live():
            continue
        tu = bb.term
        if tu.k == "switch" and tu.discr.place is not None:
            for o in prog.resolve_pl(body, tu.discr.place, IDENT):
                if o.kind == "binop" and o.info.j["op"] in ("Eq", "Ne", "Gt", "Le", "Lt", "Ge"):
                    ops = o.info.ops
                    if any(x.is_const and x.const_val == 0 for x in ops):
                        opn = o.info.j["op"]
                        # which switch value means "length == 0"?
                        const_first = ops[0].is_const
                        if opn == "Eq":
                            zv = 1
                        elif opn == "Ne":
                            zv = 0
                        elif (opn == "Gt" and not const_first) or (opn == "Lt" and const_first):
                            zv = 0   # len > 0 false  => len == 0
                        elif (opn == "Le" and not const_first) or (opn == "Ge" and const_first):
                            zv = 1   # len <= 0 true
                        else:
                            continue
                        zero_edges.add((bb.i, switch_target(tu, zv)))
    reach = cf.reachable(0, cut_edges=zero_edges, cut_nodes=cut)
    bad = [rd for rd in rds if rd.blk in reach]
    if bad:
        for rd in bad:
            rep.violation("R3-feed:%s" % key,
                          "streaming reader `%s` can hand out bytes (success return at %s) without feeding them to the checker" % (
                              short(lf.path), blk_loc(body, rd.blk)), loc=blk_loc(body, rd.blk), config=cfg, rule="R3-feed")
    else:
        rep.ob(cfg, "R3-feed", key, "every success return of `%s` passes IntegrityChecker::input (only bypass: zero-length read)" % short(lf.path))
    # the slice fed derives from the caller's buffer and from the inner read on the owned file
    for b, blk, t in inputs:
        chk = prog.resolve_op(b, t.args[0], IDENT)
        if not all(o.kind == "field" and o.info[0] == own for o in chk):
            rep.violation("R3-checker:%s" % key, "`%s` feeds a checker that is not its own field" % short(lf.path),
                          loc=span_str(t.span), config=cfg, rule="R3-checker")
        dep = prog.resolve_op(b, t.args[1], DEPEND)
        has_buf = any((prog.param_index(o) or (None, None))[1] == 2 if lf.outer.name == "poll_read" else
                      (prog.param_index(o) or (None, None))[1] == 1 for o in dep if o.kind == "param")
        inner = [o for o in dep if o.kind == "call" and o.callee is not None and
                 re.search(r"(Read::read|AsyncRead::poll_read)$", o.callee.path)]
        inner_ok = False
        for o in inner:
            h = prog.resolve_op(o.body, o.term.args[0], IDENT)
            if h and all(x.kind == "field" and x.info[0] == own for x in h):
                inner_ok = True
        exact = fed_slice_exact(w, lf, b, blk, t, own)
        if has_buf and (inner_ok or _tokio_filled(prog, b, t)) and exact is True:
            rep.ob(cfg, "R3-slice", key, "slice fed to the checker in `%s` is exactly the bytes the inner read just placed in the caller's buffer" % short(lf.path))
        elif has_buf and (inner_ok or _tokio_filled(prog, b, t)):
            rep.violation("R3-slice:%s" % key,
                          "`%s`: the slice fed to the checker is not exactly the bytes the inner read just delivered (%s): the checker would "
                          "hash other bytes than the caller receives" % (short(lf.path), exact), loc=span_str(t.span), config=cfg, rule="R3-slice")
        else:
            rep.violation("R3-slice:%s" % key,
                          "`%s`: the bytes fed to the checker are not the caller's buffer bounded by the inner read" % short(lf.path),
                          loc=span_str(t.span), config=cfg, rule="R3-slice")
    # the inner read receives the caller's buffer unchanged
    n_inner = 0
    for b, blk, t in find_calls(prog, lf, r"(std::io::Read::read|AsyncRead::poll_read)$"):
        h = prog.resolve_op(b, t.args[0], IDENT)
        if not (h and all(x.kind == "field" and x.info[0] == own for x in h)):
            continue
        n_inner += 1
        bufarg = t.args[-1]
        bo = prog.resolve_op(b, bufarg, IDENT)
        want = 2 if lf.outer.name == "poll_read" else 1
        if is_param(prog, bo, lf, want):
            rep.ob(cfg, "R3-inner-read", key, "inner read of `%s` fills exactly the caller's buffer" % short(lf.path))
        else:
            rep.violation("R3-inner:%s" % key, "`%s`: inner read does not fill the caller's buffer" % short(lf.path),
                          loc=span_str(t.span), config=cfg, rule="R3-inner-read")
    if n_inner != 1:
        rep.violation("R3-inner-count:%s" % key, "`%s` performs %d reads on its file per call (expected exactly 1)" % (short(lf.path), n_inner),
                      loc=body.loc(), config=cfg, rule="R3-inner-read")


INNER_READ = re.compile(r"(Read>?::read|AsyncRead>?::poll_read)$")


def fed_slice_exact(w, lf, b, blk, t, own):
    """The slice handed to the checker / digest builder is exactly what the inner read delivered:
      A  buf[..n]           with n the Ok payload of inner.read(buf) / poll_read(cx, buf) on the owned file, same buf parameter;
      B  buf.filled()[p..]  (tokio ReadBuf) with p = buf.filled().len() evaluated BEFORE the inner poll_read and the slice
                            taken AFTER it.
    Returns True or a short description of what it is instead."""
    prog = w.prog
    want = 2 if lf.outer.name == "poll_read" else 1
    T = w.sym.of_operand(b, t.args[1])
    buf = ("param", lf.path, want, ())
    idxs = [e for e in (T[3] if T[0] in ("param", "call") else ()) if e[0] == "[]"]
    others = [e for e in (T[3] if T[0] in ("param", "call") else ()) if e[0] != "[]"]
    if len(idxs) != 1 or others or len(idxs[0]) != 2:
        return "not a single range of the buffer: %s" % term_str(T)[:80]
    R = idxs[0][1]
    if R[0] != "agg" or not R[1].startswith("std::ops::Range"):
        return "indexed by %s" % term_str(R)[:60]
    f = dict(R[3])

    def own_inner(c):
        return c[0] == "call" and INNER_READ.search(c[1]) and c[2] and c[2][0][0] == "field" and c[2][0][1] == own and c[2][-1] == buf
    if T[0] == "param" and T[:3] == buf[:3] and R[1] == "std::ops::RangeTo":
        e = f.get("end")
        if e is not None and own_inner(e) and tuple(e[3])[-2:] == (("v", "Ok"), ("f", "0")):
            return True
        return "buf[..n] where n is %s, not the amount the inner read returned" % term_str(e)[:80]
    if T[0] == "call" and T[1].endswith("ReadBuf::<'a>::filled") and tuple(T[2]) == (buf,) and R[1] == "std::ops::RangeFrom":
        st = f.get("start")
        ok_shape = st is not None and st[0] == "call" and st[1].endswith("::len") and st[2] and st[2][0][0] == "call" and \
            st[2][0][1].endswith("ReadBuf::<'a>::filled") and tuple(st[2][0][2]) == (buf,) and not st[3]
        if not ok_shape:
            return "filled()[p..] where p is %s, not an earlier filled().len()" % term_str(st)[:80]
        # ordering: p before the inner read, the slice after it
        body = b
        cf = prog.cfg(body)
        inner = [(bb, tt) for bb, tt in body.calls() if tt.callee is not None and INNER_READ.search(tt.callee.path)]
        rng_origin = None
        for o in prog.resolve_op(body, t.args[1], IDENT, blk.i):
            pass
        lens = [bb.i for bb, tt in body.calls() if tt.callee is not None and tt.callee.path.endswith("::len")]
        fills = [bb.i for bb, tt in body.calls() if tt.callee is not None and tt.callee.path.endswith("ReadBuf::<'a>::filled")]
        if len(inner) != 1:
            return "%d inner reads" % len(inner)
        ib = inner[0][0].i
        # the start operand's own len() call must precede the inner read; the filled() the slice is taken from must follow it
        for o in prog.resolve_op(body, t.args[1], IDENT, blk.i):
            ix = [e for e in o.path if e[0] == "[]" and len(e) == 3]
            if o.kind != "call" or len(ix) != 1:
                continue
            ib_body = prog.by_path.get(ix[0][1])
            if ib_body is not body:
                continue
            it = body.blocks[ix[0][2]].term
            start_lens = set()
            for ro in prog.resolve_op(body, it.args[1], IDENT, ix[0][2]):
                if ro.kind == "agg":
                    for so in prog.resolve_op(ro.body, ro.info.ops[0], IDENT, ro.blk):
                        if so.kind == "call":
                            start_lens.add(so.blk)
            if not start_lens or not all(cf.dominates(x, ib) and x != ib for x in start_lens):
                return "the start of the range is not taken before the inner read"
            if not (cf.dominates(ib, o.blk) and o.blk != ib):
                return "filled() is not taken after the inner read"
            return True
        return "slice is not an index expression"
    return "neither buf[..n] nor filled()[p..]: %s" % term_str(T)[:80]


def _tokio_filled(prog, b, t):
    """tokio: slice is buf.filled()[pre_len..] with buf the ReadBuf parameter."""
    dep = prog.resolve_op(b, t.args[1], DEPEND)
    return any(o.kind == "call" and o.callee is not None and o.callee.path.endswith("ReadBuf::<'a>::filled") for o in dep)


def check_stream_wrapper(cfg, w, rep, lf, base):
    """Public wrappers obtain bytes only from the inner verified reader."""
    prog = w.prog
    key = fn_key(lf)
    own = strip_refs(lf.outer.impl_self)
    rds = ret_defs(prog, lf.body)
    ok = True
    n = 0
    for rd in rds:
        if rd.cls == "delegated" and rd.origin is not None and rd.origin.callee is not None:
            c = rd.origin.callee
            g = prog.callee_fn(rd.origin.term)
            if g is not None and strip_refs(g.outer.impl_self or "") in base and g.outer.name in ("read", "poll_read"):
                t = rd.origin.term
                want = 2 if lf.outer.name == "poll_read" else 1
                if is_param(prog, prog.resolve_op(rd.origin.body, t.args[-1], IDENT), lf, want):
                    n += 1
                    continue
        if rd.cls in ("failure", "neutral"):
            continue
        ok = False
    if ok and n >= 1:
        rep.ob(cfg, "R3-wrapper", key, "`%s` delegates to the verified inner reader with the caller's buffer" % short(lf.path))
    else:
        rep.violation("R3-wrapper:%s" % key, "`%s` does not simply delegate to the verified inner reader" % short(lf.path),
                      loc=lf.body.loc(), config=cfg, rule="R3-wrapper")


def check_reader_ctor(cfg, w, rep, adt):
    """Every construction of a streaming reader: fd = open(content_path(cache, s)), checker = new(s)."""
    prog = w.prog
    n = 0
    for b in prog.bodies:
        for blk in b.blocks:
            if blk.cleanup or blk.i not in prog.cfg(b).live():
                continue
            for i, s in enumerate(blk.stmts):
                if s.k == "assign" and s.rv.k == "agg" and s.rv.j["agg"] == "adt" and s.rv.j["path"] == adt:
                    n += 1
                    lf = prog.owner_fn(b)
                    key = fn_key(lf)
                    fields = dict(zip(s.rv.j["fields"], s.rv.ops))
                    fd_t = w.sym.of_operand(b, fields["fd"]) if "fd" in fields else None
                    ck_t = w.sym.of_operand(b, fields["checker"]) if "checker" in fields else None
                    # find field names by type instead of by name
                    for (vn, fn_, fty) in w.adt_fields(adt):
                        if fty == "ssri::IntegrityChecker":
                            ck_t = w.sym.of_operand(b, fields[fn_])
                        elif "fs::File" in fty:
                            fd_t = w.sym.of_operand(b, fields[fn_])
                    fc = w.inv.classify(fd_t) if fd_t else ("Unknown",)
                    sri_file = None
                    if fc[0] == "Handle" and fc[1][0] == "Content":
                        sri_file = fc[1][2]
                    sri_ck = None
                    if ck_t and ck_t[0] == "call" and ck_t[1] == "ssri::IntegrityChecker::new":
                        sri_ck = ck_t[2][0]
                    if sri_file is not None and sri_ck is not None and sri_file == sri_ck and sri_ck[0] == "param":
                        rep.ob(cfg, "R4b-ctor", key, "`%s` opens content_path(cache, s) and builds IntegrityChecker::new(s) from the same parameter" % short(lf.path))
                    else:
                        rep.violation("R4b:%s" % key,
                                      "`%s` builds a streaming reader whose file (%s) and checker (%s) are not tied to the same requested integrity" % (
                                          short(lf.path), term_str(fd_t)[:80] if fd_t else None, term_str(ck_t)[:80] if ck_t else None),
                                      loc=span_str(s.span), config=cfg, rule="R4b-ctor")
    if n == 0:
        rep.violation("anchor:reader_ctor:%s" % adt, "ANCHOR-MISSING: no construction site of %s" % adt, config=cfg, rule="anchor-floor")


def check_keyed(cfg, w, rep, lf, finds):
    prog = w.prog
    key = fn_key(lf)
    cache_i = (w.path_like_params(lf) or [None])[0]
    for b, blk, t in finds:
        ck = param_indices(prog, prog.resolve_op(b, t.args[0], IDENT), lf)
        kk = param_indices(prog, prog.resolve_op(b, t.args[1], IDENT), lf)
        if not ck or not kk or len(ck) != 1 or len(kk) != 1:
            rep.violation("R5-lookup:%s" % key, "`%s` looks up something other than its own (cache, key) parameters" % short(lf.path),
                          loc=span_str(t.span), config=cfg, rule="R5-keyed")
            continue
        ci = next(iter(ck))
        # callees that reach content read sinks must receive (same cache, integrity of that lookup)
        n = 0
        for bb, bblk, tt in prog.call_sites(lf):
            g = prog.callee_fn(tt) if tt.callee else None
            if g is None or tt.callee.path.endswith("Future::poll") or g.path in find_fns(w):
                continue
            if not content_read_sinks(w, g):
                continue
            n += 1
            c2 = param_indices(prog, prog.resolve_op(bb, tt.args[0], IDENT), lf)
            so = prog.resolve_op(bb, tt.args[1], IDENT)
            ok_s = bool(so) and all(o.kind == "call" and o.term is t and o.path and o.path[-1][0] == "f"
                                    and o.path[-1][1] == "integrity" for o in so)
            if c2 == {ci} and ok_s:
                rep.ob(cfg, "R5-keyed", "%s->%s" % (key, short(g.path)),
                       "`%s` passes `%s` the integrity found for its own key in its own cache" % (short(lf.path), short(g.path)))
            else:
                rep.violation("R5:%s" % key,
                              "`%s` calls `%s` with cache=%s integrity=%s instead of (its cache, the integrity found for its key)" % (
                                  short(lf.path), short(g.path), c2, sorted(origin_desc(prog, o) for o in so)),
                              loc=span_str(tt.span), config=cfg, rule="R5-keyed")
        if n == 0:
            rep.violation("R5-none:%s" % key, "`%s` looks a key up but never uses the result to read" % short(lf.path),
                          loc=span_str(t.span), config=cfg, rule="R5-keyed")
