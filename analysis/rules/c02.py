"""C02 — what is written is what is read back: digest/sink agreement and the structural write-path clauses."""
import re

from .common import *
from .c08 import publication_origin, insert_calls
from ..symval import walk, teq, strip_types
from ..world import strip_refs

PROP = "C02"
INPUT = "ssri::IntegrityOpts::input"


def run(ctx, rep):
    for cfg, w in ctx.worlds():
        check_config(cfg, w, rep)
    return rep


def _is_stage_field(w, term):
    """The async writer's staging buffer: the `Vec<u8>` field of a crate type (whatever it is called)."""
    return any(fn_ == term[2] and fty_ == "std::vec::Vec<u8>" for (_, fn_, fty_) in w.adt_fields(term[1]))


def sink_kind(w, b, t):
    """'partial' for write()-like sinks returning the accepted amount, 'whole' for all-or-error sinks, None otherwise."""
    c = t.callee
    if c is None:
        return None
    np = norm_callee(c.path)
    if np == "std::io::Write::write" and re.search(r"(tempfile::NamedTempFile)", (c.self_ty or "") + " " + c.rpath):
        return "partial"
    if np == "std::io::Write::write_all" and re.search(r"(tempfile::NamedTempFile)", c.self_ty or ""):
        return "whole"
    # an all-or-error loop (`write_all`, `write_fmt` ...) over a crate type whose own `write` writes the staging file — a tee,
    # a counting wrapper — is as little resumable as `write_all` on the staging file itself: when it fails part-way the bytes
    # already accepted (and digested) stay, yet the caller is told that nothing was taken
    m_ = re.match(r"^std::io::Write::(write_all|write_fmt|write_all_vectored)$", np)
    if m_ and c.self_ty:
        head = strip_refs(c.self_ty).split("<")[0]
        for lf2 in w.prog.fns.values():
            o2 = lf2.outer
            if o2.name == "write" and o2.impl_trait and o2.impl_trait.endswith("io::Write") and \
                    strip_refs(o2.impl_self or "").split("<")[0] == head and lf2.body is not b:
                if any(sink_kind(w, bb, t2) in ("partial", "whole", "whole-local") for bb in w.prog.fn_bodies(lf2) for _, t2 in bb.calls() if t2 is not t):
                    return "whole"
    g = w.prog.callee_fn(t)
    if g is not None and any(e.kind == "WriteData" and e.flags.get("on") == "MmapMut" for e in w.own_effects(g)):
        return "whole-local"
    if g is not None and "&[u8]" in g.outer.j.get("sig_inputs", []) and _stub_unreachable(w, g):
        return "dead-stub"
    return None


_stub_cache = {}


def _stub_unreachable(w, g):
    """g takes a parameter of a crate ADT that is never constructed in this configuration (cfg(not(mmap)) stand-in):
    the call cannot happen."""
    k = (id(w), g.path)
    if k in _stub_cache:
        return _stub_cache[k]
    from .c20 import Discharger
    d = Discharger(w, [])
    r = False
    for ity in g.outer.j.get("sig_inputs", []):
        st = strip_refs(ity)
        if w.adt(st) is not None and d._never_constructed(st):
            r = True
    _stub_cache[k] = r
    return r


def check_config(cfg, w, rep):
    prog = w.prog
    R = w.roles
    is_async = not cfg.startswith("sync")
    has_mmap = "mmap" in cfg

    # ---- (a) digest / sink agreement ----
    n_pairs = 0
    for lf in prog.fns.values():
        for b in prog.fn_bodies(lf):
            inputs = [(blk, t) for blk, t in b.calls() if t.callee is not None and t.callee.path == INPUT and blk.i in prog.cfg(b).live()]
            sinks = [(blk, t, sink_kind(w, b, t)) for blk, t in b.calls() if blk.i in prog.cfg(b).live() and sink_kind(w, b, t)]
            if not inputs and not sinks:
                continue
            owner = strip_refs(lf.outer.impl_self or "")
            if "linkto" in lf.path or "ToLinker" in owner:
                continue   # linkers hash what they read (C19), there is no sink
            key = "%s@%s" % (fn_key(lf), b.path.rsplit("::", 1)[-1]) if b is not lf.body else fn_key(lf)
            matched_sinks = set()
            for iblk, it in inputs:
                dterm = w.sym.of_operand(b, it.args[1])
                ok = False
                why = "no sink write of the same bytes"
                # merged form: `let n = match .. { mapped => write_mmap(.., X)?, plain => file.write(X)? }; digest.input(&X[..n])` —
                # the slice end is, on every branch, the Ok payload of that branch's sink write of the same X
                rng0 = _range_to_end(dterm)
                base0 = _strip_last_range(dterm)
                if rng0 is not None and rng0[0] == "alt":
                    hit = []
                    for alt in rng0[1]:
                        m_ = None
                        for sblk, st, kind in sinks:
                            sdata = w.sym.of_operand(b, st.args[-1])
                            if alt[0] == "call" and alt[1] == (st.callee.rpath if st.callee.resolved else st.callee.path) and alt[2] and \
                                    teq(alt[2][-1], sdata) and teq(base0, sdata) and \
                                    tuple(e for e in alt[3] if e[0] in ("v", "f"))[-2:] == (("v", "Ok"), ("f", "0")) and kind in ("partial", "whole-local", "dead-stub"):
                                m_ = (sblk, st, kind)
                        if m_ is None:
                            hit = None
                            break
                        hit.append(m_)
                    if hit:
                        ok = True
                        for sblk, st, kind in hit:
                            matched_sinks.add(sblk.i)
                            if kind == "whole-local":
                                check_whole_sink(cfg, w, rep, prog.callee_fn(st))
                for sblk, st, kind in ([] if ok else sinks):
                    sdata = w.sym.of_operand(b, st.args[-1])
                    if kind == "partial":
                        # digest input must be X[..n] with n = Ok payload of this write of X
                        rng = _range_to_end(dterm)
                        base = _strip_last_range(dterm)
                        if rng is not None and teq(base, sdata):
                            # the slice end must be the Ok payload of this very write of X
                            if rng[0] == "call" and rng[1] == (st.callee.rpath if st.callee.resolved else st.callee.path) and rng[2] and \
                                    teq(rng[2][-1], sdata) and tuple(e for e in rng[3] if e[0] in ("v", "f"))[-2:] == (("v", "Ok"), ("f", "0")):
                                ok = True
                                matched_sinks.add(sblk.i)
                            else:
                                why = "the digest is fed %s, whose length is not the amount this write accepted" % term_str(dterm)[:60]
                        elif teq(dterm, sdata) and not ok:
                            why = "the digest is fed the whole chunk although `%s` may accept only a prefix of it" % norm_callee(st.callee.path)
                    elif kind == "whole":
                        why = ("`%s` on the staging file is not resumable: when it fails part-way, the bytes already accepted stay in the file "
                               "but are neither digested nor reported, so a caller that retries produces a file that does not match its address" % norm_callee(st.callee.path))
                    elif kind == "dead-stub":
                        if teq(dterm, sdata):
                            ok = True
                            matched_sinks.add(sblk.i)
                    else:
                        # all-or-error sink: digest fed the whole X, only after the sink succeeded
                        if teq(dterm, sdata):
                            def is_sink(o, st=st):
                                return o.kind == "call" and o.term is st and o.path in ((), (("await",),))
                            gates = try_gates(prog, b, is_sink) + match_gates(prog, b, is_sink, "Ok")
                            # `if res.is_ok() { input }`
                            def is_isok(o, st=st):
                                if o.kind != "call" or o.callee is None or o.callee.path != "std::result::Result::<T, E>::is_ok":
                                    return False
                                return any(x.kind == "call" and x.term is st for x in prog.resolve_op(o.body, o.term.args[0], OKFLOW, o.blk))
                            gates += bool_gates(prog, b, is_isok, True)
                            if gates and not unreachable_without(prog, b, gates, [iblk.i]):
                                ok = True
                                matched_sinks.add(sblk.i)
                                if kind == "whole-local":
                                    check_whole_sink(cfg, w, rep, prog.callee_fn(st))
                            else:
                                why = "the digest is fed although the mapped/whole write of the same bytes may have failed"
                if ok:
                    n_pairs += 1
                    rep.ob(cfg, "a-digest-sink", "%s#%d" % (key, len([1 for _ in matched_sinks])),
                           "`%s`: the digest is fed exactly the bytes the sink accepted (%s)" % (short(lf.path), term_str(dterm)[:50]))
                else:
                    rep.violation("a-digest:%s" % key, "`%s`: %s (digest input %s)" % (short(lf.path), why, term_str(dterm)[:70]),
                                  loc=span_str(it.span), config=cfg, rule="a-digest-sink")
            for sblk, st, kind in sinks:
                if sblk.i not in matched_sinks and kind == "whole":
                    rep.violation("a-sink:%s" % key,
                                  "`%s` stages bytes with the all-or-error `%s`, which is not resumable: when it fails part-way, the bytes already "
                                  "accepted stay in the staging file (and in the digest) although the caller is told that nothing was taken — a "
                                  "caller that retries stores prefix + chunk under a matching address" % (
                                      short(lf.path), norm_callee(st.callee.path)), loc=span_str(st.span), config=cfg, rule="a-digest-sink")
                elif sblk.i not in matched_sinks:
                    rep.violation("a-sink:%s" % key, "`%s` writes bytes to the content temp file (%s) that are not fed to the digest" % (
                        short(lf.path), norm_callee(st.callee.path)), loc=span_str(st.span), config=cfg, rule="a-digest-sink")
    rep.floor("digest_sink_pairs", n_pairs, (2 if has_mmap else 1) * (2 if is_async else 1), cfg)

    # ---- (b) async staging buffer == caller's chunk when the blocking closure is created ----
    if is_async:
        n_stage = 0
        for lf in prog.fns.values():
            if lf.outer.name == "poll_write" and strip_refs(lf.outer.impl_self or "").endswith("AsyncWriter"):
                n_stage += 1
                check_staging(cfg, w, rep, lf)
        rep.floor("staging_sites", n_stage, 1, cfg)

    # ---- (c) the byte counter accumulates what the inner writer reported ----
    n_cnt = 0
    for lf in prog.fns.values():
        o = lf.outer
        if o.name in ("write", "poll_write") and o.impl_trait and strip_refs(o.impl_self or "") in ("put::SyncWriter", "put::Writer"):
            n_cnt += 1
            check_counter(cfg, w, rep, lf)
        elif o.impl_trait and strip_refs(o.impl_self or "") in ("put::SyncWriter", "put::Writer") and \
                re.search(r"(^|::)(std::io::Write|\w*AsyncWrite)$", o.impl_trait):
            # every OTHER method of the keyed writers' Write / AsyncWrite impl: if it hands data to the inner writer
            # (an overridden write_vectored / write_all / poll_write_vectored ...) it bypasses the byte counter that the
            # declared-size check and the recorded size rely on
            for blk, t in lf.body.calls():
                if t.callee is not None and re.search(r"(Write|AsyncWrite|AsyncWriteExt)>?::(write|write_all|write_vectored|write_all_vectored|write_fmt|poll_write|poll_write_vectored)$", t.callee.path):
                    rep.violation("c-bypass:%s" % fn_key(lf),
                                  "`%s` forwards data to the inner writer (`%s`) without going through the counting write: those bytes are stored "
                                  "and hashed but not counted — the declared-size check and the recorded size would be wrong" % (
                                      short(lf.path), t.callee.path.rsplit("::", 1)[-1]), loc=span_str(t.span), config=cfg, rule="c-counter")
    rep.floor("counter_sites", n_cnt, 2 if is_async else 1, cfg)

    # ---- (h) "subsequent reads by that key return exactly the bytes written": a read by key resolves the key through the
    #      lookup, which must select the most recent record of the key (the lookup clauses of C05 b, re-checked here) ----
    from ..framework import Report
    from . import c05
    from .c01 import find_fns
    sub = Report("C05")
    for p_ in sorted(find_fns(w)):
        c05.check_find(cfg, w, sub, prog.fns[p_])
    from . import c06
    for p_ in w.roles.bucket_readers:
        c06.check_reader(cfg, w, sub, prog.fns[p_])
    for (c_, rule, k, desc, ok) in sub.obligations:
        if ok:
            rep.ob(cfg, "h/" + rule, k, desc)
    for k, v in sub.violations.items():
        rep.violation("h:%s" % k, "a read by key could return an earlier write's data — " + v.msg, loc=v.loc, config=cfg,
                      rule="h/" + (v.rule or ""), witness=v.witness)

    # ---- (i) the async writer never loses its staged file on a path that reports success: once the poll functions have
    #      taken the Inner (temp file, mapping, digest builder) out of the shared state, every return that is not an error
    #      is reached only after the state has been re-assigned (Busy(task owning it) / Idle(Some(it))) ----
    n_take = 0
    for lf in prog.fns.values():
        if strip_refs(lf.outer.impl_self or "") != "content::write::AsyncWriter":
            continue
        body = lf.body
        cf = prog.cfg(body)
        from .c14 import temp_types as _tt
        owners_ = _tt(w)
        takes = [(blk, t) for blk, t in body.calls() if t.callee is not None and t.callee.path == "std::option::Option::<T>::take"
                 and any(o_ in (t.callee.self_ty or "") + " ".join(t.callee.args or []) for o_ in owners_)]
        if not takes:
            continue
        assigns = {b.i for b in body.blocks if not b.cleanup for st in b.stmts
                   if st.k == "assign" and st.rv.k == "agg" and st.rv.j.get("path", "").endswith("write::State")}
        # moving it into the blocking closure that is then stored also counts (the store is the State::Busy aggregate)
        rds = [rd for rd in ret_defs(prog, body) if rd.cls in ("success", "unknown", "delegated")]
        for blk, t in takes:
            n_take += 1

            def is_take(o, t=t):
                return o.kind == "call" and o.term is t and not o.path
            # where the taken value is held: after `take().unwrap()`, or on the Some arm of a match on the take's result
            # (value flow looks *through* take(), so the result is followed by place: the call's destination local)
            starts = set()
            dl = t.dest.local if t.dest is not None else None

            def from_take(op):
                seen = 0
                cur = op.place
                while cur is not None and seen < 4:
                    if cur.local == dl:
                        return True
                    defs = [st for b_ in body.blocks if not b_.cleanup for st in b_.stmts
                            if st.k == "assign" and st.place.local == cur.local and not norm_path(st.place)]
                    if len(defs) == 1 and defs[0].rv.k == "use" and defs[0].rv.ops[0].place is not None:
                        cur = defs[0].rv.ops[0].place
                        seen += 1
                    else:
                        break
                return False
            for bb, tt in body.calls():
                if tt.callee is not None and tt.callee.path in ("std::option::Option::<T>::unwrap", "std::option::Option::<T>::expect"):
                    if tt.args and from_take(tt.args[0]):
                        starts.add(bb.i)
            for bb in body.blocks:
                tu = bb.term
                if bb.cleanup or tu.k != "switch" or tu.discr.place is None:
                    continue
                for st in bb.stmts:
                    if st.k == "assign" and st.rv.k == "discr" and st.rv.place is not None and st.rv.place.local == dl \
                            and st.place.local == tu.discr.place.local:
                        starts.add(switch_target(tu, VIDX["Some"]))
            reach = set()
            for st_ in starts:
                reach |= cf.reachable(st_, cut_nodes=assigns)
            bad = [rd for rd in rds if rd.blk in reach]
            key = fn_key(lf)
            if bad or not starts:
                rep.violation("i-state:%s" % key,
                              "`%s` can return without an error after taking the writer's inner state out of the shared slot and before putting "
                              "it back (return at %s): the staged temp file, mapping and digest are dropped and every later write or commit fails "
                              "with 'file closed'" % (short(lf.path), blk_loc(body, bad[0].blk) if bad else "?"),
                              loc=blk_loc(body, bad[0].blk) if bad else span_str(t.span), config=cfg, rule="i-state-kept")
            else:
                rep.ob(cfg, "i-state-kept", "%s@%d" % (key, n_take), "after take() in `%s` every non-error return passes a re-assignment of the state" % short(lf.path))
    if is_async:
        rep.floor("state_takes", n_take, 3, cfg)

    # ---- (j) a handle opened for a key commits under that key, whatever the key's text: every source of a keyed writer's `key`
    #      field in a function that is given a key is `Some(<that key>)` — never None, and never chosen by looking at the key
    #      (an empty key is a key; "" is not a spelling of "no key") ----
    n_key = 0
    for own in ("put::Writer", "put::SyncWriter"):
        for (b_, blk_, i_, op_) in prog.field_sources(own, "key"):
            if op_ is None:
                continue
            f_ = prog.owner_fn(b_)
            tm = w.sym.of_operand(b_, op_)
            parts = list(walk(tm))
            from .c09 import param_kind as _pk
            strs = [i for i in range(len(f_.outer.j.get("sig_inputs", []))) if _pk(f_, i) == "key" or
                    f_.outer.j["sig_inputs"][i].replace("'a ", "").replace("'_ ", "") in ("&str", "&std::string::String")]
            keyed = [st for st in parts if st[0] == "param" and st[1] == f_.path and st[2] in strs]
            nones = [st for st in parts if st[0] == "agg" and st[1].endswith("Option") and st[2] == "None"]
            n_key += 1
            exact = tm[0] == "agg" and tm[1].endswith("Option") and tm[2] == "Some" and tm[3] and tm[3][0][1][0] == "param" and \
                tm[3][0][1][1] == f_.path and tm[3][0][1][2] in strs and not tm[3][0][1][3]
            if strs and not exact:
                rep.violation("j-key-kept:%s" % fn_key(f_),
                              "`%s` is given a key but does not unconditionally keep it for the commit (key field := %s): a write under such a key "
                              "would succeed without becoming readable by that key" % (short(f_.path), term_str(tm)[:90]),
                              loc=blk_loc(b_, blk_), config=cfg, rule="j-key-kept")
            else:
                rep.ob(cfg, "j-key-kept", "%s:%s" % (fn_key(f_), own), "`%s` sets the writer's key to %s" % (short(f_.path), "Some(<its key parameter>)" if keyed else "None (no key parameter)"))
    rep.floor("writer_key_sources", n_key, 2 if not is_async else 4, cfg)

    # ---- (d) published under CONTENT_PATH(cache, builder.result()); the commit indexes that integrity (or the declared one) ----
    for e in w.inv.effects:
        if e.kind == "Persist":
            lf = prog.owner_fn(e.body)
            c = e.classes.get("dst")
            ok = c is not None and c[0] == "Content" and c[2][0] == "call" and c[2][1] == "ssri::IntegrityOpts::result" and \
                c[2][2] and c[2][2][0][0] == "field" and any(
                    fn_ == c[2][2][0][2] and fty_ == "ssri::IntegrityOpts" for (_, fn_, fty_) in w.adt_fields(c[2][2][0][1]))
            # publication must REPLACE whatever sits at the address (rename): a stale or damaged file left there by a crash
            # (or, with link_to, a symlink whose target changed) must not survive a successful write of the right bytes
            if e.term.callee.path.endswith("persist_noclobber"):
                rep.violation("d-noclobber:%s" % fn_key(lf),
                              "`%s` publishes with persist_noclobber: when the address is already occupied the staged bytes are dropped and the "
                              "old file stays — after a successful write, reads could return other bytes than were written" % short(lf.path),
                              loc=e.loc(), config=cfg, rule="d-replacing-rename")
            else:
                rep.ob(cfg, "d-replacing-rename", fn_key(lf), "`%s` publishes with persist (rename replaces an existing file)" % short(lf.path))
            # ... and it is always attempted: no success is reported (returned, or sent on the close channel as an explicit
            # Ok / as persist's own result) on a path that went round the rename — "a file is already there" does not mean
            # that it holds these bytes
            pbody = e.body
            pcf = prog.cfg(pbody)
            targets = []
            sends = [(blk_, t_) for blk_, t_ in pbody.calls() if t_.callee is not None and t_.callee.path.endswith("oneshot::Sender::<T>::send")
                     and blk_.i in pcf.live()]
            if sends:
                for blk_, t_ in sends:
                    lv = prog.resolve_op(pbody, t_.args[1], OKFLOW, blk_.i)
                    if any(o_.kind == "agg" and o_.info.j.get("path", "").endswith("::Result") and o_.info.j.get("variant") == "Ok" for o_ in lv):
                        targets.append(blk_.i)
            else:
                targets = [rd.blk for rd in ret_defs(prog, pbody) if rd.cls in ("success", "unknown")]
            round_ = [b_ for b_ in targets if b_ in pcf.reachable(0, cut_nodes={e.blk})]
            if round_:
                rep.violation("d-skipped:%s" % fn_key(lf),
                              "`%s` can report success without having attempted the rename onto the content address (at %s): whatever "
                              "already sits there — a file damaged earlier, a stale link — stays, and reads after the successful write "
                              "would not return the bytes written" % (short(lf.path), blk_loc(pbody, round_[0])),
                              loc=blk_loc(pbody, round_[0]), config=cfg, rule="d-replacing-rename")
            else:
                rep.ob(cfg, "d-replacing-rename", fn_key(lf) + ":always", "every success `%s` reports has passed the rename" % short(lf.path))
            if ok:
                rep.ob(cfg, "d-address", fn_key(lf), "`%s` persists to content_path(cache, builder.result())" % short(lf.path))
            else:
                rep.violation("d-address:%s" % fn_key(lf), "`%s` persists to %s, not to the address computed by its digest builder" % (
                    short(lf.path), class_str(c) if c else None), loc=e.loc(), config=cfg, rule="d-address")
    for p in R.content_closes:
        lf = prog.fns[p]
        # the value returned (sync) / sent (async) is the same builder result
        t = w.sym.of_place(lf.body, 0, (("v", "Ok"), ("f", "0")))
        txt = term_str(t)
        if "ssri::IntegrityOpts::result" in txt or lf.is_async:
            rep.ob(cfg, "d-returns-digest", fn_key(lf), "`%s` returns the digest builder's result" % short(lf.path))
        else:
            rep.violation("d-returns:%s" % fn_key(lf), "`%s` returns %s instead of the computed digest" % (short(lf.path), txt[:80]),
                          loc=lf.body.loc(), config=cfg, rule="d-address")
    srcs = prog.field_sources("put::WriteOpts", "sri")
    n_sri = 0
    for (b, blk, i, op) in srcs:
        lf = prog.owner_fn(b)
        if op is None:
            continue
        tm = w.sym.of_operand(b, op)
        if lf.outer.name in ("integrity",) and lf.outer.impl_self == "put::WriteOpts":
            continue   # the setter (declared integrity)
        if tm[0] == "agg" and tm[2] == "None":
            continue
        if tm[0] == "field" and tm[1] == "put::WriteOpts" and tm[2] == "sri":
            continue   # Clone plumbing
        if lf.outer.impl_trait in ("std::default::Default", "std::clone::Clone"):
            continue   # derived Default (None) / Clone
        n_sri += 1
        good = False
        if tm[0] == "agg" and tm[2] == "Some":
            v = dict(tm[3]).get("0")
            if v is not None and v[0] == "call":
                g = prog.fns.get(v[1])
                good = g is not None and (g.path in R.content_closes or g.path in R.symlink_reach)
        if good:
            rep.ob(cfg, "d-indexed-integrity", fn_key(lf), "`%s` fills the undeclared integrity with the publication's computed digest" % short(lf.path))
        else:
            rep.violation("d-indexed:%s" % fn_key(lf), "`%s` sets the integrity to be indexed to %s" % (short(lf.path), term_str(tm)[:80]),
                          loc=blk_loc(b, blk), config=cfg, rule="d-indexed-integrity")
    rep.floor("computed_integrity_sources", n_sri, len(R.commits), cfg)

    # ---- (e) one-shot writers pass the caller's whole data ----
    n_one = 0
    for lf in prog.fns.values():
        if not re.search(r"^put::write(_hash)?(_sync)?_with_algo(::\{closure#0\})?::inner$", short(lf.path) if False else lf.path.replace("::{closure#0}", "")):
            continue
        n_one += 1
        key = fn_key(lf)
        ins = lf.outer.j.get("sig_inputs", [])
        di = [i for i, t in enumerate(ins) if t == "&[u8]"]
        if not di:
            rep.violation("e-data-param:%s" % key, "cannot identify the data parameter of `%s`" % short(lf.path), loc=lf.body.loc(), config=cfg, rule="e-one-shot")
            continue
        di = di[-1]
        was = [(b, blk, t) for b, blk, t in prog.call_sites(lf) if t.callee is not None and norm_callee(t.callee.path) == "std::io::Write::write_all"]
        ok = len(was) == 1 and w.sym.of_operand(was[0][0], was[0][2].args[-1]) == ("param", lf.path, di, ())
        if ok:
            rep.ob(cfg, "e-one-shot", key, "`%s` writes its whole data parameter with one write_all" % short(lf.path))
        else:
            rep.violation("e-one-shot:%s" % key, "`%s` does not write exactly its data parameter" % short(lf.path), loc=lf.body.loc(), config=cfg, rule="e-one-shot")
        for b, blk, t in prog.call_sites(lf):
            if t.callee is not None and t.callee.path == "put::WriteOpts::size":
                tm = w.sym.of_operand(b, t.args[1])
                if teq(tm, ("call", "core::slice::<impl [T]>::len", (("param", lf.path, di, ()),), ())):
                    rep.ob(cfg, "e-declared-len", key, "declared size is data.len()")
                else:
                    rep.violation("e-declared-len:%s" % key, "`%s` declares size %s, not data.len()" % (short(lf.path), term_str(tm)[:60]),
                                  loc=span_str(t.span), config=cfg, rule="e-one-shot")
    rep.floor("one_shot_writers", n_one, 4 if is_async else 2, cfg)

    # ---- (f) the pre-allocation is never reached with length 0 ----
    for e in w.inv.effects:
        if e.kind != "Fallocate":
            continue
        lf = prog.owner_fn(e.body)
        # callers of the allocating function: the length argument must be proved >= 1 by a dominating comparison
        for (g, b, blk, t) in prog.callers_of(lf):
            ln = None
            ins = lf.outer.j.get("sig_inputs", [])
            for i, ty in enumerate(ins):
                if ty == "usize":
                    ln = i
            if ln is None:
                continue
            lterm = w.sym.of_operand(b, t.args[ln])
            gates = []
            for bb in b.blocks:
                tu = bb.term
                if bb.cleanup or tu.k != "switch" or tu.discr.place is None:
                    continue
                for o in prog.resolve_pl(b, tu.discr.place, IDENT):
                    if o.kind == "binop" and o.info.j["op"] in ("Le", "Lt", "Ge", "Gt", "Ne"):
                        a0 = w.sym.of_operand(b, o.info.ops[0])
                        a1 = w.sym.of_operand(b, o.info.ops[1])
                        op = o.info.j["op"]
                        tgt = None
                        if op == "Le" and a0[0] == "const" and isinstance(a0[1], int) and a0[1] >= 1 and a1 == lterm:
                            tgt = switch_target(tu, 1)
                        if op == "Lt" and a0[0] == "const" and isinstance(a0[1], int) and a0[1] >= 0 and a1 == lterm:
                            tgt = switch_target(tu, 1)
                        if op == "Ge" and a1[0] == "const" and isinstance(a1[1], int) and a1[1] >= 1 and a0 == lterm:
                            tgt = switch_target(tu, 1)
                        if op == "Gt" and a1[0] == "const" and isinstance(a1[1], int) and a1[1] >= 0 and a0 == lterm:
                            tgt = switch_target(tu, 1)
                        if op == "Ne" and ((a1 == ("const", 0) and a0 == lterm) or (a0 == ("const", 0) and a1 == lterm)):
                            tgt = switch_target(tu, 1)
                        if tgt is not None:
                            gates.append(Gate(b, (bb.i, tgt), "len >= 1", bb.i))
            if gates and not unreachable_without(prog, b, gates, [blk.i]):
                rep.ob(cfg, "f-fallocate-nonzero", fn_key(g), "`%s` pre-allocates only when the declared size is ≥ 1" % short(g.path))
            else:
                rep.violation("f-fallocate:%s" % fn_key(g),
                              "`%s` can pre-allocate the temp file with length 0 (posix_fallocate rejects it with EINVAL): storing empty data with a declared size fails" % short(g.path),
                              loc=span_str(t.span), config=cfg, rule="f-fallocate-nonzero")


def _range_to_end(t):
    p = t[3] if t[0] in ("call", "param", "field", "arg") else None
    if p:
        e = p[-1]
        if e[0] == "[]" and len(e) == 2 and e[1][0] == "agg" and e[1][1] == "std::ops::RangeTo":
            return dict(e[1][3]).get("end")
    return None


def _strip_last_range(t):
    if t[0] in ("call",) and t[3] and t[3][-1][0] == "[]":
        return t[:3] + (tuple(t[3][:-1]),) + t[4:]
    if t[0] in ("param", "field", "arg") and t[3] and t[3][-1][0] == "[]":
        return t[:3] + (tuple(t[3][:-1]),)
    return t


def _range_end_operand(prog, b, it):
    """Operand holding the `end` of the RangeTo used to slice the digest input."""
    for o in prog.resolve_op(b, it.args[1], IDENT):
        pass
    # find the Index::index call feeding the input argument
    idx = prog.idx(b)
    for (l, p) in idx.aliases(it.args[1].place) if it.args[1].place is not None else []:
        for kind, blk, i, d, obj in idx.defs.get(l, []):
            if kind == "call" and obj.callee is not None and obj.callee.path == "std::ops::Index::index":
                for r in prog.resolve_op(b, obj.args[1], IDENT, blk):
                    if r.kind == "agg" and r.info.j.get("path") == "std::ops::RangeTo":
                        return r.info.ops[0]
    return None


def check_whole_sink(cfg, w, rep, g):
    """An all-or-error mapped write: returns Ok(len(buf)) only after copying the whole buf."""
    prog = w.prog
    key = fn_key(g)
    ins = g.outer.j.get("sig_inputs", [])
    bi = [i for i, t in enumerate(ins) if t == "&[u8]"]
    if not bi:
        rep.violation("a-whole:%s" % key, "cannot identify the data parameter of `%s`" % short(g.path), loc=g.body.loc(), config=cfg, rule="a-whole-sink")
        return
    bi = bi[-1]
    body = g.body
    copies = [(blk, t) for blk, t in body.calls() if t.callee is not None and t.callee.path == "core::slice::<impl [T]>::copy_from_slice"]
    ok = len(copies) == 1 and w.sym.of_operand(body, copies[0][1].args[1]) == ("param", g.path, bi, ())
    rets = [rd for rd in ret_defs(prog, body) if rd.cls == "success"]
    for rd in rets:
        t = w.sym.of_place(body, 0, (("v", "Ok"), ("f", "0")), at=rd.blk)
        if not teq(t, ("call", "core::slice::<impl [T]>::len", (("param", g.path, bi, ()),), ())):
            ok = False
        if copies and not prog.cfg(body).dominates(copies[0][0].i, rd.blk):
            ok = False
    fails = [rd for rd in ret_defs(prog, body) if rd.cls == "failure"]
    for rd in fails:
        if copies and prog.cfg(body).can_reach(copies[0][0].i, rd.blk):
            ok = False
    # the position moves on by exactly what was copied: the copy goes to [pos .. pos + len(buf)) and the position parameter is then
    # set to that same end (a position set to anything else makes the next chunk overwrite or skip bytes of this one, while the
    # digest and the byte count still see every byte)
    if copies:
        dst = w.sym.of_operand(body, copies[0][1].args[0])
        rng = None
        for e_ in (dst[3] if dst[0] in ("param", "call", "field") and len(dst) > 3 else ()):
            if e_[0] == "[]" and len(e_) > 1 and isinstance(e_[1], tuple) and e_[1][0] == "agg" and e_[1][1] == "std::ops::Range":
                rng = dict(e_[1][3])
        pos_assigns = []
        for bb_ in body.blocks:
            if bb_.cleanup:
                continue
            for st_ in bb_.stmts:
                if st_.k == "assign" and st_.place.proj and 1 <= st_.place.local <= body.arg_count and st_.place.local - 1 != bi and \
                        all(e2.get("k") == "deref" for e2 in st_.place.proj):
                    pos_assigns.append((st_.place.local - 1, w.sym.of_operand(body, st_.rv.ops[0]) if st_.rv.k == "use" else None))
        if rng is not None:
            start, end = rng.get("start"), rng.get("end")
            pos_ok = start is not None and start[0] == "param" and start[1] == g.path and len(pos_assigns) == 1 and \
                pos_assigns[0][0] == start[2] and pos_assigns[0][1] is not None and teq(pos_assigns[0][1], end)
            from ..symval import walk as _walk
            if not pos_ok and start is not None and len(pos_assigns) == 1 and pos_assigns[0][0] == start[2] and pos_assigns[0][1] is not None:
                # `*pos += buf.len()` / `*pos = *pos + buf.len()`: the same end, computed again
                pt = pos_assigns[0][1]
                if pt[0] == "op" and "Add" in str(pt[1]) and len(pt[2]) == 2 and any(teq(a_, start) for a_ in pt[2]) and any(
                        a_[0] == "call" and a_[1].endswith("::len") and a_[2] and a_[2][0] == ("param", g.path, bi, ()) for a_ in pt[2]):
                    pos_ok = True
            end_ok = end is not None and any(st_[0] == "call" and st_[1].endswith("::len") and st_[2] and st_[2][0] == ("param", g.path, bi, ()) for st_ in _walk(end)) \
                and any(st_ == start for st_ in _walk(end))
            if pos_ok and end_ok:
                rep.ob(cfg, "a-whole-sink", key + ".position", "`%s` copies to [pos .. pos + len(buf)) and sets pos to that end" % short(g.path))
            else:
                ok = False
                rep.violation("a-whole-pos:%s" % key,
                              "`%s` does not advance its position by exactly what it copied (copies to [%s .. %s), then sets the position to %s): the next "
                              "chunk would overwrite or skip bytes of this one while the digest still sees every byte" % (
                                  short(g.path), term_str(start)[:30] if start else "?", term_str(end)[:60] if end else "?",
                                  term_str(pos_assigns[0][1])[:60] if pos_assigns and pos_assigns[0][1] else "nothing / several values"),
                              loc=body.loc(), config=cfg, rule="a-whole-sink")
    if ok and rets:
        rep.ob(cfg, "a-whole-sink", key, "`%s` returns Ok(buf.len()) only after copying the whole buf into the mapping, and fails only before touching it" % short(g.path))
    else:
        rep.violation("a-whole:%s" % key, "`%s` is treated as an all-or-error sink but can report success without having copied its whole buffer" % short(g.path),
                      loc=body.loc(), config=cfg, rule="a-whole-sink")


def check_staging(cfg, w, rep, lf):
    prog = w.prog
    body = lf.body
    key = fn_key(lf)
    cf = prog.cfg(body)
    spawns = [(blk, t) for blk, t in body.calls() if t.callee is not None and t.callee.path.endswith("task::spawn_blocking") and blk.i in cf.live()]
    bufp = ("param", lf.path, 2, ())
    len_buf = ("call", "core::slice::<impl [T]>::len", (bufp,), (), "")
    for sblk, st in spawns:
        set_len = None
        copy = None
        other = []
        for blk, t in body.calls():
            if t.callee is None or blk.i not in cf.live():
                continue
            p = t.callee.path
            if not t.args or t.args[0].place is None:
                continue
            recv = w.sym.of_operand(body, t.args[0])
            on_stage = recv[0] == "field" and _is_stage_field(w, recv)
            if not on_stage and not (p == "core::slice::<impl [T]>::copy_from_slice"):
                continue
            if p == "std::vec::Vec::<T, A>::set_len" and on_stage:
                if teq(w.sym.of_operand(body, t.args[1]), len_buf) and cf.dominates(blk.i, sblk.i):
                    set_len = blk.i
            elif p == "core::slice::<impl [T]>::copy_from_slice":
                dst = w.sym.of_operand(body, t.args[0])
                src = w.sym.of_operand(body, t.args[1])
                if dst[0] == "field" and _is_stage_field(w, dst) and src == bufp and cf.dominates(blk.i, sblk.i):
                    rng = dst[3][-1] if dst[3] else None
                    if rng and rng[0] == "[]" and len(rng) == 2 and rng[1][0] == "agg" and teq(dict(rng[1][3]).get("end"), len_buf):
                        copy = blk.i
            elif on_stage and p in ("std::vec::Vec::<T, A>::len", "std::vec::Vec::<T, A>::reserve", "std::ops::IndexMut::index_mut",
                                    "std::ops::Index::index", "std::vec::Vec::<T, A>::capacity"):
                pass
            elif on_stage and p in ("std::vec::Vec::<T, A>::clear", "std::vec::Vec::<T, A>::extend_from_slice", "std::vec::Vec::<T, A>::resize",
                                    "std::vec::Vec::<T, A>::truncate"):
                other.append(p)
        if set_len is not None and copy is not None and cf.dominates(set_len, copy) and not other:
            rep.ob(cfg, "b-staging", key, "before the blocking write, the staging buffer has length buf.len() (set_len) and holds buf[..] (copy_from_slice of the whole chunk)")
        elif other == ["std::vec::Vec::<T, A>::clear", "std::vec::Vec::<T, A>::extend_from_slice"]:
            rep.ob(cfg, "b-staging", key, "staging buffer is cleared and extended with the whole chunk")
        else:
            rep.violation("b-staging:%s" % key,
                          "`%s`: the staging buffer handed to the blocking write is not shown to equal the caller's chunk (set_len(buf.len()) %s, full copy %s, other mutations %s): "
                          "stale or truncated bytes could be written" % (short(lf.path), "found" if set_len is not None else "missing",
                                                                         "found" if copy is not None else "missing", other),
                          loc=span_str(st.span), config=cfg, rule="b-staging")


def check_counter(cfg, w, rep, lf):
    prog = w.prog
    body = lf.body
    key = fn_key(lf)
    own = strip_refs(lf.outer.impl_self)
    bufi = 2 if lf.outer.name == "poll_write" else 1
    inner = [(blk, t) for blk, t in body.calls() if t.callee is not None and re.search(r"(Write::write|AsyncWrite::poll_write)$", t.callee.path)]
    if len(inner) != 1:
        rep.violation("c-inner:%s" % key, "`%s` performs %d inner writes per call (expected 1)" % (short(lf.path), len(inner)), loc=body.loc(), config=cfg, rule="c-counter")
        return
    iblk, it = inner[0]
    if w.sym.of_operand(body, it.args[-1]) != ("param", lf.path, bufi, ()):
        rep.violation("c-buf:%s" % key, "`%s` does not pass the caller's buffer unchanged to the inner writer" % short(lf.path), loc=span_str(it.span), config=cfg, rule="c-counter")
    # counter update: field written = written + amt
    ok = False
    for blk in body.blocks:
        for s in blk.stmts:
            if s.k == "assign":
                np_ = norm_path(s.place)
                if np_ and np_[-1][0] == "f" and len(np_[-1]) == 3 and np_[-1][2] == own:
                    tm = w.sym.of_operand(body, s.rv.ops[0]) if s.rv.k == "use" else None
                    if tm and tm[0] == "op" and tm[1] in ("AddWithOverflow", "Add"):
                        a, b_ = tm[2]
                        for x, y in ((a, b_), (b_, a)):
                            if x[0] == "field" and x[1] == own and x[2] == np_[-1][1]:
                                amt = y
                                if amt[0] == "call" and re.search(r"(Write>::write|AsyncWrite>::poll_write|Write::write|AsyncWrite::poll_write)$", amt[1]) and \
                                        tuple(e for e in amt[3] if e[0] in ("v", "f"))[-2:] == (("v", "Ok"), ("f", "0")):
                                    ok = True
    ret_ok = False
    for rd in ret_defs(prog, body):
        if rd.cls == "success":
            pay = prog.resolve_lifted(body, 0, (("v", "Ok"), ("f", "0")) if lf.outer.name == "write" else (("v", "Ready"), ("f", "0"), ("v", "Ok"), ("f", "0")), IDENT, at=rd.blk)
            if pay and all(x.kind == "call" and x.term is it for x in pay):
                ret_ok = True
    if ok and ret_ok:
        rep.ob(cfg, "c-counter", key, "`%s` adds the amount reported by the inner writer to its counter and returns that amount" % short(lf.path))
    else:
        rep.violation("c-counter:%s" % key, "`%s`: the byte counter is not `counter += <amount the inner writer reported>` returned unchanged (update ok: %s, return ok: %s)" % (
            short(lf.path), ok, ret_ok), loc=body.loc(), config=cfg, rule="c-counter")
