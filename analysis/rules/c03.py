"""C03 — content files appear atomically (who may write a content address; staging; failed publication)."""
from .common import *
from .fsrules import FsWorld, effect_fn
from ..provenance import leaf, shape, entry_str

PROP = "C03"

# kinds allowed to have a content address as destination
CONTENT_DST_OK = {("Persist", "dst"), ("Symlink", "dst"), ("RemoveFile", "path")}
CONTENT_PARENT_OK = {("CreateDir", "path")}


def run(ctx, rep):
    for cfg, w in ctx.worlds():
        check_config(cfg, w, rep)
    return rep


def _content_level(c):
    """0 if class is Content(..) itself, 1 if Parent(Content), None otherwise."""
    if c[0] == "Content":
        return 0
    if c[0] == "Parent" and c[1][0] == "Content":
        return 1
    if c[0] in ("Handle",) and c[1][0] == "Content":
        return 0
    return None


def check_config(cfg, w, rep):
    prog = w.prog
    fw = FsWorld.get(w)
    is_async = not cfg.startswith("sync")

    # ---- (a) who may write a content address ----
    n = 0
    for e in w.inv.effects:
        if not e.mutating:
            continue
        for role, cs in fw.expanded(e).items():
            lvls = {_content_level(c) for c in cs} - {None}
            if not lvls or role in ("src",):
                continue
            lvl = min(lvls)
            if e.kind in ("SetPerm",):
                continue    # changes mode bits, not the bytes or the existence of a content file (confinement: C15; removals: C09)
            n += 1
            lf = effect_fn(w, e)
            key = "%s:%s:%s" % (fn_key(lf), e.kind, role)
            if lvl == 0 and (e.kind, role) in CONTENT_DST_OK:
                rep.ob(cfg, "a-who-writes-content", key, "%s targets a content address in `%s` (atomic publication / removal)" % (e.kind, short(lf.path)))
            elif lvl == 1 and (e.kind, role) in CONTENT_PARENT_OK:
                rep.ob(cfg, "a-who-writes-content", key, "creates the parent directories of a content address")
            else:
                rep.violation("a-content-write:%s:%s" % (fn_key(lf), e.kind),
                              "`%s` performs %s with a content address as its %s: content files may only appear by rename of a finished "
                              "temp file (persist) or symlink, never by in-place creation/writing/copying" % (short(lf.path), e.kind, role),
                              loc=e.loc(), config=cfg, rule="a-who-writes-content")
    rep.floor("content_address_mutations", n, 4, cfg)

    # ---- (b) staging: temp file created in {cache}/tmp of the same cache as the publication target ----
    n_p = 0
    for e in w.inv.effects:
        if e.kind != "Persist":
            continue
        n_p += 1
        lf = effect_fn(w, e)
        ex = fw.expanded(e)
        hs = ex.get("handle", set())
        ds = ex.get("dst", set())
        h_shapes = {shape(x) for x in hs}
        d_shapes = {shape(x) for x in ds}
        h_roots = {leaf(x)[:3] for x in hs if leaf(x)[0] == "Entry"}
        d_roots = {leaf(x)[:3] for x in ds if leaf(x)[0] == "Entry"}
        if h_shapes == {"TempIn(Join(Entry,'tmp'))"} and d_shapes == {"Content(Entry)"} and h_roots == d_roots and h_roots:
            rep.ob(cfg, "b-staged-in-cache-tmp", fn_key(lf),
                   "`%s` renames a temp file created in {cache}/tmp onto content_path of the same cache (%d entry points): same filesystem, atomic" % (
                       short(lf.path), len(h_roots)))
        else:
            rep.violation("b-staging:%s" % fn_key(lf),
                          "`%s` publishes a temp file of shape %s (roots %s) onto %s (roots %s): the staged file must be created with "
                          "new_in({cache}/tmp) of the same cache so that publication is a same-filesystem rename" % (
                              short(lf.path), sorted(h_shapes), sorted(r[1] + "#%d" % r[2] for r in h_roots)[:3],
                              sorted(d_shapes), sorted(r[1] + "#%d" % r[2] for r in d_roots)[:3]),
                          loc=e.loc(), config=cfg, rule="b-staged-in-cache-tmp")
    rep.floor("persist_sites", n_p, 2 if is_async else 1, cfg)
    for e in w.inv.effects:
        if e.kind in ("CreateTemp", "CreateTempGlobal"):
            lf = effect_fn(w, e)
            shapes = {shape(x) for x in fw.expanded(e).get("path", set())}
            if e.kind == "CreateTemp" and shapes == {"Join(Entry,'tmp')"}:
                rep.ob(cfg, "b-temp-location", fn_key(lf), "temp file created with new_in({cache}/tmp) in `%s`" % short(lf.path))
            else:
                rep.violation("b-temp-location:%s" % fn_key(lf),
                              "`%s` creates a temp file in %s instead of {cache}/tmp" % (short(lf.path), sorted(shapes) or "the process-global temp directory"),
                              loc=e.loc(), config=cfg, rule="b-temp-location")

    # ---- (c) data writes only into the temp handle (or a mapping of it) or an append-only bucket ----
    n_w = 0
    for e in w.inv.effects:
        if e.kind not in ("WriteData", "WriteFile", "Fallocate", "HandleMut"):
            continue
        n_w += 1
        lf = effect_fn(w, e)
        exps = fw.expanded(e).get("handle", set()) | fw.expanded(e).get("path", set())
        # a file at the caller's explicit destination parameter (an extraction target) is outside the content area
        exps = {x for x in exps if not (shape(x) in ("Handle(Entry)", "Entry") and fw.entry_role(leaf(x)) == "other")}
        if not exps:
            rep.ob(cfg, "c-writes-to-temp", "%s:%s:dest" % (fn_key(lf), e.flags.get("op", e.kind)),
                   "data write in `%s` targets the caller's explicit destination, not the content area" % short(lf.path))
            continue
        shapes = {shape(x) for x in exps}
        okset = {"TempIn(Join(Entry,'tmp'))", "Mmap(TempIn(Join(Entry,'tmp')))", "Handle(Bucket(Entry))"}
        if shapes and shapes <= okset:
            rep.ob(cfg, "c-writes-to-temp", "%s:%s" % (fn_key(lf), e.flags.get("op", e.kind)),
                   "data write in `%s` targets %s" % (short(lf.path), sorted(shapes)))
        else:
            rep.violation("c-write-target:%s" % fn_key(lf), "`%s` writes data to %s (allowed: the private temp file, its mapping, an append-only bucket)" % (
                short(lf.path), sorted(shapes)), loc=e.loc(), config=cfg, rule="c-writes-to-temp")
    rep.floor("data_write_sites", n_w, 4, cfg)

    # ---- (f) a pre-allocated temp file never reaches publication longer than what was written ----
    check_preallocation(cfg, w, rep)
    check_staging_is_sequential(cfg, w, rep)

    # ---- (g) what is published under an address is the data whose digest it is: the staged bytes and the digest input
    #      agree (C02 a: the digest is fed exactly what the sink accepted, every sink write is digested) and the rename
    #      target is content_path(cache, that digest) (C02 d) ----
    from ..framework import Report
    from . import c02
    sub = Report("C02")
    c02.check_config(cfg, w, sub)
    G = ("a-digest-sink", "a-whole-sink", "d-address")
    for (c_, rule, k, desc, ok) in sub.obligations:
        if rule in G and ok:
            rep.ob(cfg, "g/" + rule, k, desc)
    for k, v in sub.violations.items():
        if v.rule in G:
            rep.violation("g:%s" % k, "a file could be published under an address that is not the digest of its bytes — " + v.msg,
                          loc=v.loc, config=cfg, rule="g/" + v.rule, witness=v.witness)
    if "link_to" in cfg:
        # with link_to the published entry is a symlink to the caller's file under the digest the linker computed while reading it:
        # that digest covers exactly the bytes read, all of them (C19 b), and a failed symlink is accepted only if the address
        # really holds content (C19 d)
        from . import c19
        sub = Report("C19")
        c19.check_config(cfg, w, sub)
        GL = ("b-hashes-what-it-reads", "b-input-slice", "b-consumes-all", "d-existing-destination")
        for (c_, rule, k, desc, ok) in sub.obligations:
            if rule in GL and ok:
                rep.ob(cfg, "g/" + rule, k, desc)
        for k, v in sub.violations.items():
            if v.rule in GL:
                rep.violation("g:%s" % k, "a link could be published under an address that is not the digest of the file it points to — " + v.msg,
                              loc=v.loc, config=cfg, rule="g/" + v.rule, witness=v.witness)

    # ---- (e) a failed publication is an error unless the destination is shown to exist ----
    for p in w.roles.content_closes:
        lf = prog.fns[p]
        check_close(cfg, w, rep, lf)


def _persist_origin(o):
    return o.kind == "call" and o.callee is not None and re.search(r"NamedTempFile::<F>::persist(_noclobber)?$", o.callee.path)


import re  # noqa: E402


def check_close(cfg, w, rep, lf):
    prog = w.prog
    key = fn_key(lf)
    effs = w.own_effects(lf)
    persists = [e for e in effs if e.kind == "Persist"]
    if len(persists) != 1:
        rep.violation("e-persist-count:%s" % key, "`%s` has %d persist sites (expected 1)" % (short(lf.path), len(persists)),
                      loc=lf.body.loc(), config=cfg, rule="e-failed-publication")
        return
    pe = persists[0]
    pbody = pe.body
    dst_term = pe.terms.get("dst")
    if pbody is lf.body:
        # synchronous form: success return gated by persist Ok or by exists(dst)==true
        def is_persist(o):
            return _persist_origin(o) and o.path == ()

        def is_exists(o):
            if o.kind != "call" or o.callee is None or o.path:
                return False
            if norm_callee(o.callee.path) not in ("std::path::Path::exists", "std::path::Path::try_exists", "std::fs::exists"):
                return False
            return w.sym.of_operand(o.body, o.term.args[0]) == dst_term
        gates = match_gates(prog, pbody, is_persist, "Ok") + try_gates(prog, pbody, is_persist) + bool_gates(prog, pbody, is_exists, True)
        succ = [rd for rd in ret_defs(prog, pbody) if rd.cls in ("success", "unknown", "delegated")]
        bad = unreachable_without(prog, pbody, gates, [rd.blk for rd in succ])
        if bad:
            for blk, wit in bad:
                rep.violation("e-sync:%s" % key,
                              "`%s` can report success although persist failed and the destination was not shown to exist" % short(lf.path),
                              loc=blk_loc(pbody, blk), config=cfg, rule="e-failed-publication", witness=witness_str(pbody, wit))
        else:
            rep.ob(cfg, "e-failed-publication", key, "success of `%s` requires persist Ok or exists(same destination)" % short(lf.path))
        return
    # asynchronous form: every value sent on the result channel is tied to persist, to a stat of the same destination,
    # or is the Err of an earlier step (sent only under is_err()==true)
    sends = [(blk, t) for blk, t in pbody.calls() if t.callee is not None and t.callee.path.endswith("oneshot::Sender::<T>::send")
             and blk.i in prog.cfg(pbody).live()]
    if not sends:
        rep.violation("e-async-nosend:%s" % key, "`%s`: the blocking close closure never reports its result" % short(lf.path),
                      loc=pbody.loc(), config=cfg, rule="e-failed-publication")
        return
    for blk, t in sends:
        leaves = prog.resolve_op(pbody, t.args[1], OKFLOW, blk.i)
        tied = []
        ok = True
        for o in leaves:
            if _persist_origin(o) and o.path == ():
                tied.append("persist")
            elif o.kind == "call" and o.callee is not None and not o.path and norm_callee(o.callee.path) in (
                    "std::fs::metadata", "std::fs::symlink_metadata", "std::fs::exists"):
                if w.sym.of_operand(o.body, o.term.args[0]) == dst_term:
                    tied.append("stat(dst)")
                else:
                    ok = False
                    tied.append("stat(other path)")
            elif o.kind == "call" and o.callee is not None and not o.path:
                # result of an earlier fallible step: acceptable only if this send is under is_err()==true of that result
                def is_that(x, o=o):
                    return x.kind == "call" and x.callee is not None and x.callee.path == "std::result::Result::<T, E>::is_err" and \
                        any(y.kind == "call" and y.term is o.term for y in prog.resolve_op(x.body, x.term.args[0], OKFLOW, x.blk))
                g = bool_gates(prog, pbody, is_that, True)
                if g and not unreachable_without(prog, pbody, g, [blk.i]):
                    tied.append("Err of %s" % norm_callee(o.callee.path).rsplit("::", 2)[-2:])
                else:
                    ok = False
                    tied.append("unguarded result of %s" % o.callee.path)
            elif o.kind == "agg" and o.info.j.get("agg") == "adt" and o.info.j.get("path", "").endswith("::Result"):
                if o.info.j.get("variant") == "Err":
                    tied.append("Err(..)")          # reporting a failure is always truthful here
                else:
                    # an explicit Ok(..): the send must sit behind the Ok arm of persist, or behind a positive existence
                    # check of the same destination
                    def is_p(x):
                        return _persist_origin(x) and x.path == ()

                    def is_stat(x):
                        return x.kind == "call" and x.callee is not None and norm_callee(x.callee.path) in (
                            "std::path::Path::exists", "std::fs::exists") and w.sym.of_operand(x.body, x.term.args[0]) == dst_term
                    gts = match_gates(prog, pbody, is_p, "Ok") + try_gates(prog, pbody, is_p) + bool_gates(prog, pbody, is_stat, True)
                    if gts and not unreachable_without(prog, pbody, gts, [blk.i]):
                        tied.append("Ok(..) behind persist Ok / exists(dst)")
                    else:
                        ok = False
                        tied.append("Ok(..) not behind persist's Ok arm")
            else:
                ok = False
                tied.append(repr(o))
        if ok and tied:
            rep.ob(cfg, "e-failed-publication", "%s:send@%s" % (key, "+".join(sorted(set(map(str, tied))))),
                   "value reported by the close closure is tied to %s" % sorted(set(map(str, tied))))
        else:
            rep.violation("e-async:%s" % key,
                          "`%s`: the close closure can report %s — success not tied to persist succeeding or to the destination existing" % (
                              short(lf.path), sorted(set(map(str, tied)))), loc=span_str(t.span), config=cfg, rule="e-failed-publication")


def check_trim_fn(cfg, w, rep, g):
    """Inside the trimming function: with a mapping present, a success return is reached only after set_len(<written length>)
    or on the edge where the written length is NOT below the mapped length (`pos < mapped` false) — no further exemption such
    as "nothing was written" (an untouched pre-allocated file is all padding)."""
    prog = w.prog
    body = g.body
    cf = prog.cfg(body)
    key = fn_key(g)
    trims = {e.blk for e in w.own_effects(g) if e.kind == "HandleMut" and e.body is body and e.term.callee.path.endswith("set_len")}
    if not trims:
        return
    # the mapping is present: Some edge of the switch on the Option<MmapMut> parameter
    somes = []
    lts = []
    for bb in body.blocks:
        tu = bb.term
        if bb.cleanup or tu.k != "switch" or tu.discr.place is None:
            continue
        for o in prog.resolve_pl(body, tu.discr.place, IDENT):
            if o.kind == "discr":
                ty = body.local_ty(o.info.place.local)
                if "MmapMut" in ty and "Option" in ty:
                    somes.append(switch_target(tu, VIDX["Some"]))
            if o.kind == "binop" and o.info.j["op"] in ("Lt", "Ge", "Le", "Gt"):
                lts.append((bb.i, tu, o))
    if not somes:
        return
    # allowed bypass: the single comparison between the written length and the mapping's length, on its "not below" edge
    allowed = set()
    n_cmp = 0
    for (bi, tu, o) in lts:
        terms = [w.sym.of_operand(body, x) for x in o.info.ops]
        has_len = any(t_[0] == "call" and t_[1].endswith("::len") for t_ in terms)
        has_param = any(t_[0] == "param" for t_ in terms)
        if has_len and has_param:
            n_cmp += 1
            opn = o.info.j["op"]
            pos_first = terms[0][0] == "param"
            below_true = (opn == "Lt" and pos_first) or (opn == "Gt" and not pos_first)
            below_false_val = 0 if below_true else 1
            if opn in ("Lt", "Gt"):
                allowed.add((bi, switch_target(tu, 0 if below_true else 1)))
            elif opn in ("Ge", "Le"):
                ge_true = (opn == "Ge" and pos_first) or (opn == "Le" and not pos_first)
                allowed.add((bi, switch_target(tu, 1 if ge_true else 0)))
    # what the file is cut to: the written length (the parameter compared above), not the mapping's own length (a no-op)
    from ..symval import walk as _walk
    pos_params = set()
    for (bi, tu, o) in lts:
        for x in o.info.ops:
            t_ = w.sym.of_operand(body, x)
            if t_[0] == "param":
                pos_params.add(t_[:3])
    for e in w.own_effects(g):
        if e.kind == "HandleMut" and e.body is body and e.term.callee.path.endswith("set_len") and len(e.term.args) > 1:
            lt_ = w.sym.of_operand(body, e.term.args[1])
            parts = list(_walk(lt_))
            uses_pos = any(st_[0] == "param" and st_[:3] in pos_params for st_ in parts)
            uses_len = any(st_[0] == "call" and st_[1].endswith("::len") for st_ in parts)
            if uses_pos and not uses_len:
                rep.ob(cfg, "f-trim-before-publish", key + ".length", "`%s` cuts the staging file to the written length" % short(g.path))
            else:
                rep.violation("f-trim-len:%s" % key,
                              "`%s` cuts the staging file to %s rather than to the written length: the padding of a short mapped write would be "
                              "published under the data's address" % (short(g.path), term_str(lt_)[:80]), loc=e.loc(), config=cfg, rule="f-trim-before-publish")
    succ = [rd for rd in ret_defs(prog, body) if rd.cls in ("success", "unknown")]
    reach = set()
    for st_ in somes:
        reach |= cf.reachable(st_, cut_nodes=trims, cut_edges=allowed)
    bad = [rd for rd in succ if rd.blk in reach]
    if bad or n_cmp != 1:
        rep.violation("f-trim-fn:%s" % key,
                      "`%s` can leave a mapped (pre-sized) staging file untrimmed for a reason other than 'everything declared was written' "
                      "(return at %s): the published file would carry zero padding under the data's address" % (
                          short(g.path), blk_loc(body, bad[0].blk) if bad else "?"), loc=blk_loc(body, bad[0].blk) if bad else body.loc(),
                      config=cfg, rule="f-trim-before-publish")
    else:
        rep.ob(cfg, "f-trim-before-publish", key + ".complete", "`%s` skips set_len only when the written length is not below the mapped length" % short(g.path))


def check_staging_is_sequential(cfg, w, rep):
    """(f3) the staged file is the sequence of accepted writes, nothing else: (i) no repositioning of the staging file's
    cursor (Seek::seek / rewind / seek_relative — a gap or an overlap would put bytes under the address that were never
    digested in that order); (ii) a mapping, once made, stays until publication trims it: no function takes
    `&mut Option<MmapMut>` and nothing take()s / replaces an Option<MmapMut> in place (dropping the mapping half-way lets
    plain writes continue into the pre-sized file)."""
    prog = w.prog
    n_calls = 0
    bad = 0
    for body in prog.bodies:
        for blk, t in body.calls():
            if t.callee is None:
                continue
            n_calls += 1
            p = t.callee.path
            lf = prog.owner_fn(body)
            if re.search(r"^std::io::Seek::(seek|rewind|seek_relative)$", p):
                st = (t.callee.self_ty or "")
                if "NamedTempFile" in st or "std::fs::File" in st:
                    cls = w.inv.classify(w.sym.of_operand(body, t.args[0]))
                    if "TempIn" in str(cls) or "NamedTempFile" in st:
                        bad += 1
                        rep.violation("f-seek:%s" % fn_key(lf), "`%s` repositions the cursor of the staging file (`%s`): the published file would no "
                                      "longer be the sequence of bytes that were written and digested" % (short(lf.path), p.rsplit("::", 1)[-1]),
                                      loc=span_str(t.span), config=cfg, rule="f-staging-sequential")
            if re.search(r"^(std::option::Option::<T>::(take|replace|insert|get_or_insert|get_or_insert_with)|std::mem::(take|replace|swap))$", p):
                if "write::MmapMut" in (t.callee.self_ty or "") + " ".join(t.callee.args or []):
                    bad += 1
                    rep.violation("f-unmap:%s" % fn_key(lf), "`%s` takes or replaces the writer's mapping in place (`%s`): plain writes would continue "
                                  "into the pre-sized staging file" % (short(lf.path), p.rsplit("::", 1)[-1]), loc=span_str(t.span), config=cfg,
                                  rule="f-staging-sequential")
    for lf in prog.fns.values():
        for ty in lf.outer.j.get("sig_inputs", []):
            if re.search(r"&mut std::option::Option<content::write::MmapMut>", ty):
                bad += 1
                rep.violation("f-unmap-param:%s" % fn_key(lf), "`%s` receives the writer's `Option<MmapMut>` by mutable reference: it can drop the "
                              "mapping before publication trims the pre-sized staging file" % short(lf.path), loc=lf.body.loc(), config=cfg,
                              rule="f-staging-sequential")
    if not bad:
        rep.ob(cfg, "f-staging-sequential", "zero-count", "no seek on the staging file and no in-place take/replace of the mapping (%d call sites scanned)" % n_calls)


def check_preallocation(cfg, w, rep):
    """The staging file is pre-sized (fallocate / set_len) only together with a mapping whose unused tail is trimmed
    before publication: (f1) after an allocation, a success return is reachable only through the Ok arm of the mapping
    call or through set_len(0); (f2) every publication is dominated by the trimming of the mapped file."""
    prog = w.prog
    n = 0
    for e in w.inv.effects:
        if e.kind != "Fallocate":
            continue
        af = effect_fn(w, e)
        for (g, b, blk, t) in prog.callers_of(af):
            n += 1
            key = fn_key(g)
            cf = prog.cfg(b)

            def is_map(o):
                return o.kind == "call" and o.callee is not None and o.callee.path.startswith("memmap2::") and "map_mut" in o.callee.path and not o.path
            gates = match_gates(prog, b, is_map, "Ok") + try_gates(prog, b, is_map)
            undo = set()
            for e2 in w.own_effects(g):
                if e2.kind == "HandleMut" and e2.body is b and e2.term.callee.path.endswith("set_len"):
                    ln = w.sym.of_operand(b, e2.term.args[1])
                    if ln == ("const", 0):
                        undo.add(e2.blk)
            start = t.target if t.target is not None else blk.i
            reach = cf.reachable(start, cut_edges={g_.edge for g_ in gates}, cut_nodes=undo)
            bad = [rd for rd in ret_defs(prog, b) if rd.cls in ("success", "unknown") and rd.blk in reach]
            if bad:
                rep.violation("f-prealloc:%s" % key,
                              "`%s` pre-allocates the staging file and can then return without a mapping and without undoing the allocation: plain writes "
                              "into a pre-sized file publish zero padding under the data's address when fewer bytes than declared are written" % short(g.path),
                              loc=blk_loc(b, bad[0].blk), config=cfg, rule="f-preallocation")
            else:
                rep.ob(cfg, "f-preallocation", key, "after pre-allocating, `%s` returns only with a mapping (Ok arm of map_mut) or after set_len(0)" % short(g.path))
    if n == 0:
        return
    for p in w.roles.content_closes:
        lf = prog.fns[p]
        for e in w.own_effects(lf):
            if e.kind != "Persist":
                continue
            b = e.body
            cf = prog.cfg(b)
            ok = False
            for bb, bblk, tt, gg in prog.local_calls(lf):
                if bb is b and any(x.kind == "HandleMut" for x in w.reach_effects(gg)) and cf.dominates(bblk.i, e.blk):
                    # the trimming call's failure must prevent publication: `?` / is_err() gate
                    def is_trim(o, tt=tt):
                        return o.kind == "call" and o.term is tt and not o.path

                    def is_err_of_trim(o, tt=tt):
                        return o.kind == "call" and o.callee is not None and o.callee.path == "std::result::Result::<T, E>::is_err" and \
                            any(x.kind == "call" and x.term is tt for x in prog.resolve_op(o.body, o.term.args[0], OKFLOW, o.blk))
                    gts = try_gates(prog, b, is_trim) + match_gates(prog, b, is_trim, "Ok") + bool_gates(prog, b, is_err_of_trim, False)
                    if gts and not unreachable_without(prog, b, gts, [e.blk]):
                        ok = True
            if ok:
                rep.ob(cfg, "f-trim-before-publish", fn_key(lf), "`%s` trims the mapped temp file to the written length (and checks the result) before persist" % short(lf.path))
                for bb, bblk, tt, gg in prog.local_calls(lf):
                    if bb is b and any(x.kind == "HandleMut" for x in w.own_effects(gg)) and cf.dominates(bblk.i, e.blk):
                        check_trim_fn(cfg, w, rep, gg)
            else:
                rep.violation("f-trim:%s" % fn_key(lf), "`%s` publishes a possibly pre-allocated temp file without first trimming it to the bytes written" % short(lf.path),
                              loc=e.loc(), config=cfg, rule="f-trim-before-publish")
