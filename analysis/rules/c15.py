"""C15 — effects stay inside the cache directory; keys are opaque; reads do not mutate."""
import re

from .common import *
from .fsrules import FsWorld, check_effect_confined, effect_fn, ALLOWED
from ..provenance import leaf, shape, entry_str
from ..symval import walk

PROP = "C15"

# read-only public API named by the property: reads, metadata, exists, listing
READ_ONLY = re.compile(
    r"^(get::(read|read_sync|read_hash|read_hash_sync|metadata|metadata_sync|exists|exists_sync)|"
    r"get::(Reader|SyncReader)::(open|open_hash|check)|"
    r"<get::(Reader|SyncReader) as [^>]+>::(read|poll_read)|"
    r"ls::list_sync|index::(find|find_async|ls))$")


def run(ctx, rep):
    for cfg, w in ctx.worlds():
        check_config(cfg, w, rep)
    return rep


def check_config(cfg, w, rep):
    prog = w.prog
    fw = FsWorld.get(w)
    is_async = not cfg.startswith("sync")

    # ---- (a) every mutating effect is confined ----
    n_mut = 0
    for e in w.inv.effects:
        if not e.mutating:
            continue
        if e.kind in ("Unmodelled", "CreateTempGlobal", "Chdir", "WriteFile", "Rename", "SetPerm", "TempEscape"):
            lf = effect_fn(w, e)
            rep.violation("a-forbidden:%s:%s" % (fn_key(lf), e.kind),
                          "`%s` uses %s (%s), which is %s" % (
                              short(lf.path), (e.flags.get("by_name") + " (handed over by name)") if e.flags.get("by_name") else e.term.callee.path, e.kind,
                              "not in the dependency model: treated as a mutation of unknown location" if e.kind == "Unmodelled"
                              else "a process-global or unconfined filesystem mutation"),
                          loc=e.loc(), config=cfg, rule="a-confined")
            continue
        n_mut += 1
        ok, n = check_effect_confined(w, fw, e, rep, cfg, "a-confined", "a")
        if ok:
            lf = effect_fn(w, e)
            roles = {r: sorted({shape(c) for c in cs}) for r, cs in fw.expanded(e).items()}
            rep.ob(cfg, "a-confined", "%s:%s" % (fn_key(lf), e.kind),
                   "%s in `%s`: %s (all %d expansions rooted at the cache/destination parameter of a public entry point)" % (
                       e.kind, short(lf.path), roles, n))
    rep.floor("mutating_effects", n_mut, {"sync": 14, "async": 38}["async" if is_async else "sync"] if "mmap" in cfg else 10, cfg)
    # non-mutating uses of process-global locations as path roots are reported too
    for e in w.inv.effects:
        if e.kind == "EnvPath":
            lf = effect_fn(w, e)
            rep.violation("a-env:%s" % fn_key(lf), "`%s` derives a path from a process-global location (%s)" % (short(lf.path), e.term.callee.path),
                          loc=e.loc(), config=cfg, rule="a-confined")

    # ---- (a2) the two address functions, whose results clause (a) takes to lie under their first argument, really build
    #      `<first argument>/seg/seg/...` by joining path segments: no detour through text (`display()`, `to_string_lossy()` —
    #      lossy for directory names that are not UTF-8, so the files would land in a sibling directory), no other root ----
    n_addr = 0
    for p_ in list(w.roles.content_path) + list(w.roles.bucket_path):
        lf_ = prog.fns[p_]
        n_addr += 1
        t_ = w.sym.of_place(lf_.body, 0, ())
        from ..symval import inline_private_calls
        t_ = inline_private_calls(w.sym, prog, t_, skip=set(w.roles.hash_fns))
        c_ = w.inv.classify(t_)
        base, nseg = c_, 0
        while base[0] == "Join":
            base, nseg = base[1], nseg + 1
        lossy = [st[1] for st in walk(t_) if st[0] == "call" and re.search(r"(Path::display|to_string_lossy|from_utf8_lossy|Path::to_str)$", st[1])]
        if base[0] == "Param" and base[2] == 0 and not base[3] and nseg >= 1 and not lossy:
            rep.ob(cfg, "a2-address-rooted", fn_key(lf_), "`%s` returns its first argument joined with %d further segment(s)" % (short(p_), nseg))
        else:
            rep.violation("a2-address:%s" % fn_key(lf_),
                          "`%s` does not build its result by joining segments onto its cache-directory argument (%s%s): every effect on such an "
                          "address is taken to lie inside the cache directory, but %s" % (
                              short(p_), shape(c_)[:80], "; via " + ", ".join(sorted(set(x.rsplit("::", 2)[-2] + "::" + x.rsplit("::", 1)[-1] for x in lossy))) if lossy else "",
                              "a path that went through text is a different path when the directory name is not valid UTF-8" if lossy
                              else "it is rooted elsewhere"),
                          loc=lf_.body.loc(), config=cfg, rule="a2-address-rooted")
    rep.floor("address_functions", n_addr, 2, cfg)

    # ---- (b) keys are opaque ----
    R = w.roles
    for p in R.bucket_path:
        lf = prog.fns[p]
        t = w.sym.of_place(lf.body, 0, ())
        bad = key_leaks(w, t, lf)
        if bad:
            rep.violation("b-bucket-path:%s" % fn_key(lf), "bucket path `%s` depends on the key other than through its SHA-1 hex: %s" % (short(p), bad),
                          loc=lf.body.loc(), config=cfg, rule="b-key-opaque")
        else:
            rep.ob(cfg, "b-key-opaque", fn_key(lf), "`%s`: the key reaches the path only as HASH_KEY(key)" % short(p))
    for p in R.content_path:
        lf = prog.fns[p]
        t = w.sym.of_place(lf.body, 0, ())
        params = {st[2] for st in walk(t) if st[0] == "param" and st[1] == lf.path}
        if params <= {0, 1}:
            rep.ob(cfg, "b-content-path", fn_key(lf), "`%s` depends only on (cache, integrity)" % short(p))
        else:
            rep.violation("b-content-path:%s" % fn_key(lf), "content path depends on extra inputs %s" % sorted(params), loc=lf.body.loc(),
                          config=cfg, rule="b-key-opaque")
    for p in R.hash_fns:
        lf = prog.fns[p]
        t = w.sym.of_place(lf.body, 0, ())
        # the digest input is exactly the parameter (identity): no case folding / trimming / normalisation
        # (one digest call may occur in several places of the term, under different projections)
        ins = sorted({(st[0], st[1], st[2]) for st in walk(t) if st[0] == "call" and DIGEST_INPUT.search(st[1])}, key=repr)
        ok = len(ins) == 1 and len(ins[0][2]) == 1 and ins[0][2][0][0] == "param" and ins[0][2][0][1] == lf.path and not ins[0][2][0][3]
        if ok:
            rep.ob(cfg, "b-hash-input", fn_key(lf), "`%s` hashes its argument unchanged" % short(p))
        else:
            rep.violation("b-hash-input:%s" % fn_key(lf), "`%s` does not hash its argument unchanged: %s" % (short(p), term_str(t)[:120]),
                          loc=lf.body.loc(), config=cfg, rule="b-key-opaque")
    # key terms of every Bucket-class effect travel by identity from a non-path parameter of an entry point
    n_key = 0
    for e in w.inv.effects:
        for role, c in e.classes.items():
            cur = c
            while cur[0] in ("Handle", "Parent"):
                cur = cur[1]
            if cur[0] != "Bucket":
                continue
            n_key += 1
            kt = cur[2]
            kc = w.inv.classify(kt)
            lf = effect_fn(w, e)
            for x in fw.x.expand(kc):
                lx = leaf(x)
                if lx[0] == "Entry" and shape(x) == "Entry" and fw.entry_role(lx) == "nonpath":
                    continue
                if lx[0] == "Dead":
                    continue
                rep.violation("b-key-flow:%s" % fn_key(lf),
                              "`%s` addresses an index bucket with a key that is not the caller's key unchanged: %s" % (
                                  short(lf.path), entry_str(x)[:120]), loc=e.loc(), config=cfg, rule="b-key-identity")
                break
            else:
                rep.ob(cfg, "b-key-identity", "%s:%s" % (fn_key(lf), e.kind), "bucket of %s in `%s` is selected by the entry point's key unchanged" % (e.kind, short(lf.path)))
    rep.floor("bucket_key_uses", n_key, 5 if not is_async else 12, cfg)
    # no effect path depends on a key except through Bucket(..): a key parameter must not appear in any other path term
    for e in w.inv.effects:
        for role, t in e.terms.items():
            c = e.classes.get(role)
            cur = c
            while cur and cur[0] in ("Handle", "Parent"):
                cur = cur[1]
            if cur and cur[0] == "Bucket":
                continue
            for st in walk(t):
                if st[0] == "param":
                    lf2 = prog.fns.get(st[1])
                    if lf2 is None:
                        continue
                    ins = lf2.outer.j.get("sig_inputs", [])
                    ty = ins[st[2]] if st[2] < len(ins) else ""
                    if ty in ("&str", "std::string::String", "&std::string::String"):
                        lf = effect_fn(w, e)
                        rep.violation("b-key-in-path:%s:%s" % (fn_key(lf), e.kind),
                                      "`%s`: the %s of %s is derived from a string (key-like) parameter outside the bucket-path hash: %s" % (
                                          short(lf.path), role, e.kind, term_str(t)[:100]), loc=e.loc(), config=cfg, rule="b-key-opaque")

    # ---- (c) read-only API performs no mutation ----
    n_ro = 0
    for lf in w.public_fns():
        if not READ_ONLY.match(short(lf.path)) and not READ_ONLY.match(lf.path):
            continue
        n_ro += 1
        muts = [e for e in w.reach_effects(lf) if e.mutating]
        if muts:
            for e in muts:
                rep.violation("c-readonly:%s:%s" % (fn_key(lf), e.kind),
                              "read-only call `%s` can reach a filesystem mutation: %s in `%s`" % (
                                  short(lf.path), e.kind, short(effect_fn(w, e).path)), loc=e.loc(), config=cfg, rule="c-read-only")
        else:
            rep.ob(cfg, "c-read-only", fn_key(lf), "call-graph closure of `%s` (%d functions) contains no mutating effect" % (
                short(lf.path), len(w.reach_fns(lf))))
    rep.floor("read_only_entries", n_ro, 22 if is_async else 11, cfg)


DIGEST_INPUT = re.compile(r"(Digest>|^digest::Digest)::(update|digest|chain_update|new_with_prefix)$")


def key_leaks(w, t, lf):
    """Occurrences of the key parameter (#1) outside a HASH_KEY(...) call in the bucket-path term."""
    bad = []

    def rec(x, inside):
        if not isinstance(x, tuple) or not x:
            return
        k = x[0]
        if k == "param" and x[1] == lf.path and x[2] == 1 and not inside:
            bad.append(term_str(x))
        if k == "call":
            is_hash = (x[1] in w.roles.hash_fns and x[1] != lf.path) or bool(DIGEST_INPUT.search(x[1]))
            ins = inside or is_hash
            if is_hash and not (len(x[2]) == 1 and x[2][0] == ("param", lf.path, 1, ())):
                bad.append("hash input is %s" % term_str(x[2][0])[:60] if x[2] else "?")
            for a in x[2]:
                rec(a, ins)
            for pe in x[3]:
                if pe[0] == "[]" and len(pe) == 2:
                    rec(pe[1], inside)
        elif k == "agg":
            for _, a in x[3]:
                rec(a, inside)
        elif k == "op":
            for a in x[2]:
                rec(a, inside)
        elif k == "fmt":
            for p in x[1]:
                if p[0] == "arg":
                    rec(p[2], inside)
        elif k == "pushed":
            rec(x[1], inside)
            for a in x[2]:
                rec(a, inside)
        elif k == "alt":
            for a in x[1]:
                rec(a, inside)
    rec(t, False)
    return bad
