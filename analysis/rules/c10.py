"""C10 — listing yields exactly the live entries, once each, agreeing with lookup."""
import re

from .common import *
from .c01 import find_fns
from ..rows import enumerate_rows, rows_as_set, TooComplex
from ..symval import walk

PROP = "C10"

EMIT_ORACLE = {
    ((("integrity", "None"),), "drop"),
    ((("integrity", "Some"), ("parse", "Ok")), "emit-from-record"),
    ((("integrity", "Some"), ("parse", "Err")), "drop"),
}
PRE_ORACLE = {
    ((("integrity", "None"),), "keep"),
    ((("integrity", "Some"),), "keep-iff-parses"),
}


def run(ctx, rep):
    for cfg, w in ctx.worlds():
        check_config(cfg, w, rep)
    return rep


def listing_fns(w):
    """Public functions of the index module returning an iterator of Result<Metadata> built from a directory walk."""
    out = []
    for p, lf in w.prog.fns.items():
        so = lf.outer.j.get("sig_output", "")
        if "Iterator<Item = std::result::Result<index::Metadata" in so or ("impl" in so and "Iterator" in so and "Metadata" in so):
            if any(e.kind == "ReadDir" for e in w.own_effects(lf)):
                out.append(lf)
    return out


def check_config(cfg, w, rep):
    prog = w.prog
    R = w.roles
    ls = listing_fns(w)
    rep.floor("listing_fns", len(ls), 1, cfg)
    for lf in ls:
        check_ls(cfg, w, rep, lf)
    # (a') the public listing entry points hand out the index listing as it is: a wrapper that filters, maps or truncates
    #      the iterator lists something else than the entries a lookup finds
    ls_paths = {lf.path for lf in ls}
    n_wr = 0
    for lf in w.public_fns():
        if lf.path in ls_paths:
            continue
        calls = [(b, blk, t, g) for b, blk, t, g in prog.local_calls(lf) if g.path in ls_paths]
        if not calls:
            continue
        n_wr += 1
        key = fn_key(lf)
        rt = w.sym.of_place(lf.body, 0, ())
        ok = rt[0] == "call" and rt[1] in ls_paths and not rt[3] and len(rt[2]) == 1 and rt[2][0][0] in ("param", "call") and \
            not any(st[0] == "call" and st[1].startswith("std::iter::") for st in walk(rt))
        if ok and rt[2][0][0] == "call":
            # as_ref() / borrow of the cache parameter only
            a = rt[2][0]
            ok = a[1].endswith("::as_ref") and len(a[2]) == 1 and a[2][0][0] == "param"
        if ok:
            rep.ob(cfg, "a-wrapper", key, "`%s` returns the index listing of its cache parameter unadapted" % short(lf.path))
        else:
            rep.violation("a-wrapper:%s" % key,
                          "public listing `%s` does not return the index listing as it is (%s): entries could be dropped, changed or added "
                          "relative to what lookups find" % (short(lf.path), term_str(rt)[:140]), loc=lf.body.loc(), config=cfg, rule="a-same-stream")
    rep.floor("listing_wrappers", n_wr, 1, cfg)
    # (e) "agreeing with lookup": listing and lookups read buckets through readers that take every valid record (C06) and the
    #      lookups select the last valid record of the key (C05 b) — re-checked here, because a lookup that sees fewer records
    #      than the listing (or selects differently) disagrees with it
    from ..framework import Report
    from . import c05, c06
    sub = Report("C06")
    for p_ in R.bucket_readers:
        c06.check_reader(cfg, w, sub, prog.fns[p_])
    sub2 = Report("C05")
    for p_ in sorted(find_fns(w)):
        c05.check_find(cfg, w, sub2, prog.fns[p_])
    for tag, sb in (("e-reader", sub), ("e-lookup", sub2)):
        for (c_, rule, k, desc, ok) in sb.obligations:
            if ok:
                rep.ob(cfg, "%s/%s" % (tag, rule), k, desc)
        for k, v in sb.violations.items():
            rep.violation("%s:%s" % (tag, k), "listing and lookup could disagree — " + v.msg, loc=v.loc, config=cfg,
                          rule="%s/%s" % (tag, v.rule or ""), witness=v.witness)
    # (c) de-duplication key is the entry key only
    for rt in sorted(R.record_types):
        check_eq_hash(cfg, w, rep, rt)


def check_ls(cfg, w, rep, lf):
    prog = w.prog
    R = w.roles
    key = fn_key(lf)
    # the walk root: {cache}/index-v<N>, same versioned directory as BUCKET_PATH
    for e in w.own_effects(lf):
        if e.kind == "ReadDir":
            c = e.classes.get("path")
            if not R.bucket_path:
                rep.violation("anchor:bucket_path", "ANCHOR-MISSING: no function has the bucket-path role (the listing's walk root cannot be compared with it)",
                              config=cfg, rule="anchor-floor")
                continue
            bp = prog.fns[R.bucket_path[0]]
            bt = w.sym.of_place(bp.body, 0, ())
            root_seg = None
            for st in walk(bt):
                if st[0] == "fmt":
                    root_seg = term_str(st)
                    break
            if c and c[0] == "Join" and c[1][0] == "Param" and c[1][2] == 0 and c[2][0] == "fmt" and c[2][1] == root_seg:
                rep.ob(cfg, "a-walk-root", key, "`%s` walks {cache}/%s, the directory BUCKET_PATH writes into" % (short(lf.path), root_seg))
            else:
                rep.violation("a-root:%s" % key, "`%s` walks %s, not the index directory used by bucket_path (%s)" % (short(lf.path), class_str(c) if c else None, root_seg),
                              loc=e.loc(), config=cfg, rule="a-same-stream")
    # the per-bucket closure
    pb = None
    rcall = None
    for b in prog.fn_bodies(lf):
        for blk, t in b.calls():
            g = prog.callee_fn(t) if t.callee else None
            if g is not None and g.path in R.bucket_readers and not t.callee.path.endswith("Future::poll"):
                pb, rcall = b, (blk, t)
    if pb is None:
        rep.violation("a-reader:%s" % key, "listing `%s` does not read buckets through the validated bucket reader" % short(lf.path),
                      loc=lf.body.loc(), config=cfg, rule="a-same-stream")
        return
    rep.ob(cfg, "a-same-stream", key, "listing reads each bucket through `%s`, the reader used by lookups" % short(prog.callee_fn(rcall[1]).path))
    # reader argument: the walked entry's path
    rarg = w.inv.classify(w.sym.of_operand(pb, rcall[1].args[0]))
    if rarg[0] != "Child":
        rep.violation("a-reader-arg:%s" % key, "listing `%s` reads %s instead of the walked entry" % (short(lf.path), class_str(rarg)),
                      loc=span_str(rcall[1].span), config=cfg, rule="a-same-stream")
    for blk_, t_ in inplace_changes_of_records(w, pb, set(R.bucket_readers)):
        rep.violation("b-inplace:%s" % key,
                      "listing `%s` changes the record vector in place (`%s`) before de-duplicating: 'last record of a key wins' is decided "
                      "by file order, which this no longer is — listing and lookup would disagree" % (short(lf.path), t_.callee.path.rsplit("::", 1)[-1]),
                      loc=span_str(t_.span), config=cfg, rule="b-dedup")
    # pipeline term of the success return
    succ = [rd for rd in ret_defs(prog, pb) if rd.cls == "success"]
    pipe = None
    for rd in succ:
        t = w.sym.of_place(pb, 0, (("v", "Ok"), ("f", "0")), at=rd.blk)
        if any(st[0] == "call" and st[1] in R.bucket_readers for st in walk(t)):
            pipe = t
    if pipe is None:
        rep.violation("b-idiom:%s" % key, "UNRECOGNISED-IDIOM: `%s` does not return a pipeline over the bucket reader's records" % short(lf.path),
                      loc=pb.loc(), config=cfg, rule="b-dedup")
        return
    # the pipeline may sit in ONE private helper that is handed the reader's records: then it is judged there, with the
    # helper's records parameter standing for the reader's result
    helper = None
    if pipe[0] == "call" and pipe[1] in prog.fns and pipe[1] not in R.bucket_readers and not prog.fns[pipe[1]].outer.reachable:
        h = prog.fns[pipe[1]]
        ri = [i for i, a in enumerate(pipe[2]) if a[0] == "call" and a[1] in R.bucket_readers]
        if len(ri) == 1 and not pipe[3]:
            helper = (h, ri[0], pipe[2][ri[0]])
            pb = h.body
            pipe = w.sym.of_place(h.body, 0, ())
            for blk_, t_ in h.body.calls():
                if t_.callee is not None and t_.args and inplace_call(t_.callee.path) and \
                        w.sym.of_operand(h.body, t_.args[0]) == ("param", h.path, ri[0], ()):
                    rep.violation("b-inplace:%s" % key, "listing helper `%s` touches the record vector (`%s`) before the pipeline" % (
                        short(h.path), t_.callee.path.rsplit("::", 1)[-1]), loc=span_str(t_.span), config=cfg, rule="b-dedup")
    stages = []
    cur = pipe
    while cur[0] == "call":
        name = cur[1]
        stages.append((name, cur))
        if name in R.bucket_readers or not cur[2]:
            break
        cur = cur[2][0]
    if helper is not None:
        if cur == ("param", helper[0].path, helper[1], ()):
            stages.append((helper[2][1], helper[2]))     # the records parameter stands for the reader call made by the caller
        if stages and stages[-2:-1] and stages[-2][0].endswith("into_iter") and "HashSet" not in stages[-2][0] and "HashMap" not in stages[-2][0]:
            del stages[-2]                               # Vec::into_iter on the parameter is an identity adaptor
    names = [re.sub(r"^.*::", "", n.split(" as ")[-1]) if not n.startswith("<") else ("into_iter[%s]" % ("HashSet" if "HashSet" in n else ("HashMap" if "HashMap" in n else "Vec")) if n.endswith("into_iter") else re.sub(r"^.*::", "", n)) for n, _ in stages]
    # expected shape (outermost → innermost)
    sig = [n for n in names]
    pre = [i for i, n in enumerate(sig) if n == "filter"]
    core = [n for n in sig if n != "filter"]
    expect = ["collect", "filter_map", "collect", "rev", sig[-1]]
    # the inner collect builds a HashSet of records (identity iterator adaptors such as into_iter are folded away in terms)
    hs_collect = False
    for blk, t in pb.calls():
        if t.callee is not None and t.callee.path == "std::iter::Iterator::collect" and \
                re.match(r"^std::collections::HashSet<(%s)(, .*)?>$" % "|".join(re.escape(x) for x in R.record_types), t.j.get("dest_ty", "")):
            hs_collect = True
    if core == expect and not hs_collect:
        core = ["collect[not-a-HashSet-of-records]"]
    if core != expect or stages[-1][0] not in R.bucket_readers:
        if "rev" not in sig and hs_collect:
            rep.violation("b-oldest-wins:%s" % key,
                          "listing `%s` de-duplicates records in file order without reversing them first: the *oldest* record per key is kept (pipeline: %s)" % (
                              short(lf.path), " <- ".join(sig)), loc=pb.loc(), config=cfg, rule="b-dedup")
        else:
            rep.violation("b-idiom:%s" % key,
                          "UNRECOGNISED-IDIOM: the per-bucket pipeline of `%s` is %s; expected collect <- filter_map <- collect[HashSet<record>] <- rev <- [filter] <- reader" % (
                              short(lf.path), " <- ".join(sig)), loc=pb.loc(), config=cfg, rule="b-dedup")
        return
    # any pre-filter must sit before the reversal/de-duplication and must not drop tombstones
    ok_order = all(i > sig.index("rev") for i in pre)
    if not ok_order:
        rep.violation("b-filter-order:%s" % key, "listing `%s` filters between de-duplication and emission in an unexpected place" % short(lf.path),
                      loc=pb.loc(), config=cfg, rule="b-dedup")
    rep.ob(cfg, "b-dedup", key, "per-bucket pipeline of `%s`: reader → %sreverse → collect into HashSet (first seen = newest wins) → filter_map(emit) → collect" % (
        short(lf.path), "pre-filter → " if pre else ""))
    # closures
    for i in pre:
        cl_t = stages[i][1][2][1]
        cb = prog.by_path.get(cl_t[1]) if cl_t[0] == "agg" else None
        if cb is None:
            fnp = _fn_item(prog, pb, stages[i][1], cl_t)
            if fnp is not None:
                cb = prog.fns[fnp].body
        if cb is None:
            rep.violation("b-prefilter:%s" % key, "pre-filter of `%s` is not a closure" % short(lf.path), loc=pb.loc(), config=cfg, rule="d-tombstones-after-dedup")
            continue
        check_prefilter(cfg, w, rep, lf, cb)
    emit_t = stages[sig.index("filter_map")][1][2][1]
    cb = prog.by_path.get(emit_t[1]) if emit_t[0] == "agg" else None
    if cb is None:
        # a private function of the record type passed by name (`.filter_map(Record::into_metadata)`) is judged like a closure
        fnp = _fn_item(prog, pb, stages[sig.index("filter_map")][1], emit_t)
        if fnp is not None:
            cb = prog.fns[fnp].body
    if cb is None:
        rep.violation("d-emit:%s" % key, "emit stage of `%s` is not a closure" % short(lf.path), loc=pb.loc(), config=cfg, rule="d-emit")
    else:
        check_emit(cfg, w, rep, lf, cb)


def _fn_item(prog, pb, stage_term, t):
    """Path of the crate function that the symbolic term `t` (an argument of a pipeline stage) names, if any."""
    for x in (t[1] if len(t) > 1 else None, t[-1] if t else None):
        if isinstance(x, str) and x in prog.fns and not prog.fns[x].outer.j.get("is_async"):
            return x
    return None


def _labeler(prog, cl, rec_types):
    def label_switch(blk_, term):
        if term.discr.place is None:
            return None
        for o in prog.resolve_pl(cl, term.discr.place, IDENT):
            if o.kind == "discr":
                pl = o.info.place
                src = prog.resolve_lifted(cl, pl.local, norm_path(pl), IDENT, at=o.blk)
                if src and all(x.kind == "field" and x.info[0] in rec_types and x.info[1] == "integrity" and not x.path for x in src):
                    return ("integrity", {switch_target(term, VIDX["Some"]): "Some", switch_target(term, VIDX["None"]): "None"})
                if src and all(x.kind == "call" and x.callee is not None and (
                        x.callee.path == "core::str::<impl str>::parse" or x.callee.path == "std::result::Result::<T, E>::ok") for x in src):
                    # parse(..) matched directly, or parse(..).ok()? matched as an Option
                    if all(x.callee.path == "core::str::<impl str>::parse" for x in src):
                        return ("parse", {switch_target(term, VIDX["Ok"]): "Ok", switch_target(term, VIDX["Err"]): "Err"})
                # `x.ok()?` : Try::branch on Option
                if src and all(x.kind == "call" and x.callee is not None and x.callee.path == "std::ops::Try::branch" for x in src):
                    inner = set()
                    for x in src:
                        inner |= prog.resolve_op(x.body, x.term.args[0], OKFLOW, x.blk)
                    if inner and all(y.kind == "call" and y.callee is not None and y.callee.path == "core::str::<impl str>::parse" for y in inner):
                        return ("parse", {switch_target(term, VIDX["Continue"]): "Ok", switch_target(term, VIDX["Break"]): "Err"})
                    # `record.integrity?` : Try::branch on the record's own Option field
                    if inner and all(y.kind == "field" and y.info[0] in rec_types and y.info[1] == "integrity" and not y.path for y in inner):
                        return ("integrity", {switch_target(term, VIDX["Continue"]): "Some", switch_target(term, VIDX["Break"]): "None"})
        return ("?", {s: "?%d" % i for i, s in enumerate(prog.cfg(cl).succ[blk_.i])})
    return label_switch


def check_prefilter(cfg, w, rep, lf, cb):
    prog = w.prog
    key = fn_key(lf)
    rec = w.roles.record_types
    label = _labeler(prog, cb, rec)

    def classify_ret(blk_, kind, i, obj):
        if kind == "assign" and obj.rv.k == "use" and obj.rv.ops[0].is_const:
            return "keep" if obj.rv.ops[0].const_val is True else "drop"
        if kind == "call":
            t = obj
            if t.callee is not None and t.callee.path == "std::result::Result::<T, E>::is_ok":
                src = prog.resolve_op(cb, t.args[0], IDENT, blk_)
                if src and all(x.kind == "call" and x.callee is not None and x.callee.path == "core::str::<impl str>::parse" for x in src):
                    return "keep-iff-parses"
        return "other"
    try:
        rows = rows_as_set(enumerate_rows(prog, cb, label, classify_ret))
    except TooComplex as e:
        rep.violation("d-prefilter-idiom:%s" % key, "UNRECOGNISED-IDIOM: pre-filter of `%s` (%s)" % (short(lf.path), e), loc=cb.loc(), config=cfg, rule="d-tombstones-after-dedup")
        return
    if rows == PRE_ORACLE:
        rep.ob(cfg, "d-tombstones-after-dedup", key + ":prefilter", "the filter before de-duplication keeps every tombstone and drops only records whose integrity does not parse (as lookup does)")
    else:
        rep.violation("d-prefilter:%s" % key,
                      "listing `%s` filters records before de-duplication with rows %s: dropping tombstones (or anything lookup keeps) before "
                      "de-duplication lets removed keys resurface" % (short(lf.path), sorted(map(str, rows))[:4]), loc=cb.loc(), config=cfg,
                      rule="d-tombstones-after-dedup")


def check_emit(cfg, w, rep, lf, cb):
    prog = w.prog
    key = fn_key(lf)
    rec = w.roles.record_types
    label = _labeler(prog, cb, rec)

    def classify_ret(blk_, kind, i, obj):
        if kind == "assign" and obj.rv.k == "agg" and obj.rv.j.get("path", "").endswith("Option"):
            if obj.rv.j["variant"] == "None":
                return "drop"
            payload = w.sym.of_operand(cb, obj.rv.ops[0])
            if payload[0] == "agg" and payload[1] == "index::Metadata":
                good = True
                for nm, tm in dict(payload[3]).items():
                    if nm == "integrity":
                        if "core::str::<impl str>::parse" not in term_str(tm):
                            good = False
                    elif not (tm[0] == "field" and tm[1] in rec and tm[2] == nm):
                        good = False
                return "emit-from-record" if good else "emit-from-other"
            return "emit-other"
        if kind == "call" and obj.callee is not None and obj.callee.path == "std::ops::FromResidual::from_residual":
            return "drop"     # `?` on an Option inside a closure returning Option: yields None
        return "other"
    try:
        rows = rows_as_set(enumerate_rows(prog, cb, label, classify_ret))
    except TooComplex as e:
        rep.violation("d-emit-idiom:%s" % key, "UNRECOGNISED-IDIOM: emit closure of `%s` (%s)" % (short(lf.path), e), loc=cb.loc(), config=cfg, rule="d-emit")
        return
    if rows == EMIT_ORACLE:
        rep.ob(cfg, "d-emit", key + ":emit", "after de-duplication: tombstone → dropped; live ∧ parses → Metadata built field-by-field from the record; unparsable → dropped (never a panic)")
    else:
        rep.violation("d-emit:%s" % key, "listing `%s` emits entries with rows %s (expected: tombstone → drop; parses → emit this record; unparsable → drop)" % (
            short(lf.path), sorted(map(str, rows))[:4]), loc=cb.loc(), config=cfg, rule="d-emit")


def check_eq_hash(cfg, w, rep, rt):
    prog = w.prog
    eq = prog.fns.get("<%s as std::cmp::PartialEq>::eq" % rt)
    hs = prog.fns.get("<%s as std::hash::Hash>::hash" % rt)
    if eq is None or hs is None:
        rep.violation("c-impls:%s" % rt, "record type %s has no hand-written PartialEq/Hash pair" % rt, config=cfg, rule="c-dedup-key")
        return
    te = w.sym.of_place(eq.body, 0, ())
    fields_e = sorted({st[2] for st in walk(te) if st[0] == "field" and st[1] == rt})
    ok_e = te[0] == "call" and te[1].endswith("PartialEq>::eq") and fields_e == ["key"] and len(te[2]) == 2 and \
        all(a[0] == "field" and a[2] == "key" for a in te[2])
    hcalls = [t for b, blk, t in prog.call_sites(hs) if t.callee is not None and t.callee.path == "std::hash::Hash::hash"]
    fields_h = set()
    for t in hcalls:
        tm = w.sym.of_operand(hs.body, t.args[0])
        for st in walk(tm):
            if st[0] == "field" and st[1] == rt:
                fields_h.add(st[2])
    ok_h = len(hcalls) == 1 and fields_h == {"key"}
    if ok_e and ok_h:
        rep.ob(cfg, "c-dedup-key", rt, "PartialEq::eq and Hash::hash of %s read the field `key` and nothing else" % rt)
    else:
        rep.violation("c-dedup-key:%s" % rt,
                      "de-duplication identity of %s is not the entry key alone (eq reads %s, hash reads %s): entries of one key would be listed twice "
                      "or entries of different keys merged" % (rt, fields_e, sorted(fields_h)), loc=eq.body.loc(), config=cfg, rule="c-dedup-key")
