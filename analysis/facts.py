"""Data model over the JSON facts written by /verif/driver (one file per
feature configuration). Pure stdlib. Nothing here knows about properties."""
import json
import os


class Place:
    __slots__ = ("local", "proj", "_key", "blk")

    def __init__(self, j):
        self.local = j["l"]
        self.proj = j["p"]
        self._key = None
        self.blk = None   # block where this place occurs (set by Block)

    @property
    def is_local(self):
        return not self.proj

    def key(self):
        """Hashable access path: local + (kind,index/variant) per projection."""
        if self._key is None:
            k = [self.local]
            for e in self.proj:
                kk = e["k"]
                if kk == "field":
                    k.append(("f", e["i"]))
                elif kk == "downcast":
                    k.append(("v", e["vi"]))
                elif kk == "deref":
                    k.append(("*",))
                elif kk == "index":
                    k.append(("[]",))
                elif kk == "constindex":
                    k.append(("[c]", e["offset"], e["from_end"]))
                elif kk == "subslice":
                    k.append(("[..]", e["from"], e["to"], e["from_end"]))
                else:
                    k.append((kk,))
            self._key = tuple(k)
        return self._key

    def field_names(self):
        """Names of the Field projections, in order (None for unnamed)."""
        return [e.get("name") for e in self.proj if e["k"] == "field"]

    def fields(self):
        """Sequence of ('f', name_or_index) / ('v', variant) ignoring derefs."""
        out = []
        for e in self.proj:
            if e["k"] == "field":
                out.append(("f", e.get("name") if e.get("name") is not None else e["i"]))
            elif e["k"] == "downcast":
                out.append(("v", e.get("variant") or e["vi"]))
        return out

    def __repr__(self):
        s = "_%d" % self.local
        for e in self.proj:
            k = e["k"]
            if k == "deref":
                s = "(*%s)" % s
            elif k == "field":
                s = "%s.%s" % (s, e.get("name") if e.get("name") is not None else e["i"])
            elif k == "downcast":
                s = "(%s as %s)" % (s, e.get("variant") or e["vi"])
            elif k == "index":
                s = "%s[_%d]" % (s, e["local"])
            elif k == "constindex":
                s = "%s[%s%d]" % (s, "-" if e["from_end"] else "", e["offset"])
            elif k == "subslice":
                s = "%s[%d..%s%d]" % (s, e["from"], "-" if e["from_end"] else "", e["to"])
            else:
                s = "%s.<%s>" % (s, k)
        return s


class Operand:
    __slots__ = ("k", "place", "j", "blk")

    def __init__(self, j):
        self.k = j["k"]  # copy | move | const | runtime_checks
        self.place = Place(j["place"]) if "place" in j else None
        self.j = j
        self.blk = None

    @property
    def is_const(self):
        return self.k == "const"

    @property
    def const_val(self):
        return self.j.get("val")

    @property
    def const_str(self):
        return self.j.get("str")

    @property
    def const_bytes(self):
        b = self.j.get("bytes")
        return bytes(b) if b is not None else None

    @property
    def fn(self):
        return self.j.get("fn")

    @property
    def ty(self):
        return self.j.get("ty")

    def __repr__(self):
        if self.k in ("copy", "move"):
            return "%s %r" % (self.k, self.place)
        if self.k == "const":
            if "fn" in self.j:
                return "fn(%s)" % self.j["fn"]["path"]
            if "val" in self.j:
                return "const %r" % (self.j["val"],)
            if "str" in self.j:
                return "const %r" % (self.j["str"],)
            if "bytes" in self.j:
                return "const b%r" % (bytes(self.j["bytes"]),)
            return "const <%s>" % self.j.get("ty")
        return self.k


class Rvalue:
    __slots__ = ("k", "j", "ops", "place")

    def __init__(self, j):
        self.k = j["k"]
        self.j = j
        self.place = Place(j["place"]) if "place" in j else None
        ops = []
        if "op" in j and isinstance(j["op"], dict):
            ops.append(Operand(j["op"]))
        if self.k == "binop":
            ops = [Operand(j["a"]), Operand(j["b"])]
        elif self.k == "unop":
            ops = [Operand(j["a"])]
        elif self.k == "agg":
            ops = [Operand(o) for o in j["ops"]]
        self.ops = ops

    def __repr__(self):
        k = self.k
        if k == "use":
            return repr(self.ops[0])
        if k == "ref":
            return "&%s%r" % ("mut " if self.j["mut"] else "", self.place)
        if k == "rawptr":
            return "&raw %r" % self.place
        if k == "cast":
            return "%r as %s (%s)" % (self.ops[0], self.j["ty"], self.j["cast"])
        if k == "binop":
            return "%s(%r, %r)" % (self.j["op"], self.ops[0], self.ops[1])
        if k == "unop":
            return "%s(%r)" % (self.j["op"], self.ops[0])
        if k == "discr":
            return "discriminant(%r)" % self.place
        if k == "copyforderef":
            return "deref_copy %r" % self.place
        if k == "agg":
            a = self.j["agg"]
            if a == "adt":
                fs = self.j["fields"]
                return "%s::%s{%s}" % (
                    self.j["path"],
                    self.j["variant"],
                    ", ".join("%s: %r" % (f, o) for f, o in zip(fs, self.ops)),
                )
            if a in ("closure", "coroutine", "coroutine_closure"):
                fs = self.j.get("fields", [])
                return "%s[%s]{%s}" % (
                    a,
                    self.j["path"],
                    ", ".join("%s: %r" % (f, o) for f, o in zip(fs, self.ops)),
                )
            return "%s(%s)" % (a, ", ".join(repr(o) for o in self.ops))
        if k == "repeat":
            return "[%r; %s]" % (self.ops[0], self.j["n"])
        return "<%s>" % k


class Stmt:
    __slots__ = ("k", "place", "rv", "span", "j")

    def __init__(self, j):
        self.k = j["k"]
        self.j = j
        self.place = Place(j["place"]) if "place" in j else None
        self.rv = Rvalue(j["rv"]) if "rv" in j else None
        self.span = j.get("span")

    def __repr__(self):
        if self.k == "assign":
            return "%r = %r" % (self.place, self.rv)
        if self.k == "setdiscr":
            return "discriminant(%r) = %d" % (self.place, self.j["vi"])
        if self.k == "storagedead":
            return "StorageDead(_%d)" % self.j["l"]
        return self.k


class Callee:
    """Resolved view of a call's function operand."""

    __slots__ = ("path", "crate", "args", "local", "name", "trait", "self_ty", "self_head",
                 "impl_self", "resolved", "j")

    def __init__(self, fnj):
        self.j = fnj
        self.path = fnj["path"]
        self.crate = fnj["crate"]
        self.args = fnj.get("args", [])
        self.local = fnj.get("local", False)
        self.name = fnj.get("name")
        self.trait = fnj.get("trait")
        self.self_ty = fnj.get("self_ty")
        self.self_head = fnj.get("self_head")
        self.impl_self = fnj.get("impl_self")
        r = fnj.get("resolved")
        self.resolved = r if isinstance(r, dict) else None

    @property
    def rpath(self):
        """Resolved instance path if resolution succeeded, else the declared path."""
        return self.resolved["path"] if self.resolved else self.path

    @property
    def rcrate(self):
        return self.resolved["crate"] if self.resolved else self.crate

    @property
    def rlocal(self):
        return self.resolved["local"] if self.resolved else self.local

    def __repr__(self):
        if self.resolved and self.resolved["path"] != self.path:
            return "%s => %s" % (self.path, self.resolved["path"])
        return self.path


class Term:
    __slots__ = ("k", "j", "callee", "args", "dest", "target", "unwind", "func", "span", "discr",
                 "targets", "otherwise", "place", "site")

    def __init__(self, j, span):
        self.k = j["k"]
        self.j = j
        self.span = span
        self.site = None
        self.callee = None
        self.args = []
        self.dest = None
        self.func = None
        self.discr = None
        self.targets = []
        self.otherwise = None
        self.place = Place(j["place"]) if "place" in j else None
        self.target = j.get("target")
        self.unwind = j.get("unwind")
        if self.k in ("call", "tailcall"):
            self.func = Operand(j["func"])
            if self.func.is_const and self.func.fn:
                self.callee = Callee(self.func.fn)
            self.args = [Operand(a) for a in j["args"]]
            if "dest" in j:
                self.dest = Place(j["dest"])
        elif self.k == "switch":
            self.discr = Operand(j["discr"])
            self.targets = [(int(v) if not isinstance(v, int) else v, b) for v, b in j["targets"]]
            self.otherwise = j["otherwise"]
        elif self.k == "assert":
            self.discr = Operand(j["cond"])
        elif self.k == "yield":
            self.discr = Operand(j["value"])
            self.dest = Place(j["resume_arg"])
            self.target = j["resume"]

    def successors(self, real_only=True):
        k = self.k
        out = []
        if k == "goto":
            out = [self.target]
        elif k == "switch":
            out = [b for _, b in self.targets] + [self.otherwise]
        elif k in ("drop", "call", "assert", "falseunwind"):
            if self.target is not None:
                out = [self.target]
            if not real_only and self.unwind is not None:
                out.append(self.unwind)
        elif k == "falseedge":
            out = [self.target]
            if not real_only:
                out.append(self.j["imaginary"])
        elif k == "yield":
            out = [self.target]
            if not real_only and self.j.get("drop") is not None:
                out.append(self.j["drop"])
        return out

    def __repr__(self):
        k = self.k
        if k == "call":
            f = repr(self.callee) if self.callee else repr(self.func)
            return "%r = %s(%s) -> %s" % (self.dest, f, ", ".join(map(repr, self.args)), self.target)
        if k == "switch":
            return "switch(%r: %s) %s else %s" % (self.discr, self.j["discr_ty"], self.targets,
                                                   self.otherwise)
        if k == "assert":
            return "assert(%r == %s, %s) -> %s" % (self.discr, self.j["expected"], self.j["msg"],
                                                   self.target)
        if k == "drop":
            return "drop(%r) -> %s" % (self.place, self.target)
        if k == "yield":
            return "%r = yield(%r) -> %s" % (self.dest, self.discr, self.target)
        if k in ("goto", "falseedge", "falseunwind"):
            return "%s -> %s" % (k, self.target)
        return k


class Block:
    __slots__ = ("i", "cleanup", "stmts", "term")

    def __init__(self, j):
        self.i = j["i"]
        self.cleanup = j["cleanup"]
        self.stmts = [Stmt(s) for s in j["stmts"]]
        self.term = Term(j["term"], j.get("tspan"))
        # every operand / place remembers the block it occurs in (use site for reachability-aware flow)
        i = self.i
        for s in self.stmts:
            if s.place is not None:
                s.place.blk = i
            if s.rv is not None:
                if s.rv.place is not None:
                    s.rv.place.blk = i
                for o in s.rv.ops:
                    o.blk = i
                    if o.place is not None:
                        o.place.blk = i
        t = self.term
        for pl in (t.place, t.dest):
            if pl is not None:
                pl.blk = i
        for o in list(t.args) + [x for x in (t.func, t.discr) if x is not None]:
            o.blk = i
            if o.place is not None:
                o.place.blk = i


class Body:
    def __init__(self, j, facts):
        self.j = j
        self.facts = facts
        self.path = j["path"]
        self.def_kind = j["def_kind"]
        self.parent = j.get("parent")
        self.coroutine = j.get("coroutine")
        self.arg_count = j["arg_count"]
        self.span = j["span"]
        self.name = j.get("name")
        self.locals = j["locals"]
        self.debug = j["debug"]
        self.blocks = [Block(b) for b in j["blocks"]]
        self.reachable = j.get("reachable", False)
        self.vis = j.get("vis")
        self.is_async = j.get("is_async", False)
        self.impl_trait = j.get("impl_trait")
        self.impl_self = j.get("impl_self")
        self.captures = j.get("captures")
        self._names = None

    @property
    def file(self):
        return self.span.get("file")

    @property
    def line(self):
        return self.span.get("line")

    def loc(self):
        return "%s:%s" % (self.span.get("file"), self.span.get("line"))

    def local_ty(self, l):
        return self.locals[l]["ty"]

    def local_head(self, l):
        return self.locals[l]["head"]

    def var_names(self):
        """name -> list of Place (debuginfo)."""
        if self._names is None:
            d = {}
            for e in self.debug:
                if "place" in e:
                    d.setdefault(e["name"], []).append(Place(e["place"]))
            self._names = d
        return self._names

    def name_of_place(self, place):
        """Best-effort user-level name of a place (for reports only)."""
        k = place.key()
        for e in self.debug:
            if "place" in e and Place(e["place"]).key() == k:
                return e["name"]
        return None

    def calls(self):
        for b in self.blocks:
            if b.cleanup:
                continue
            if b.term.k == "call":
                yield b, b.term

    def pp(self):
        out = ["fn %s  [%s] %s" % (self.path, self.def_kind, self.loc())]
        for e in self.debug:
            if "place" in e:
                out.append("  debug %s => %r" % (e["name"], Place(e["place"])))
        for l in self.locals:
            out.append("  let _%d: %s" % (l["i"], l["ty"]))
        for b in self.blocks:
            out.append(" bb%d%s:" % (b.i, " (cleanup)" if b.cleanup else ""))
            for s in b.stmts:
                if s.k == "storagedead":
                    continue
                out.append("    %r" % s)
            out.append("    %r" % b.term)
        return "\n".join(out)


class Facts:
    def __init__(self, path):
        if isinstance(path, dict):
            j = path
        else:
            with open(path) as f:
                j = json.load(f)
        self.j = j
        self.config = j["config"]
        self.nonce = j["nonce"]
        self.crate = j["crate"]
        self.items = j["items"]
        self.bodies = [Body(b, self) for b in j["bodies"]]
        self.by_path = {}
        for b in self.bodies:
            self.by_path[b.path] = b

    def body(self, path):
        return self.by_path.get(path)

    def children(self, path):
        return [b for b in self.bodies if b.parent == path]


def span_str(sp):
    if not sp:
        return "?"
    if sp.get("exp") and "cs_file" in sp:
        return "%s:%s" % (sp.get("cs_file"), sp.get("cs_line"))
    return "%s:%s" % (sp.get("file"), sp.get("line"))
