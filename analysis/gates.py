"""A2: gate edges and must-pass-through; classification of return values."""
import re

from .core import IDENT, OKFLOW, DEPEND, Origin, norm_path, callee_matches
from .facts import span_str

# variant indices used by rustc for the std enums we gate on
VIDX = {
    "Continue": 0, "Break": 1, "Ok": 0, "Err": 1, "None": 0, "Some": 1, "Ready": 0, "Pending": 1,
}


class Gate:
    def __init__(self, body, edge, what, site_blk, other_edges=()):
        self.body = body
        self.edge = edge            # (from_blk, to_blk): the *passing* edge
        self.what = what
        self.site_blk = site_blk    # block of the gating call
        self.other_edges = list(other_edges)  # failing edges

    def __repr__(self):
        return "Gate(%s bb%d->bb%d %s)" % (self.body.path, self.edge[0], self.edge[1], self.what)


def switches_on_discr(prog, body, local, path=()):
    """Switch terminators whose operand is discriminant(place) for place == (local,path)
    (after identity resolution of the operand)."""
    idx = prog.idx(body)
    out = []
    for b in body.blocks:
        if b.cleanup or b.i not in idx.cfg.live():
            continue
        t = b.term
        if t.k != "switch" or t.discr.place is None:
            continue
        for o in prog.resolve_pl(body, t.discr.place, IDENT):
            if o.kind == "discr" and o.body is body:
                pl = o.info.place
                if pl.local == local and norm_path(pl) == tuple(path):
                    out.append((b, t))
                else:
                    # discriminant of an alias of the place
                    for (l, p) in idx.aliases(pl):
                        if l == local and p == tuple(path):
                            out.append((b, t))
                            break
    return out


def switch_target(term, value):
    for v, bb in term.targets:
        if v == value:
            return bb
    return term.otherwise


def switch_other_targets(term, value):
    out = []
    for v, bb in term.targets:
        if v != value:
            out.append(bb)
    if all(v != value for v, _ in term.targets):
        return [bb for v, bb in term.targets]
    if term.otherwise is not None:
        out.append(term.otherwise)
    return out


def _is_unreachable(body, bb):
    return body.blocks[bb].term.k == "unreachable"


def try_branch_sites(body, live):
    for b, t in body.calls():
        if b.i in live and t.callee and t.callee.path == "std::ops::Try::branch":
            yield b, t


def try_gates(prog, body, pred, level=OKFLOW):
    """Gates of the form `c(..)?` where every OKFLOW leaf of the Try::branch argument
    satisfies pred(origin). The passing edge is the Continue arm."""
    idx = prog.idx(body)
    gates = []
    for b, t in try_branch_sites(body, idx.cfg.live()):
        leaves = prog.resolve_op(body, t.args[0], level, b.i)
        if not leaves:
            continue
        good = [o for o in leaves if pred(o)]
        if len(good) != len(leaves):
            continue
        if t.dest is None:
            continue
        for sb, st in switches_on_discr(prog, body, t.dest.local, norm_path(t.dest)):
            cont = switch_target(st, VIDX["Continue"])
            others = [(sb.i, x) for x in switch_other_targets(st, VIDX["Continue"])
                      if not _is_unreachable(body, x)]
            gates.append(Gate(body, (sb.i, cont), "try(%s)" % ", ".join(sorted(repr(o) for o in good)),
                              b.i, others))
    return gates


def match_gates(prog, body, pred, variant, level=OKFLOW):
    """Gates where a value whose leaves all satisfy pred is switched on directly and the
    passing edge is `variant`."""
    idx = prog.idx(body)
    gates = []
    for b in body.blocks:
        if b.cleanup or b.i not in idx.cfg.live():
            continue
        t = b.term
        if t.k != "switch" or t.discr.place is None:
            continue
        for o in prog.resolve_pl(body, t.discr.place, IDENT):
            if o.kind != "discr":
                continue
            pl = o.info.place
            # the switched value must be of the variant's own type: a `?` on `opt.ok_or_else(..)` switches on a ControlFlow whose
            # OKFLOW leaves are those of `opt`, but its arms are Continue / Break, not Some / None
            if not pl.proj:
                ty = body.local_ty(pl.local) or ""
                fam = {"Some": "Option<", "None": "Option<", "Ok": "Result<", "Err": "Result<", "Continue": "ControlFlow<", "Break": "ControlFlow<",
                       "Ready": "Poll<", "Pending": "Poll<"}.get(variant)
                head = ty.lstrip("&").replace("mut ", "").strip()
                if fam and head and head.startswith(("std::option::Option<", "std::result::Result<", "std::ops::ControlFlow<", "std::task::Poll<")) \
                        and not head.split("<", 1)[0].endswith(fam[:-1]):
                    continue
            leaves = prog.resolve_lifted(body, pl.local, norm_path(pl), level)
            if leaves and all(pred(x) for x in leaves):
                tgt = switch_target(t, VIDX[variant])
                others = [(b.i, x) for x in switch_other_targets(t, VIDX[variant])
                          if not _is_unreachable(body, x)]
                gates.append(Gate(body, (b.i, tgt), "match(%s is %s)" % (
                    ", ".join(sorted(repr(x) for x in leaves)), variant), o.blk, others))
    return gates


def bool_gates(prog, body, pred, polarity):
    """Gates `if c(..)` / `if !c(..)`: a bool switch whose operand's IDENT leaves all satisfy
    pred (possibly through a `Not`). polarity=True: passing edge is where the call returned true."""
    idx = prog.idx(body)
    gates = []
    for b in body.blocks:
        if b.cleanup or b.i not in idx.cfg.live():
            continue
        t = b.term
        if t.k != "switch" or t.discr.place is None or t.j.get("discr_ty") != "bool":
            continue
        leaves = prog.resolve_pl(body, t.discr.place, IDENT)
        neg = False
        # peel Not
        cur = leaves
        if len(cur) == 1:
            o = next(iter(cur))
            if o.kind == "unop" and o.info.j["op"] == "Not":
                neg = True
                cur = prog.resolve_op(body, o.info.ops[0], IDENT, o.blk)
        if cur and all(pred(x) for x in cur):
            want = polarity ^ neg
            tgt = switch_target(t, 1 if want else 0)
            others = [(b.i, x) for x in switch_other_targets(t, 1 if want else 0)]
            gates.append(Gate(body, (b.i, tgt), "bool(%s)==%s" % (
                ", ".join(sorted(repr(x) for x in cur)), polarity), b.i, others))
    return gates


# ----------------------------------------------------------------- returns

class RetDef:
    def __init__(self, body, blk, cls, detail, origin=None):
        self.body = body
        self.blk = blk
        self.cls = cls        # success | failure | neutral | delegated | unknown
        self.detail = detail
        self.origin = origin  # for delegated: the call Origin

    def __repr__(self):
        return "Ret(bb%d %s %s)" % (self.blk, self.cls, self.detail)


def _classify_origin(prog, o, depth=0):
    """Classify a leaf origin that flows (IDENT) into the return place."""
    if o.kind == "agg":
        rv = o.info
        if rv.j["agg"] == "adt":
            p, v = rv.j["path"], rv.j["variant"]
            if p.endswith("::Result"):
                return ("success" if v == "Ok" else "failure", "%s::%s" % (p, v), None)
            if p.endswith("::Poll"):
                if v == "Pending":
                    return ("neutral", "Poll::Pending", None)
                # Ready(x): classify x
                sub = prog.resolve_op(o.body, rv.ops[0], IDENT, o.blk)
                worst = None
                for s in sub:
                    c = _classify_origin(prog, s, depth + 1)
                    worst = _worse(worst, c)
                return worst or ("unknown", "Poll::Ready(?)", None)
            if p.endswith("::Option"):
                return ("success" if v == "Some" else "failure", "Option::%s" % v, None)
        return ("success", "aggregate %s" % rv.j.get("path", rv.j["agg"]), None)
    if o.kind == "call":
        c = o.callee
        if c is not None and c.path == "std::ops::FromResidual::from_residual":
            return ("failure", "from_residual", None)
        # an Ok/Err-preserving combinator (with_context, map_err, ...) applied to a value that is an error on every path:
        # `return Err(e).with_context(..)` is a failure return, not a delegated one
        if c is not None and depth < 3 and o.term is not None and o.term.args and re.search(
                r"(IoErrorExt::with_context|Result::<T, E>::(map_err|map|or_else|and_then|inspect_err)|std::convert::Into::into|std::convert::From::from)$", c.path):
            sub = prog.resolve_op(o.body, o.term.args[0], OKFLOW, o.blk)
            if sub and all(x is not o for x in sub):
                cl = [_classify_origin(prog, x, depth + 1) for x in sub if not (x.kind == "call" and x.term is o.term)]
                if cl and all(c_[0] == "failure" for c_ in cl):
                    return ("failure", "Err through %s" % c.path.rsplit("::", 1)[-1], None)
        return ("delegated", repr(o), o)
    if o.kind == "const":
        return ("success", "const", None)
    if o.kind == "param":
        return ("success", "param", None)
    return ("unknown", o.kind, None)


_ORDER = {"neutral": 0, "failure": 1, "delegated": 2, "unknown": 3, "success": 4}


def _worse(a, b):
    if a is None:
        return b
    if b is None:
        return a
    return a if _ORDER[a[0]] >= _ORDER[b[0]] else b


def ret_defs(prog, body):
    """Every definition of the return place `_0`, classified."""
    idx = prog.idx(body)
    out = []
    # the return place, and the temporaries that are only ever moved into it (what a looked-through helper's `return x` leaves
    # behind: `_r = x; ... ; _0 = move _r` in one shared block — or, for a looked-through `helper(..).await`,
    # `p = Poll::Ready(move _r); ...; _t = move (p as Ready).0; _0 = move _t`): the definitions of such a temporary are the
    # return points. Plain moves are followed only when they lead to such a marker, so that nothing changes for code that was
    # not looked through.
    def expand(local, depth=0):
        """Underlying return definitions of `local`, or None if no looked-through return is behind it."""
        if depth > 6:
            return None
        ds = [x for x in idx.defs.get(local, []) if not x[3]]
        if not ds:
            return None
        out_, marked = [], False
        for x in ds:
            kind, blk, i, d, obj = x
            if kind == "assign" and obj.rv.k == "use" and obj.rv.ops and obj.rv.ops[0].place is not None and obj.rv.ops[0].k == "move":
                pl = obj.rv.ops[0].place
                if not pl.proj and pl.local > body.arg_count:
                    if obj.j.get("inlined_ret"):
                        sub = expand(pl.local, depth + 1)
                        out_ += sub if sub is not None else [y for y in idx.defs.get(pl.local, []) if not y[3]]
                        marked = True
                        continue
                    sub = expand(pl.local, depth + 1)
                    if sub is not None:
                        out_ += sub
                        marked = True
                        continue
                elif len(pl.proj) == 2 and pl.proj[0].get("k") == "downcast" and pl.proj[0].get("variant") == "Ready":
                    pdefs = [y for y in idx.defs.get(pl.local, []) if not y[3]]
                    if pdefs and all(y[0] == "assign" and y[4].j.get("inlined_ret") and y[4].rv.k == "agg" and y[4].rv.ops and
                                     y[4].rv.ops[0].place is not None and not y[4].rv.ops[0].place.proj for y in pdefs):
                        for y in pdefs:
                            R_ = y[4].rv.ops[0].place.local
                            sub = expand(R_, depth + 1)
                            out_ += sub if sub is not None else [z for z in idx.defs.get(R_, []) if not z[3]]
                        marked = True
                        continue
            out_.append(x)
        return out_ if marked else None
    defs = expand(0)
    if defs is None:
        defs = [x for x in idx.defs.get(0, []) if not x[3]]
    for kind, blk, i, d, obj in defs:
        if kind == "assign":
            rv = obj.rv
            if rv.k == "agg":
                o = Origin("agg", body, blk, i, (), rv)
                cls = _classify_origin(prog, o)
                out.append(RetDef(body, blk, cls[0], cls[1], cls[2]))
            elif rv.k == "use":
                leaves = prog.resolve_op(body, rv.ops[0], IDENT, blk)
                per = [_classify_origin(prog, x) for x in leaves]
                # a delegated return may have several leaves; report each
                for c in per:
                    out.append(RetDef(body, blk, c[0], c[1], c[2]))
            else:
                out.append(RetDef(body, blk, "unknown", rv.k))
        elif kind == "call":
            o = Origin("call", body, blk, None, (), None)
            cls = _classify_origin(prog, o)
            out.append(RetDef(body, blk, cls[0], cls[1], cls[2]))
    return out


def unreachable_without(prog, body, gates, targets):
    """Return the subset of target blocks reachable from entry in CFG minus gate edges,
    each with a witness path."""
    cfg = prog.cfg(body)
    cut = {g.edge for g in gates}
    reach = cfg.reachable(0, cut_edges=cut)
    bad = []
    for t in targets:
        if t in reach:
            bad.append((t, cfg.path_to(t, 0, cut_edges=cut)))
    return bad


def blk_loc(body, blk):
    b = body.blocks[blk]
    sp = b.term.span
    for s in b.stmts:
        if s.span:
            sp = s.span
            break
    return span_str(sp)


def witness_str(body, path):
    if not path:
        return ""
    pts = []
    last = None
    for b in path:
        l = blk_loc(body, b)
        if l != last:
            pts.append(l)
            last = l
    return " -> ".join(pts)
