"""Per-configuration analysis bundle: program, roles, effect inventory, call
graph closure, public entry points."""
import re

from .core import Program, IDENT, OKFLOW, DEPEND, norm_path, Origin, SPAWN_BLOCKING
from .roles import Roles
from .effects import Inventory, norm_callee
from .symval import Sym

# provided trait methods that dispatch to a required method of the receiver's impl
PROVIDED = [
    (re.compile(r"^std::io::Write::(write_all|write_fmt|write_all_vectored)$"), ["write"]),
    (re.compile(r"^std::io::Read::(read_exact|read_to_end|read_to_string|bytes)$"), ["read"]),
    (re.compile(r"^(futures|tokio::io)::AsyncWriteExt::(write|write_all)$"), ["poll_write"]),
    (re.compile(r"^(futures|tokio::io)::AsyncWriteExt::flush$"), ["poll_flush"]),
    (re.compile(r"^(futures|tokio::io)::AsyncWriteExt::(close|shutdown)$"), ["poll_close", "poll_shutdown"]),
    (re.compile(r"^(futures|tokio::io)::AsyncReadExt::(read|read_exact|read_to_end|read_to_string)$"), ["poll_read"]),
]


def strip_refs(ty):
    t = ty or ""
    while True:
        t2 = re.sub(r"^(&mut |&|\*mut |\*const )", "", t)
        m = re.match(r"^std::pin::Pin<(.*)>$", t2)
        if m:
            t2 = m.group(1)
        if t2 == t:
            return t
        t = t2


class World:
    def __init__(self, prog):
        self.prog = prog
        self.config = prog.config
        self.roles = Roles(prog)
        self.sym = self.roles.sym
        self.inv = Inventory(prog, self.roles)
        self._callees = {}
        self._trans = {}
        self.impl_methods = {}     # (self type, method name) -> LogicalFn
        for lf in prog.fns.values():
            o = lf.outer
            if o.impl_self and o.name:
                self.impl_methods.setdefault((o.impl_self, o.name), lf)

    # -- entry points ------------------------------------------------------
    def public_fns(self):
        return [lf for lf in self.prog.fns.values() if lf.outer.reachable]

    def entry_name(self, lf):
        return lf.path

    # -- call graph --------------------------------------------------------
    def callees(self, lf):
        r = self._callees.get(lf.path)
        if r is not None:
            return r
        prog = self.prog
        out = {}
        for b, blk, t in prog.call_sites(lf):
            c = t.callee
            if c is None:
                continue
            g = prog.callee_fn(t)
            if g is not None and g is not lf:
                out[g.path] = g
            # provided methods dispatching to the crate's impl
            for rx, names in PROVIDED:
                if rx.search(c.path):
                    st = strip_refs(c.self_ty or "")
                    for nm in names:
                        h = self.impl_methods.get((st, nm))
                        if h is not None:
                            out[h.path] = h
            # function items passed as arguments
            for a in t.args:
                if a.is_const and a.fn:
                    h = prog.fns.get(a.fn["path"])
                    if h is not None:
                        out[h.path] = h
        r = list(out.values())
        self._callees[lf.path] = r
        return r

    def reach_fns(self, lf):
        r = self._trans.get(lf.path)
        if r is not None:
            return r
        seen = {lf.path: lf}
        st = [lf]
        while st:
            f = st.pop()
            for g in self.callees(f):
                if g.path not in seen:
                    seen[g.path] = g
                    st.append(g)
        r = list(seen.values())
        self._trans[lf.path] = r
        return r

    def own_effects(self, lf):
        out = []
        for b in self.prog.fn_bodies(lf):
            out.extend(self.inv.by_body.get(b.path, []))
        return out

    def reach_effects(self, lf):
        out = []
        for f in self.reach_fns(lf):
            out.extend(self.own_effects(f))
        return out

    def fn_of_body(self, body):
        return self.prog.owner_fn(body)

    # -- misc helpers --------------------------------------------------------
    def adt(self, path):
        for a in self.prog.facts.items["adts"]:
            if a["path"] == path:
                return a
        return None

    def adt_fields(self, path):
        a = self.adt(path)
        if not a:
            return []
        out = []
        for v in a["variants"]:
            for f in v["fields"]:
                out.append((v["name"], f["name"], f["ty"]))
        return out

    def path_like_params(self, lf):
        """Indices of parameters that are path-like (generic P: AsRef<Path>, &Path, PathBuf)."""
        o = lf.outer
        ins = o.j.get("sig_inputs", [])
        out = []
        for i, t in enumerate(ins):
            if re.search(r"std::path::(Path|PathBuf)\b", t):
                out.append(i)
            elif re.fullmatch(r"[A-Z]\w*", t):
                # generic parameter: path-like if bounded by AsRef<Path> (or used through it)
                bounds = o.j.get("bounds", [])
                if any(re.match(r"^%s: std::convert::AsRef<std::path::Path>" % re.escape(t), b) for b in bounds) \
                        or self._generic_is_path(lf, i):
                    out.append(i)
        return out

    def _generic_is_path(self, lf, i):
        prog = self.prog
        for b, blk, t in prog.call_sites(lf):
            c = t.callee
            if c is None or c.path != "std::convert::AsRef::as_ref":
                continue
            if len(c.args) >= 2 and "std::path::Path" in c.args[1]:
                for o in prog.resolve_op(b, t.args[0], IDENT):
                    pi = prog.param_index(o)
                    if pi and pi[0] is lf and pi[1] == i:
                        return True
        return False
