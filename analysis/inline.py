"""Look-through of helper functions introduced after the pinned tree: MIR-level inlining on the extracted facts (JSON).

The rules of this checker are written against the shape of the functions that exist on the pinned tree: "in every commit the
insert call is dominated by ...", "the reader's loop ...". A maintainer who extracts part of such a function into a new
private helper (`settle()`, `ensure_dir()`, `verify()`, `parse_entry_line()`) changes no behaviour, and no rule should notice.
Instead of teaching every rule to follow helpers, the facts are normalised before any analysis: a call to a crate function
that

  * is not in the committed baseline of function paths of the pinned tree (analysis/baseline_fns.json) — i.e. is new,
  * is a plain synchronous fn / method (not a closure, not async, not a trait-impl method),
  * is not part of the public API (`reachable` false),
  * is not recursive and is of moderate size,

is replaced by the callee's body: its locals and blocks are appended to the caller (renumbered), parameters become
assignments from the call's arguments, `return` becomes an assignment to the call's destination followed by a jump to the
call's target. Helpers calling helpers are inlined bottom-up. Closures defined in a helper are cloned for every site the helper
is inlined at (path `<caller>::{inl#k}::{closure#n}`, parent = the caller), so that a closure's captures resolve to the values
of that site. A helper whose every call site was inlined is dropped from the program together with its closures. Spans are
kept, so reports still point at the helper's source lines.

This changes nothing on the pinned tree (every function is in the baseline) and it never hides code from the rules: the
inlined statements are analysed in every caller's context."""
import copy
import json
import os
import re

HERE = os.path.dirname(os.path.abspath(__file__))
BASELINE = os.path.join(HERE, "baseline_fns.json")
MAX_BLOCKS = 400
BLOCK_KEYS = ("target", "unwind", "otherwise", "imaginary", "resume", "drop")


def load_baseline():
    """path -> signature ({} when the baseline file has none)."""
    try:
        j = json.load(open(BASELINE))
        sigs = j.get("signatures") or {}
        out = {}
        for p in j["functions"]:
            v = sigs.get(p, [])
            out[p] = v if isinstance(v, list) else ([v] if v else [])     # list of the signatures seen in the feature configurations
        return out
    except Exception:
        return None


def _module(path):
    return path.rsplit("::", 1)[0] if "::" in path else ""


def _renamed(j, baseline):
    """New functions that are a function of the pinned tree under a new name: same module, same signature, and the pinned
    name no longer exists in any body of this configuration. They keep their identity (and their role) — they are not inlined."""
    present = {b["path"] for b in j["bodies"]}
    gone = {}
    for p, sigs in baseline.items():
        if p not in present:
            for sig in sigs:
                gone.setdefault((_module(p), json.dumps(sig, sort_keys=True)), []).append(p)
    out = {}
    if not gone:
        return out
    for b in j["bodies"]:
        if b.get("def_kind") in ("Fn", "AssocFn") and b["path"] not in baseline:
            sig = {"inputs": b.get("sig_inputs"), "output": b.get("sig_output"), "is_async": bool(b.get("is_async"))}
            k = (_module(b["path"]), json.dumps(sig, sort_keys=True))
            if k in gone:
                out[b["path"]] = gone[k][0]
    # a *moved* function: same name and signature, another module (the pinned one gone, exactly one candidate)
    gone_by_name = {}
    for p, sigs in baseline.items():
        if p not in present and not p.startswith("<"):
            for sig in sigs:
                gone_by_name.setdefault((p.rsplit("::", 1)[-1], json.dumps(sig, sort_keys=True)), set()).add(p)
    for b in j["bodies"]:
        if b.get("def_kind") in ("Fn", "AssocFn") and b["path"] not in baseline and b["path"] not in out and not b["path"].startswith("<"):
            sig = {"inputs": b.get("sig_inputs"), "output": b.get("sig_output"), "is_async": bool(b.get("is_async"))}
            c = gone_by_name.get((b["path"].rsplit("::", 1)[-1], json.dumps(sig, sort_keys=True)), set()) - set(out.values())
            if len(c) == 1:
                out[b["path"]] = next(iter(c))
    # a renamed *type*: every method of `mod::Old` is gone and `mod::New` has methods of the same names and — up to the
    # type's own name — the same signatures
    def norm(sig, tyname):
        return re.sub(r"\b%s\b" % re.escape(tyname), "\u00a7", json.dumps(sig, sort_keys=True))
    gone_parents = {}
    for p, sigs in baseline.items():
        if p not in present and sigs and "::" in p and not p.startswith("<"):
            gone_parents.setdefault(_module(p), {})[p.rsplit("::", 1)[1]] = sigs
    new_parents = {}
    for b in j["bodies"]:
        if b.get("def_kind") in ("Fn", "AssocFn") and b["path"] not in baseline and b["path"] not in out and "::" in b["path"] \
                and not b["path"].startswith("<"):
            sig = {"inputs": b.get("sig_inputs"), "output": b.get("sig_output"), "is_async": bool(b.get("is_async"))}
            new_parents.setdefault(_module(b["path"]), {})[b["path"].rsplit("::", 1)[1]] = sig
    for Q, fq in new_parents.items():
        for P, fp in gone_parents.items():
            if P == Q or _module(P) != _module(Q) or not set(fq) <= set(fp):
                continue
            # (P must be gone as a whole: no function of the pinned tree under P is still present)
            if any(_module(x) == P for x in present if x in baseline):
                continue
            tp, tq = P.rsplit("::", 1)[-1], Q.rsplit("::", 1)[-1]
            if all(any(norm(fq[m], tq) == norm(sg, tp) for sg in fp[m]) for m in fq):
                for m in fq:
                    out["%s::%s" % (Q, m)] = "%s::%s" % (P, m)
                _renamed.types[Q] = P
    return out


_renamed.types = {}


def _canonical_names(j, baseline):
    """Functions and types of the pinned tree that merely got a new name are given their pinned names back (in every path and
    type string of the facts), so that role tables, pairing tables and tolerated-discard tables keyed by those names keep
    applying. Reports then name such an item by its pinned name; spans point at the current source."""
    _renamed.types = {}
    ren = _renamed(j, baseline)
    if not ren:
        return j, {}
    subs = dict(_renamed.types)
    for q, p_ in ren.items():
        if _module(q) not in _renamed.types:
            subs[q] = p_
    if not subs:
        return j, {}
    txt = json.dumps(j)
    for q in sorted(subs, key=len, reverse=True):
        txt = re.sub(r"(?<![\w])%s(?![\w])" % re.escape(q), subs[q].replace("\\", "\\\\"), txt)
    return json.loads(txt), subs


def _callee_path(t):
    f = t.get("func") or {}
    fn = f.get("fn") or {}
    r = fn.get("resolved") or {}
    if r.get("local") and r.get("ik", "item") == "item":
        return r.get("path")
    if fn.get("local") and not r:
        return fn.get("path")
    return None


def _shift(x, loff, boff, in_term=False):
    """Deep copy of a facts fragment with locals shifted by loff and (inside terminators) block ids by boff."""
    if isinstance(x, dict):
        out = {}
        for k, v in x.items():
            if k == "l" and isinstance(v, int) and not isinstance(v, bool):
                out[k] = v + loff
            elif in_term and k in BLOCK_KEYS and isinstance(v, int) and not isinstance(v, bool):
                out[k] = v + boff
            elif in_term and k == "targets" and isinstance(v, list):
                out[k] = [[a, b + boff] for a, b in v]
            else:
                out[k] = _shift(v, loff, boff, in_term)
        return out
    if isinstance(x, list):
        return [_shift(v, loff, boff, in_term) for v in x]
    return x


def _rename(x, mapping):
    """Deep copy with every string value that is exactly an old closure path replaced by its clone's path."""
    if isinstance(x, dict):
        return {k: _rename(v, mapping) for k, v in x.items()}
    if isinstance(x, list):
        return [_rename(v, mapping) for v in x]
    if isinstance(x, str) and x in mapping:
        return mapping[x]
    return x


TYPE_KEYS = ("ty", "self_ty", "dest_ty", "impl_self", "sig_output")


def _generic_names(callee):
    """Names of the callee's type parameters, in declaration order as far as the recorded bounds show them (`D: Digest`)."""
    out = []
    for b in callee.get("bounds") or []:
        nm = b.split(":", 1)[0].strip()
        if re.match(r"^[A-Z]\w*$", nm) and nm not in out:
            out.append(nm)
    return out


def _type_head(ty):
    refs = 0
    while ty.startswith("&"):
        refs += 1
        ty = ty[1:].lstrip()
        if ty.startswith("mut "):
            ty = ty[4:]
    return {"refs": refs, "k": "adt", "path": ty.split("<", 1)[0]}


def _subst_types(x, mp, rx):
    """Copy of a facts fragment of a generic helper with its type parameters replaced by the call site's type arguments — in
    type-valued fields only (never in item paths, where `T` is part of std's own names)."""
    if isinstance(x, dict):
        out = {}
        for k, v in x.items():
            if k in TYPE_KEYS and isinstance(v, str):
                out[k] = rx.sub(lambda m: mp[m.group(0)], v)
            elif k in ("args", "sig_inputs") and isinstance(v, list) and all(isinstance(a, str) for a in v):
                out[k] = [rx.sub(lambda m: mp[m.group(0)], a) for a in v]
            elif k in ("self_head", "head", "sig_output_head") and isinstance(v, dict) and v.get("k") == "param" and v.get("path") in mp:
                h = _type_head(mp[v["path"]])
                h["refs"] += v.get("refs", 0)
                out[k] = h
            else:
                out[k] = _subst_types(v, mp, rx)
        return out
    if isinstance(x, list):
        return [_subst_types(v, mp, rx) for v in x]
    return x


def _descendants(j, path):
    out, frontier = [], [path]
    while frontier:
        p = frontier.pop()
        for b in j["bodies"]:
            if b.get("parent") == p and b.get("def_kind") not in ("Fn", "AssocFn"):
                out.append(b)
                frontier.append(b["path"])
    return out


def _candidates(j, baseline):
    by_path = {b["path"]: b for b in j["bodies"]}
    has_children = {}
    for b in j["bodies"]:
        if b.get("def_kind") not in ("Fn", "AssocFn"):
            has_children[b.get("parent")] = True
    cands = {}
    renamed = _renamed(j, baseline)
    for b in j["bodies"]:
        if b.get("def_kind") not in ("Fn", "AssocFn"):
            continue
        if b["path"] in renamed:
            continue
        if b["path"] in baseline or b.get("is_async") or b.get("reachable") or b.get("exported") or b.get("impl_trait"):
            continue
        if len(b["blocks"]) > MAX_BLOCKS:
            continue
        if any(blk["term"]["k"] in ("yield", "coroutinedrop") for blk in b["blocks"]):
            continue
        cands[b["path"]] = b
    # drop recursive ones (any cycle through candidates)
    graph = {}
    for p, b in cands.items():
        cs = set()
        for bb in [b] + _descendants(j, p):
            for blk in bb["blocks"]:
                if blk["term"]["k"] == "call":
                    c = _callee_path(blk["term"])
                    if c in cands:
                        cs.add(c)
        graph[p] = cs
    changed = True
    while changed:
        changed = False
        for p in list(cands):
            # reachable set
            seen, st = set(), list(graph.get(p, ()))
            while st:
                q = st.pop()
                if q in seen:
                    continue
                seen.add(q)
                st.extend(graph.get(q, ()))
            if p in seen:
                del cands[p]
                graph.pop(p, None)
                for s in graph.values():
                    s.discard(p)
                changed = True
    return cands, graph, has_children


def _inline_into(caller, cands, done, j):
    """Inline every call to a (fully processed) candidate in `caller`. Returns number of sites inlined."""
    n = 0
    i = 0
    while i < len(caller["blocks"]):
        blk = caller["blocks"][i]
        t = blk["term"]
        cp = _callee_path(t) if t["k"] == "call" else None
        if cp is None or cp not in cands or cp not in done or cp == caller["path"]:
            i += 1
            continue
        callee = cands[cp]
        if len(t.get("args", [])) != callee.get("arg_count", 0):
            i += 1
            continue
        # a generic helper: its type parameters become the call site's type arguments
        gn = _generic_names(callee)
        fnj = (t.get("func") or {}).get("fn") or {}
        targs = (fnj.get("resolved") or {}).get("args") or fnj.get("args") or []
        tmap = None
        if gn and len(gn) == len(targs) and any(a != b for a, b in zip(gn, targs)):
            tmap = dict(zip(gn, targs))
            trx = re.compile(r"\b(%s)\b" % "|".join(re.escape(n) for n in gn))
            callee = _subst_types(callee, tmap, trx)
        desc = _descendants(j, cp)
        if desc:
            k = caller.get("_inl_n", 0)
            caller["_inl_n"] = k + 1
            mapping = {d["path"]: "%s::{inl#%d}%s" % (caller["path"], k, d["path"][len(cp):]) for d in desc}
            for d in desc:
                nd = _rename(d if tmap is None else _subst_types(d, tmap, trx), mapping)
                nd["parent"] = mapping.get(d.get("parent"), caller["path"])
                nd["inlined_from"] = cp
                j["bodies"].append(nd)
            callee = _rename(callee, mapping)
        loff = len(caller["locals"])
        boff = len(caller["blocks"])
        for lc in callee["locals"]:
            nl = copy.deepcopy(lc)
            nl["i"] = lc["i"] + loff
            nl["user"] = False          # not a user variable of the caller (debug names are added below)
            nl["inlined_from"] = cp
            caller["locals"].append(nl)
        for d in callee.get("debug", []):
            nd = _shift(copy.deepcopy(d), loff, boff)
            nd.pop("arg", None)
            caller.setdefault("debug", []).append(nd)
        span = t.get("fn_span") or blk.get("tspan")
        # parameters
        for k, a in enumerate(t["args"]):
            blk["stmts"].append({"k": "assign", "place": {"l": loff + 1 + k, "p": []}, "rv": {"k": "use", "op": copy.deepcopy(a)},
                                 "span": span, "inlined_arg": cp})
        dest, target, unwind = t.get("dest"), t.get("target"), t.get("unwind")
        blk["term"] = {"k": "goto", "target": boff, "inlined_call": cp}
        for cb in callee["blocks"]:
            nb = {"i": cb["i"] + boff, "cleanup": cb.get("cleanup", False),
                  "stmts": [_shift(s, loff, boff) for s in cb["stmts"]],
                  "term": _shift(cb["term"], loff, boff, in_term=True), "inlined_from": cp}
            if "tspan" in cb:
                nb["tspan"] = cb["tspan"]
            tk = nb["term"]["k"]
            if tk == "return":
                if dest is not None:
                    nb["stmts"].append({"k": "assign", "place": copy.deepcopy(dest), "rv": {"k": "use", "op": {"k": "move", "place": {"l": loff, "p": []}}},
                                        "span": cb.get("tspan") or span, "inlined_ret": cp})
                nb["term"] = {"k": "goto", "target": target} if target is not None else {"k": "unreachable"}
            elif tk == "resume" and isinstance(unwind, int):
                nb["term"] = {"k": "goto", "target": unwind}
            caller["blocks"].append(nb)
        n += 1
        i += 1
    return n


def _relabel_locals(x, mp):
    if isinstance(x, dict):
        out = {}
        for k, v in x.items():
            if k == "l" and isinstance(v, int) and not isinstance(v, bool):
                out[k] = mp.get(v, v)
            else:
                out[k] = _relabel_locals(v, mp)
        return out
    if isinstance(x, list):
        return [_relabel_locals(v, mp) for v in x]
    return x


def _canonical_param_order(j, baseline):
    """A function of the pinned tree whose parameters were merely reordered (`bucket_path(key, cache)`): when its parameter types
    are pairwise distinct and are a permutation of a pinned signature, the pinned order is restored — parameter locals relabelled
    in its body, arguments reordered at every call site — so that rules which know a role function's parameters by position
    (cache first) keep applying. Returns (facts, {path: permutation})."""
    todo = {}
    for b in j["bodies"]:
        if b.get("def_kind") not in ("Fn", "AssocFn") or b.get("is_async") or b["path"] not in baseline or b.get("reachable"):
            continue
        cur = b.get("sig_inputs") or []
        if len(cur) < 2 or len(set(cur)) != len(cur):
            continue
        sigs = baseline[b["path"]]
        if any(sg.get("inputs") == cur for sg in sigs):
            continue
        for sg in sigs:
            pin = sg.get("inputs") or []
            if sorted(pin) == sorted(cur) and len(set(pin)) == len(pin):
                todo[b["path"]] = [cur.index(t) for t in pin]      # pinned position k takes current parameter perm[k]
                break
    if not todo:
        return j, {}
    j = copy.deepcopy(j)
    for b in j["bodies"]:
        perm = todo.get(b["path"])
        if perm is not None:
            mp = {perm[k] + 1: k + 1 for k in range(len(perm))}      # current local -> pinned local
            keep = {kk: b[kk] for kk in ("path", "parent")}
            nb = _relabel_locals({kk: v for kk, v in b.items() if kk in ("blocks", "debug")}, mp)
            b.update(nb)
            locs = list(b["locals"])
            for cur_l, pin_l in mp.items():
                nl = copy.deepcopy(locs[cur_l])
                nl["i"] = pin_l
                b["locals"][pin_l] = nl
            for kk in ("sig_inputs", "sig_input_heads"):
                if isinstance(b.get(kk), list) and len(b[kk]) == len(perm):
                    b[kk] = [b[kk][perm[k]] for k in range(len(perm))]
            b.update(keep)
        for blk in b["blocks"]:
            t = blk["term"]
            if t["k"] == "call":
                cp = _callee_path(t)
                pm = todo.get(cp)
                if pm is not None and len(t.get("args", [])) == len(pm):
                    t["args"] = [t["args"][pm[k]] for k in range(len(pm))]
                    if isinstance(t.get("arg_tys"), list) and len(t["arg_tys"]) == len(pm):
                        t["arg_tys"] = [t["arg_tys"][pm[k]] for k in range(len(pm))]
    return j, todo


def inline_facts(j, baseline=None):
    """Returns (facts dict with new helpers inlined, report dict). `j` is not modified."""
    if baseline is None:
        baseline = load_baseline()
    if baseline is None:
        return j, {"inlined": {}, "note": "no baseline: nothing inlined"}
    j, canon = _canonical_names(j, baseline)
    j, perms = _canonical_param_order(j, baseline)
    cands, graph, has_children = _candidates(j, baseline)
    if not cands:
        if any(b.get("is_async") and b.get("def_kind") in ("Fn", "AssocFn") and b["path"] not in baseline and not b.get("reachable") for b in j["bodies"]):
            j = copy.deepcopy(j)
            a = _inline_async(j, baseline)
            return j, {"inlined": {}, "async_helpers": a}
        return j, {"inlined": {}}
    j = copy.deepcopy(j)
    by_path = {b["path"]: b for b in j["bodies"]}
    cands = {p: by_path[p] for p in cands}
    # bottom-up: a candidate is processed once all candidates it calls are processed
    done, order = set(), []
    pending = dict(graph)
    while pending:
        ready = [p for p, cs in pending.items() if cs <= done]
        if not ready:
            break
        for p in sorted(ready):
            for d in _descendants(j, p):
                _inline_into(d, cands, done, j)
            _inline_into(cands[p], cands, done, j)
            done.add(p)
            order.append(p)
            pending.pop(p)
    sites = {}
    cand_owned = set()
    for p in cands:
        cand_owned.add(p)
        cand_owned.update(d["path"] for d in _descendants(j, p))
    for b in list(j["bodies"]):
        if b["path"] in cand_owned:
            continue
        k = _inline_into(b, cands, done, j)
        if k:
            sites[b["path"]] = k
    # helpers that are no longer referenced (called, or used as a fn item) from the rest of the program disappear from it,
    # together with their closures
    owned = {p: {p} | {d["path"] for d in _descendants(j, p)} for p in cands}
    owner = {q: p for p, qs in owned.items() for q in qs}

    def refs(x, out):
        if isinstance(x, dict):
            fn = x.get("fn")
            if isinstance(fn, dict):
                for q in (fn.get("path"), (fn.get("resolved") or {}).get("path")):
                    if q in cands:
                        out.add(q)
            for v in x.values():
                refs(v, out)
        elif isinstance(x, list):
            for v in x:
                refs(v, out)
    refd = {}
    for b in j["bodies"]:
        r = set()
        refs(b["blocks"], r)
        refd[b["path"]] = r
    live = set()
    frontier = set()
    for b in j["bodies"]:
        if b["path"] not in owner:
            frontier |= refd[b["path"]]
    while frontier:
        c = frontier.pop()
        if c in live:
            continue
        live.add(c)
        for q in owned[c]:
            frontier |= refd.get(q, set()) - live
    removed = [p for p in done if p not in live]
    if removed:
        rs = set(removed)
        for p in removed:
            rs.update(d["path"] for d in _descendants(j, p))
        j["bodies"] = [b for b in j["bodies"] if b["path"] not in rs]
        j["n_bodies"] = len(j["bodies"])
    a = _inline_async(j, baseline)
    return j, {"inlined": {p: sorted(q for q, n in sites.items()) for p in []}, "helpers": sorted(done), "removed": sorted(removed),
               "call_sites": sum(sites.values()), "callers": sorted(sites), "async_helpers": a}


# ---------------------------------------------------------------------------------------------------------------------
# new `async fn` helpers: `helper(args).await` in a caller coroutine

def _single_def(body, local):
    """The one statement / call terminator that defines `local` (None if there are several or none)."""
    found = []
    for blk in body["blocks"]:
        if blk.get("cleanup"):
            continue
        for st in blk["stmts"]:
            if st["k"] == "assign" and st["place"]["l"] == local and not st["place"]["p"]:
                found.append(("stmt", blk, st))
        t = blk["term"]
        if t["k"] == "call" and t.get("dest") and t["dest"]["l"] == local and not t["dest"]["p"]:
            found.append(("call", blk, t))
    return found[0] if len(found) == 1 else None


def _future_source(body, local, acands, depth=0):
    """Follows the future polled at an await site back to the call that created it: through moves, `&mut`, `Pin::new_unchecked`
    and `IntoFuture::into_future`. Returns the block of the call to a new async helper, or None."""
    if depth > 10:
        return None
    d = _single_def(body, local)
    if d is None:
        return None
    kind, blk, x = d
    if kind == "stmt":
        rv = x["rv"]
        if rv["k"] == "use" and "place" in rv.get("op", {}):
            return _future_source(body, rv["op"]["place"]["l"], acands, depth + 1)
        if rv["k"] == "ref" and "place" in rv:
            return _future_source(body, rv["place"]["l"], acands, depth + 1)
        return None
    cp = _callee_path(x)
    if cp in acands:
        return blk
    fn = ((x.get("func") or {}).get("fn") or {}).get("path", "")
    if fn in ("std::pin::Pin::<Ptr>::new_unchecked", "std::future::IntoFuture::into_future", "std::pin::Pin::<Ptr>::new") and x.get("args") \
            and "place" in x["args"][0]:
        return _future_source(body, x["args"][0]["place"]["l"], acands, depth + 1)
    return None


def _untuple_env(x, env_local):
    """The captured arguments of the inlined coroutine are now the fields of a plain tuple: positional, not named."""
    if isinstance(x, dict):
        if x.get("l") == env_local and isinstance(x.get("p"), list) and x["p"] and x["p"][0].get("k") == "field":
            x["p"][0] = dict(x["p"][0], name=None)
        for v in x.values():
            _untuple_env(v, env_local)
    elif isinstance(x, list):
        for v in x:
            _untuple_env(v, env_local)


def _inline_async(j, baseline):
    """`new_async_helper(args).await`: the poll of the helper's future is replaced by the helper's coroutine body — its captured
    arguments become a tuple built from the call's arguments, its `return` becomes `Poll::Ready(value)` at the poll's destination
    followed by a jump to the Ready arm of the await, its own awaits (yields) stay where they are. Returns the helpers inlined."""
    by_path = {b["path"]: b for b in j["bodies"]}
    acands = {}
    for b in j["bodies"]:
        if b.get("def_kind") in ("Fn", "AssocFn") and b.get("is_async") and b["path"] not in baseline and not b.get("reachable") \
                and not b.get("exported") and not b.get("impl_trait"):
            co = None
            for blk in b["blocks"]:
                for st in blk["stmts"]:
                    if st["k"] == "assign" and st["rv"].get("agg") == "coroutine":
                        co = by_path.get(st["rv"]["path"])
            if co is not None and len(co["blocks"]) <= MAX_BLOCKS and len(b["blocks"]) <= 3:
                acands[b["path"]] = (b, co)
    if not acands:
        return []
    renamed = _renamed(j, baseline)
    for p in list(acands):
        if p in renamed:
            del acands[p]
    done_any = set()
    for _round in range(3):
        changed = False
        for caller in list(j["bodies"]):
            if caller["path"] in {co["path"] for _, co in acands.values()} and False:
                continue
            i = 0
            while i < len(caller["blocks"]):
                blk = caller["blocks"][i]
                t = blk["term"]
                i += 1
                if t["k"] != "call" or blk.get("cleanup"):
                    continue
                fnp = ((t.get("func") or {}).get("fn") or {}).get("path", "")
                if not fnp.endswith("Future::poll") or not t.get("args") or "place" not in t["args"][0]:
                    continue
                src = _future_source(caller, t["args"][0]["place"]["l"], acands)
                if src is None:
                    continue
                ht = src["term"]
                hp = _callee_path(ht)
                outer, co = acands[hp]
                if co["path"] == caller["path"] or len(ht.get("args", [])) != outer.get("arg_count", 0):
                    continue
                # the Ready arm of the await
                tgt = t.get("target")
                ready = tgt
                if isinstance(tgt, int):
                    tb = caller["blocks"][tgt]
                    if tb["term"]["k"] == "switch":
                        for v, bb in tb["term"].get("targets", []):
                            if v == 0:
                                ready = bb
                loff, boff = len(caller["locals"]), len(caller["blocks"])
                desc = _descendants(j, co["path"])
                cob = co
                if desc:
                    k = caller.get("_inl_n", 0)
                    caller["_inl_n"] = k + 1
                    mapping = {d["path"]: "%s::{inl#%d}%s" % (caller["path"], k, d["path"][len(co["path"]):]) for d in desc}
                    for d in desc:
                        nd = _rename(d, mapping)
                        nd["parent"] = mapping.get(d.get("parent"), caller["path"])
                        nd["inlined_from"] = hp
                        j["bodies"].append(nd)
                    cob = _rename(co, mapping)
                for lc in cob["locals"]:
                    nl = copy.deepcopy(lc)
                    nl["i"] = lc["i"] + loff
                    nl["user"] = False
                    nl["inlined_from"] = hp
                    caller["locals"].append(nl)
                span = t.get("fn_span") or blk.get("tspan")
                # the helper's captured arguments (evaluated at the call) and the resume argument
                blk["stmts"].append({"k": "assign", "place": {"l": loff + 1, "p": []},
                                     "rv": {"k": "agg", "agg": "tuple", "ops": [copy.deepcopy(a) for a in ht["args"]]}, "span": span, "inlined_arg": hp})
                if len(t["args"]) > 1 and cob.get("arg_count", 0) >= 2:
                    blk["stmts"].append({"k": "assign", "place": {"l": loff + 2, "p": []}, "rv": {"k": "use", "op": {"k": "copy", "place": {"l": 2, "p": []}}},
                                         "span": span, "inlined_arg": hp})
                dest, unwind = t.get("dest"), t.get("unwind")
                blk["term"] = {"k": "goto", "target": boff, "inlined_call": hp}
                for cb in cob["blocks"]:
                    nb = {"i": cb["i"] + boff, "cleanup": cb.get("cleanup", False), "stmts": [_shift(s_, loff, boff) for s_ in cb["stmts"]],
                          "term": _shift(cb["term"], loff, boff, in_term=True), "inlined_from": hp}
                    _untuple_env(nb, loff + 1)
                    if "tspan" in cb:
                        nb["tspan"] = cb["tspan"]
                    tk = nb["term"]["k"]
                    if tk == "return":
                        if dest is not None:
                            nb["stmts"].append({"k": "assign", "place": copy.deepcopy(dest),
                                                "rv": {"k": "agg", "agg": "adt", "path": "std::task::Poll", "variant": "Ready", "vi": 0, "targs": [],
                                                       "fields": ["0"], "ops": [{"k": "move", "place": {"l": loff, "p": []}}]},
                                                "span": cb.get("tspan") or span, "inlined_ret": hp})
                        nb["term"] = {"k": "goto", "target": ready} if ready is not None else {"k": "unreachable"}
                    elif tk in ("resume", "coroutinedrop"):
                        nb["term"] = {"k": "goto", "target": unwind} if isinstance(unwind, int) else {"k": "unreachable"}
                    caller["blocks"].append(nb)
                # the creating call becomes a plain value (nothing of the helper runs before the first poll)
                hd = ht.get("dest")
                if hd is not None:
                    src["stmts"].append({"k": "assign", "place": copy.deepcopy(hd),
                                         "rv": {"k": "agg", "agg": "tuple", "ops": [copy.deepcopy(a) for a in ht["args"]]}, "span": ht.get("fn_span"), "inlined_arg": hp})
                src["term"] = {"k": "goto", "target": ht.get("target"), "inlined_call": hp} if ht.get("target") is not None else {"k": "unreachable"}
                done_any.add(hp)
                changed = True
        if not changed:
            break
    # helpers no longer called disappear (with their coroutine body and its closures)
    still = set()
    for b in j["bodies"]:
        for blk in b["blocks"]:
            if blk["term"]["k"] == "call":
                cp = _callee_path(blk["term"])
                if cp in acands:
                    still.add(cp)
    rs = set()
    for hp in done_any - still:
        outer, co = acands[hp]
        rs.add(hp)
        rs.add(co["path"])
        rs.update(d["path"] for d in _descendants(j, co["path"]))
    if rs:
        j["bodies"] = [b for b in j["bodies"] if b["path"] not in rs]
        j["n_bodies"] = len(j["bodies"])
    return sorted(done_any)
