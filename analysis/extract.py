"""Runs the fact extractor over /repo's working tree for a set of feature
configurations (DESIGN.md §2.2/2.3). Freshness: per-config target dir under
/verif/.cache/target, member fingerprints deleted before each run, per-run
nonce asserted in the facts file; facts cached by a content hash of the
repository's sources, manifests and the driver binary."""
import hashlib
import json
import os
import shutil
import subprocess
import sys
import time
import uuid
from concurrent.futures import ThreadPoolExecutor

VERIF = os.path.dirname(os.path.dirname(os.path.abspath(__file__)))
REPO = os.environ.get("VERIF_REPO", "/repo")
CACHE = os.path.join(VERIF, ".cache")
DRIVER_DIR = os.path.join(VERIF, "driver")
DRIVER = os.path.join(DRIVER_DIR, "target", "release", "cacache-facts")

# name -> cargo feature flags
def _cfg(rt, mmap, link):
    feats = []
    if rt == "async-std":
        feats.append("async-std")
    elif rt == "tokio":
        feats.append("tokio-runtime")
    if mmap:
        feats.append("mmap")
    if link:
        feats.append("link_to")
    name = "%s%s%s" % ({"none": "sync", "async-std": "asyncstd", "tokio": "tokio"}[rt],
                       "+mmap" if mmap else "", "+link_to" if link else "")
    flags = ["--no-default-features"]
    if feats:
        flags += ["--features", ",".join(feats)]
    return name, flags


ALL_CONFIGS = {}
for _rt in ("none", "async-std", "tokio"):
    for _m in (True, False):
        for _l in (True, False):
            _n, _f = _cfg(_rt, _m, _l)
            ALL_CONFIGS[_n] = _f

# quick tier: the tested default build, the three runtime flavours with everything on, and
# the featureless sync build (cfg(not(mmap)) stub path)
QUICK = ["asyncstd+mmap", "asyncstd+mmap+link_to", "tokio+mmap+link_to", "sync+mmap+link_to", "sync"]
THOROUGH = list(ALL_CONFIGS.keys())


def configs_for(tier):
    env = os.environ.get("VERIF_CONFIGS")
    if env:
        return [c for c in env.split(",") if c in ALL_CONFIGS]
    return QUICK if tier == "quick" else THOROUGH


def runtime_of(cfg):
    return cfg.split("+")[0]


def has_feature(cfg, feat):
    return ("+" + feat) in cfg


def sysroot():
    return subprocess.check_output(["rustc", "+nightly", "--print", "sysroot"], text=True).strip()


def build_driver(verbose=False):
    env = dict(os.environ, CARGO_NET_OFFLINE="true")
    r = subprocess.run(["cargo", "+nightly", "build", "--release", "--offline"], cwd=DRIVER_DIR, env=env,
                       capture_output=True, text=True)
    if r.returncode != 0:
        sys.stderr.write(r.stdout + r.stderr)
        raise SystemExit(2)
    if verbose:
        print("driver built:", DRIVER)


def tree_hash(repo=None):
    repo = repo or REPO
    h = hashlib.sha256()
    files = []
    for root, dirs, fs in os.walk(os.path.join(repo, "src")):
        dirs.sort()
        for f in sorted(fs):
            files.append(os.path.join(root, f))
    for f in ("Cargo.toml", "Cargo.lock"):
        p = os.path.join(repo, f)
        if os.path.exists(p):
            files.append(p)
    files.append(DRIVER)
    for p in files:
        h.update(p.encode())
        h.update(b"\0")
        try:
            with open(p, "rb") as fh:
                h.update(fh.read())
        except OSError:
            h.update(b"<missing>")
        h.update(b"\0")
    return h.hexdigest()[:24]


def _extract_one(cfg, outdir, repo):
    flags = ALL_CONFIGS[cfg]
    tbase = os.environ.get("VERIF_TARGET_BASE") or os.path.join(CACHE, "target")
    tdir = os.path.join(tbase, cfg)
    os.makedirs(tdir, exist_ok=True)
    # one extraction at a time per target directory (concurrent checks share /verif/.cache)
    import fcntl
    lockf = open(os.path.join(tbase, cfg + ".lock"), "w")
    fcntl.flock(lockf, fcntl.LOCK_EX)
    try:
        return _extract_locked(cfg, outdir, repo, flags, tdir)
    finally:
        fcntl.flock(lockf, fcntl.LOCK_UN)
        lockf.close()


def _extract_locked(cfg, outdir, repo, flags, tdir):
    # cargo's freshness cache would skip the wrapper: drop the member's fingerprints
    fpdir = os.path.join(tdir, "debug", ".fingerprint")
    if os.path.isdir(fpdir):
        for d in os.listdir(fpdir):
            if d.startswith("cacache-"):
                shutil.rmtree(os.path.join(fpdir, d), ignore_errors=True)
    out = os.path.join(outdir, cfg + ".json")
    if os.path.exists(out):
        os.remove(out)
    nonce = uuid.uuid4().hex
    env = dict(os.environ)
    env.update({
        "LD_LIBRARY_PATH": os.path.join(sysroot(), "lib") + ":" + env.get("LD_LIBRARY_PATH", ""),
        "RUSTFLAGS": "-Zmir-opt-level=0 -Awarnings",
        "RUSTC_WORKSPACE_WRAPPER": DRIVER,
        "CARGO_TARGET_DIR": tdir,
        "CARGO_NET_OFFLINE": "true",
        "CARGO_INCREMENTAL": "0",
        "VERIF_FACTS_OUT": out,
        "VERIF_FACTS_NONCE": nonce,
        "VERIF_FACTS_CONFIG": cfg,
        "VERIF_FACTS_CRATE": "cacache",
    })
    env.pop("RUSTC_WRAPPER", None)
    t0 = time.time()
    r = subprocess.run(["cargo", "+nightly", "check", "--offline", "--lib"] + flags, cwd=repo, env=env,
                       capture_output=True, text=True)
    dt = time.time() - t0
    if r.returncode != 0:
        return cfg, None, "cargo check failed for %s:\n%s" % (cfg, r.stderr[-4000:]), dt
    if not os.path.exists(out):
        return cfg, None, "extractor produced no facts for %s (wrapper skipped?)\n%s" % (cfg, r.stderr[-2000:]), dt
    # assert freshness
    with open(out) as fh:
        head = fh.read(200)
    if nonce not in head:
        return cfg, None, "stale facts for %s: nonce mismatch" % cfg, dt
    return cfg, out, None, dt


def ensure_facts(configs, repo=None, verbose=False, jobs=None):
    """Return {config: facts path}; extracts what is missing for the current tree hash.
    Exits 2 ("cannot analyse") if the crate does not build."""
    repo = repo or REPO
    if not os.path.exists(DRIVER):
        build_driver(verbose)
    th = tree_hash(repo)
    fbase = os.environ.get("VERIF_FACTS_BASE") or os.path.join(CACHE, "facts")
    outdir = os.path.join(fbase, th)
    os.makedirs(outdir, exist_ok=True)
    need = [c for c in configs if not os.path.exists(os.path.join(outdir, c + ".json.ok"))]
    res = {}
    errs = []
    if need:
        # serialise extractions that share a target directory (none do); run up to `jobs` in parallel
        jobs = jobs or min(len(need), 6)
        with ThreadPoolExecutor(max_workers=jobs) as ex:
            for cfg, out, err, dt in ex.map(lambda c: _extract_one(c, outdir, repo), need):
                if err:
                    errs.append(err)
                else:
                    open(out + ".ok", "w").write("ok")
                    if verbose:
                        print("extracted %s in %.1fs" % (cfg, dt))
    if errs:
        sys.stderr.write("\n".join(errs) + "\n")
        print("CANNOT-ANALYSE: the crate does not build in %d configuration(s)" % len(errs))
        raise SystemExit(2)
    for c in configs:
        res[c] = os.path.join(outdir, c + ".json")
    if not os.environ.get("VERIF_FACTS_BASE"):
        _gc(outdir)
    return res, th


def _gc(keep):
    """Keep the facts cache bounded: drop all but the 6 most recent tree hashes."""
    base = os.path.join(CACHE, "facts")
    try:
        ds = [os.path.join(base, d) for d in os.listdir(base)]
        ds = [d for d in ds if os.path.isdir(d) and d != keep]
        ds.sort(key=lambda d: os.path.getmtime(d), reverse=True)
        now = time.time()
        for d in ds[5:]:
            if now - os.path.getmtime(d) > 900:   # never touch a directory another run may be filling
                shutil.rmtree(d, ignore_errors=True)
    except OSError:
        pass


if __name__ == "__main__":
    tier = sys.argv[1] if len(sys.argv) > 1 else "quick"
    t0 = time.time()
    r, th = ensure_facts(configs_for(tier), verbose=True)
    print("tree", th, "configs", len(r), "in %.1fs" % (time.time() - t0))
