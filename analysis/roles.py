"""A7: role inference — internal functions are identified by what they do, not
by their names. A role that cannot be found is a fail-closed anchor error."""
import re

from .core import callee_matches
from .symval import Sym, walk


def _calls(prog, lf):
    return [(b, blk, t) for b, blk, t in prog.call_sites(lf) if t.callee is not None]


def _digest_kind(self_ty):
    s = self_ty or ""
    if "Sha1Core" in s or "sha1::Sha1" in s:
        return "sha1"
    if "OidSha256" in s or "sha2::Sha256" in s and "VarCore" not in s:
        return "sha256"
    if "OidSha224" in s:
        return "sha224"
    if "OidSha512" in s:
        return "sha512"
    if "OidSha384" in s:
        return "sha384"
    if "Md5" in s:
        return "md5"
    return "other:" + s[:60]


class Roles:
    def __init__(self, prog):
        self.prog = prog
        self.sym = Sym(prog)
        self.hash_fns = {}        # fn path -> digest kind  (digest + hex::encode)
        self.content_path = []    # fn paths
        self.bucket_path = []
        self.bucket_readers = []  # logical fn paths
        self.index_inserts = []
        self.content_closes = []  # fns calling NamedTempFile::persist (directly or in closures)
        self.linker_commits = []  # fns reaching a Symlink effect with ContentPath dst
        self.commits = []         # fns calling (a content close | linker commit) and an index insert
        self.verify_prims = ("ssri::Integrity::check", "ssri::IntegrityChecker::result")
        self.record_types = set()  # crate types deserialised by bucket readers
        self._infer()

    def _infer(self):
        prog = self.prog
        fns = prog.fns
        # hash roles
        for p, lf in fns.items():
            cs = _calls(prog, lf)
            if any(t.callee.path == "hex::encode" for _, _, t in cs):
                kinds = {_digest_kind(t.callee.self_ty) for _, _, t in cs
                         if t.callee.path in ("digest::Digest::new", "digest::Digest::finalize",
                                              "digest::Digest::digest", "digest::Digest::new_with_prefix")}
                if len(kinds) == 1:
                    self.hash_fns[p] = next(iter(kinds))
        # path roles
        for p, lf in fns.items():
            b = lf.body
            if lf.outer.j.get("sig_output") != "std::path::PathBuf":
                continue
            cs = _calls(prog, lf)
            if any(t.callee.path == "ssri::Integrity::to_hex" for _, _, t in cs):
                self.content_path.append(p)
            elif any(prog.callee_fn(t) is not None and prog.callee_fn(t).path in self.hash_fns
                     and self.hash_fns[prog.callee_fn(t).path] == "sha1" for _, _, t in cs) or \
                    any(t.callee.path.startswith("digest::Digest::") and _digest_kind(t.callee.self_ty) == "sha1" for _, _, t in cs):
                # (the digest may also be computed in place: the shape of the path is judged by C17)
                self.bucket_path.append(p)
        # bucket readers: call serde_json::from_str::<R> for a crate type R and return a collection of R
        for p, lf in fns.items():
            for _, _, t in _calls(prog, lf):
                if t.callee.path in ("serde_json::from_str", "serde_json::from_slice", "serde_json::from_reader"):
                    r = t.callee.args[-1] if t.callee.args else ""
                    for a in t.callee.args:
                        if a.startswith("index::") or a.startswith("crate::"):
                            r = a
                    if any(ad["path"] == r for ad in prog.facts.items["adts"]):
                        self.record_types.add(r)
                        if p not in self.bucket_readers:
                            self.bucket_readers.append(p)
        # index inserts: open a BUCKET_PATH for writing and write to it
        for p, lf in fns.items():
            cs = _calls(prog, lf)
            # (any way of opening for writing, any way of writing: *how* the record is emitted is judged by C04/C05/C07,
            #  the role only says which function emits it)
            opens = [t for _, _, t in cs if re.search(r"::fs::(OpenOptions::open|File::create|File::create_new|write)$", t.callee.path)]
            bp = [t for _, _, t in cs if prog.callee_fn(t) is not None and prog.callee_fn(t).path in self.bucket_path]
            wr = [t for _, _, t in cs if re.search(r"(Write|AsyncWriteExt|AsyncWrite)::(write_all|write|write_fmt|write_vectored|write_all_vectored|poll_write)$|::fs::write$", t.callee.path)]
            if not opens and bp and wr:
                # the open may sit in a private helper that is handed the bucket path
                for _, _, t in cs:
                    g = prog.callee_fn(t)
                    if g is not None and g.path not in self.bucket_path and not g.outer.reachable and any(
                            re.search(r"::fs::(OpenOptions::open|File::create|File::create_new)$", t2.callee.path)
                            for _, _, t2 in _calls(prog, g)):
                        opens = [t]
                        break
            if opens and bp and wr:
                self.index_inserts.append(p)
        # content close: persist
        for p, lf in fns.items():
            cs = _calls(prog, lf)
            if any(re.search(r"tempfile::NamedTempFile::<F>::persist(_noclobber)?$", t.callee.path) for _, _, t in cs):
                self.content_closes.append(p)
        # linker commit: a fn that calls a fn that symlinks into a content path, and is a method of a type
        sym_fns = set()
        for p, lf in fns.items():
            cs = _calls(prog, lf)
            if any(re.search(r"std::os::unix::fs::symlink$", t.callee.path) for _, _, t in cs):
                sym_fns.add(p)
        # transitive callers within two hops that also call CONTENT_PATH
        changed = True
        reach_sym = set(sym_fns)
        while changed:
            changed = False
            for p, lf in fns.items():
                if p in reach_sym:
                    continue
                for _, _, t in _calls(prog, lf):
                    c = prog.callee_fn(t)
                    if c is not None and c.path in reach_sym and not t.callee.path.endswith("Future::poll"):
                        reach_sym.add(p)
                        changed = True
                        break
        self.symlink_reach = reach_sym
        # commits: call an index insert and (a content close | something reaching symlink)
        for p, lf in fns.items():
            cs = _calls(prog, lf)
            callee_paths = {prog.callee_fn(t).path for _, _, t in cs if prog.callee_fn(t) is not None}
            if callee_paths & set(self.index_inserts) and (
                    callee_paths & set(self.content_closes) or callee_paths & reach_sym):
                self.commits.append(p)

    def is_content_path(self, rpath):
        return rpath in self.content_path

    def is_bucket_path(self, rpath):
        return rpath in self.bucket_path

    def describe(self):
        return {
            "HASH": dict(self.hash_fns),
            "CONTENT_PATH": self.content_path,
            "BUCKET_PATH": self.bucket_path,
            "BUCKET_READER": self.bucket_readers,
            "INDEX_INSERT": self.index_inserts,
            "CONTENT_CLOSE": self.content_closes,
            "COMMIT": self.commits,
            "RECORD_TYPES": sorted(self.record_types),
        }
