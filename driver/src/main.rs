// Fact extractor for the cacache static verification (see /verif/DESIGN.md §2).
//
// Invoked through RUSTC_WORKSPACE_WRAPPER by `cargo +nightly check`. For the
// crate named by VERIF_FACTS_CRATE (default "cacache") it dumps, as one JSON
// document written with one write, every `mir_built` body (source-shaped MIR:
// un-lowered coroutines, pre-borrowck), resolved callees, evaluated constants
// and item facts. It has no opinion about properties; all rules are in
// /verif/analysis.
//
// Two-phase by necessity: resolving callees / type-checking later bodies can
// steal another async fn's `mir_built`, so phase 1 clones every body before
// phase 2 asks any other query.
#![feature(rustc_private)]
#![allow(clippy::all)]

extern crate rustc_abi;
extern crate rustc_driver;
extern crate rustc_hir;
extern crate rustc_interface;
extern crate rustc_middle;
extern crate rustc_session;
extern crate rustc_span;

use rustc_driver::{Callbacks, Compilation};
use rustc_hir::def::DefKind;
use rustc_hir::def_id::{DefId, LocalDefId};
use rustc_interface::interface::Compiler;
use rustc_middle::mir::{
    AggregateKind, BasicBlock, Body, Const, ConstValue, Operand, Place, PlaceElem, Rvalue,
    StatementKind, TerminatorKind, VarDebugInfoContents,
};
use rustc_middle::ty::print::with_no_trimmed_paths;
use rustc_middle::ty::{self, Ty, TyCtxt};
use rustc_span::{ExpnKind, Span};
use std::fmt::Write as _;

// ---------------------------------------------------------------- JSON

fn esc(s: &str, out: &mut String) {
    out.push('"');
    for c in s.chars() {
        match c {
            '"' => out.push_str("\\\""),
            '\\' => out.push_str("\\\\"),
            '\n' => out.push_str("\\n"),
            '\r' => out.push_str("\\r"),
            '\t' => out.push_str("\\t"),
            c if (c as u32) < 0x20 => {
                let _ = write!(out, "\\u{:04x}", c as u32);
            }
            c => out.push(c),
        }
    }
    out.push('"');
}

#[derive(Clone)]
enum J {
    Null,
    B(bool),
    I(i128),
    S(String),
    A(Vec<J>),
    O(Vec<(&'static str, J)>),
}

impl J {
    fn s(x: impl Into<String>) -> J {
        J::S(x.into())
    }
    fn write(&self, out: &mut String) {
        match self {
            J::Null => out.push_str("null"),
            J::B(b) => out.push_str(if *b { "true" } else { "false" }),
            J::I(i) => {
                // Python ints are unbounded, so emit as-is.
                let _ = write!(out, "{}", i);
            }
            J::S(s) => esc(s, out),
            J::A(v) => {
                out.push('[');
                for (i, x) in v.iter().enumerate() {
                    if i > 0 {
                        out.push(',');
                    }
                    x.write(out);
                }
                out.push(']');
            }
            J::O(v) => {
                out.push('{');
                for (i, (k, x)) in v.iter().enumerate() {
                    if i > 0 {
                        out.push(',');
                    }
                    esc(k, out);
                    out.push(':');
                    x.write(out);
                }
                out.push('}');
            }
        }
    }
}

fn opt_s(x: Option<String>) -> J {
    match x {
        Some(s) => J::S(s),
        None => J::Null,
    }
}

// ---------------------------------------------------------------- helpers

struct Cx<'tcx> {
    tcx: TyCtxt<'tcx>,
}

impl<'tcx> Cx<'tcx> {
    fn path(&self, d: DefId) -> String {
        with_no_trimmed_paths!(self.tcx.def_path_str(d))
    }

    fn ty_s(&self, t: Ty<'tcx>) -> String {
        with_no_trimmed_paths!(format!("{}", t))
    }

    fn span_j(&self, sp: Span) -> J {
        let sm = self.tcx.sess.source_map();
        let mut v: Vec<(&'static str, J)> = Vec::new();
        let put = |sp: Span, v: &mut Vec<(&'static str, J)>, kf: &'static str, kl: &'static str, kc: &'static str| {
            if sp.is_dummy() {
                return;
            }
            let lo = sm.lookup_char_pos(sp.lo());
            let name = format!("{}", lo.file.name.prefer_local_unconditionally());
            v.push((kf, J::S(name)));
            v.push((kl, J::I(lo.line as i128)));
            v.push((kc, J::I(lo.col.0 as i128 + 1)));
        };
        put(sp, &mut v, "file", "line", "col");
        if sp.from_expansion() {
            v.push(("exp", J::B(true)));
            let cs = sp.source_callsite();
            put(cs, &mut v, "cs_file", "cs_line", "cs_col");
            let ed = sp.ctxt().outer_expn_data();
            let kind = match ed.kind {
                ExpnKind::Root => "root".to_string(),
                ExpnKind::Macro(k, name) => format!("macro:{:?}:{}", k, name),
                ExpnKind::AstPass(p) => format!("astpass:{:?}", p),
                ExpnKind::Desugaring(d) => format!("desugar:{:?}", d),
            };
            v.push(("expn", J::S(kind)));
            // outermost macro name (walk up)
            let mut cur = sp;
            let mut outer = None;
            while cur.from_expansion() {
                let ed = cur.ctxt().outer_expn_data();
                if let ExpnKind::Macro(_, name) = ed.kind {
                    outer = Some(name.to_string());
                }
                cur = ed.call_site;
            }
            if let Some(o) = outer {
                v.push(("outer_macro", J::S(o)));
            }
        }
        J::O(v)
    }

    fn generic_args_j(&self, args: ty::GenericArgsRef<'tcx>) -> J {
        J::A(args
            .iter()
            .map(|a| J::S(with_no_trimmed_paths!(format!("{}", a))))
            .collect())
    }

    /// Describe the "nominal" head of a type after peeling references / raw
    /// pointers / Box / Pin: ADT path, closure/coroutine def path, or kind.
    fn ty_head(&self, t: Ty<'tcx>) -> J {
        let mut cur = t;
        let mut depth = 0;
        loop {
            match cur.kind() {
                ty::Ref(_, inner, _) => {
                    cur = *inner;
                    depth += 1;
                }
                ty::RawPtr(inner, _) => {
                    cur = *inner;
                    depth += 1;
                }
                _ => break,
            }
        }
        let mut v: Vec<(&'static str, J)> = vec![("refs", J::I(depth))];
        match cur.kind() {
            ty::Adt(adt, args) => {
                v.push(("k", J::s("adt")));
                v.push(("path", J::S(self.path(adt.did()))));
                v.push(("args", self.generic_args_j(args)));
            }
            ty::Closure(d, _) => {
                v.push(("k", J::s("closure")));
                v.push(("path", J::S(self.path(*d))));
            }
            ty::Coroutine(d, _) => {
                v.push(("k", J::s("coroutine")));
                v.push(("path", J::S(self.path(*d))));
            }
            ty::CoroutineClosure(d, _) => {
                v.push(("k", J::s("coroutine_closure")));
                v.push(("path", J::S(self.path(*d))));
            }
            ty::FnDef(d, args) => {
                v.push(("k", J::s("fndef")));
                v.push(("path", J::S(self.path(*d))));
                v.push(("args", self.generic_args_j(args)));
            }
            ty::Alias(al) => {
                v.push(("k", J::s("alias")));
                v.push(("path", J::S(self.path(al.kind.def_id()))));
            }
            ty::Param(p) => {
                v.push(("k", J::s("param")));
                v.push(("path", J::S(p.name.to_string())));
            }
            ty::Slice(e) => {
                v.push(("k", J::s("slice")));
                v.push(("elem", J::S(self.ty_s(*e))));
            }
            ty::Array(e, _) => {
                v.push(("k", J::s("array")));
                v.push(("elem", J::S(self.ty_s(*e))));
            }
            ty::Str => v.push(("k", J::s("str"))),
            ty::Tuple(_) => v.push(("k", J::s("tuple"))),
            ty::Bool | ty::Char | ty::Int(_) | ty::Uint(_) | ty::Float(_) => {
                v.push(("k", J::s("prim")))
            }
            ty::Dynamic(..) => v.push(("k", J::s("dyn"))),
            ty::FnPtr(..) => v.push(("k", J::s("fnptr"))),
            ty::Never => v.push(("k", J::s("never"))),
            _ => v.push(("k", J::s("other"))),
        }
        J::O(v)
    }

    fn place_j(&self, body: &Body<'tcx>, p: &Place<'tcx>) -> J {
        let tcx = self.tcx;
        let mut pty = rustc_middle::mir::PlaceTy::from_ty(body.local_decls[p.local].ty);
        let mut proj: Vec<J> = Vec::new();
        for elem in p.projection.iter() {
            let j = match elem {
                PlaceElem::Deref => J::O(vec![("k", J::s("deref"))]),
                PlaceElem::Field(f, fty) => {
                    let mut name: Option<String> = None;
                    let mut owner: Option<String> = None;
                    let mut owner_local = false;
                    match pty.ty.kind() {
                        ty::Adt(adt, _) => {
                            let vi = pty.variant_index.unwrap_or(rustc_abi::FIRST_VARIANT);
                            if adt.is_enum() || adt.is_struct() || adt.is_union() {
                                if let Some(fd) = adt.variant(vi).fields.get(f) {
                                    name = Some(fd.name.to_string());
                                }
                                owner_local = adt.did().is_local();
                                owner = Some(if adt.is_enum() {
                                    format!("{}::{}", self.path(adt.did()), adt.variant(vi).name)
                                } else {
                                    self.path(adt.did())
                                });
                            }
                        }
                        ty::Closure(d, _) | ty::Coroutine(d, _) | ty::CoroutineClosure(d, _) => {
                            if let Some(ld) = d.as_local() {
                                let caps = tcx.closure_captures(ld);
                                if let Some(c) = caps.get(f.as_usize()) {
                                    name = Some(c.to_symbol().to_string());
                                }
                            }
                        }
                        _ => {}
                    }
                    J::O(vec![
                        ("k", J::s("field")),
                        ("i", J::I(f.as_usize() as i128)),
                        ("name", opt_s(name)),
                        ("ty", J::S(self.ty_s(fty))),
                        ("owner", opt_s(owner)),
                        ("owner_local", J::B(owner_local)),
                    ])
                }
                PlaceElem::Index(l) => {
                    J::O(vec![("k", J::s("index")), ("local", J::I(l.as_usize() as i128))])
                }
                PlaceElem::ConstantIndex { offset, min_length, from_end } => J::O(vec![
                    ("k", J::s("constindex")),
                    ("offset", J::I(offset as i128)),
                    ("min_length", J::I(min_length as i128)),
                    ("from_end", J::B(from_end)),
                ]),
                PlaceElem::Subslice { from, to, from_end } => J::O(vec![
                    ("k", J::s("subslice")),
                    ("from", J::I(from as i128)),
                    ("to", J::I(to as i128)),
                    ("from_end", J::B(from_end)),
                ]),
                PlaceElem::Downcast(name, vi) => J::O(vec![
                    ("k", J::s("downcast")),
                    ("variant", opt_s(name.map(|s| s.to_string()))),
                    ("vi", J::I(vi.as_usize() as i128)),
                ]),
                PlaceElem::OpaqueCast(_) => J::O(vec![("k", J::s("opaquecast"))]),
                PlaceElem::UnwrapUnsafeBinder(_) => J::O(vec![("k", J::s("unwrapbinder"))]),
            };
            proj.push(j);
            pty = pty.projection_ty(tcx, elem);
        }
        J::O(vec![("l", J::I(p.local.as_usize() as i128)), ("p", J::A(proj))])
    }

    fn const_j(&self, owner: LocalDefId, c: &Const<'tcx>) -> J {
        let tcx = self.tcx;
        let ty = c.ty();
        let mut v: Vec<(&'static str, J)> =
            vec![("k", J::s("const")), ("ty", J::S(self.ty_s(ty)))];
        if let ty::FnDef(def_id, args) = *ty.kind() {
            v.push(("fn", self.fn_j(owner, def_id, args)));
            return J::O(v);
        }
        let typing_env = ty::TypingEnv::post_analysis(tcx, owner);
        // Only attempt evaluation on closed constants of simple types.
        let simple = matches!(ty.kind(), ty::Bool | ty::Char | ty::Int(_) | ty::Uint(_));
        if simple {
            if let Some(si) = c.try_eval_scalar_int(tcx, typing_env) {
                let size = si.size();
                let bits = si.to_bits(size);
                match ty.kind() {
                    ty::Bool => v.push(("val", J::B(bits != 0))),
                    ty::Int(_) => {
                        let i = size.sign_extend(bits);
                        v.push(("val", J::I(i)));
                    }
                    ty::Char => {
                        let ch = char::from_u32(bits as u32).unwrap_or('\u{fffd}');
                        v.push(("val", J::S(ch.to_string())));
                    }
                    _ => {
                        if bits <= i128::MAX as u128 {
                            v.push(("val", J::I(bits as i128)));
                        } else {
                            v.push(("val", J::S(format!("{}", bits))));
                        }
                    }
                }
            }
        } else if let ty::Ref(_, inner, _) = ty.kind() {
            let is_str = inner.is_str();
            let is_bytes = match inner.kind() {
                ty::Slice(e) => *e == tcx.types.u8,
                ty::Array(e, _) => *e == tcx.types.u8,
                _ => false,
            };
            if is_str || is_bytes {
                if let Ok(val) = c.eval(tcx, typing_env, rustc_span::DUMMY_SP) {
                    let bytes: Option<Vec<u8>> = match val {
                        ConstValue::Slice { .. } | ConstValue::Indirect { .. }
                            if matches!(inner.kind(), ty::Str | ty::Slice(_)) =>
                        {
                            val.try_get_slice_bytes_for_diagnostics(tcx).map(|b| b.to_vec())
                        }
                        ConstValue::Scalar(rustc_middle::mir::interpret::Scalar::Ptr(ptr, _))
                            if matches!(inner.kind(), ty::Array(..)) =>
                        {
                            // &[u8; N]: read N bytes from the allocation
                            let (prov, off) = ptr.into_raw_parts();
                            let alloc_id = prov.alloc_id();
                            match tcx.try_get_global_alloc(alloc_id) {
                                Some(rustc_middle::mir::interpret::GlobalAlloc::Memory(a)) => {
                                    let a = a.inner();
                                    let len = a.len() - off.bytes_usize();
                                    Some(
                                        a.inspect_with_uninit_and_ptr_outside_interpreter(
                                            off.bytes_usize()..off.bytes_usize() + len,
                                        )
                                        .to_vec(),
                                    )
                                }
                                _ => None,
                            }
                        }
                        _ => None,
                    };
                    if let Some(b) = bytes {
                        if is_str {
                            v.push(("str", J::S(String::from_utf8_lossy(&b).to_string())));
                        } else {
                            v.push(("bytes", J::A(b.iter().map(|x| J::I(*x as i128)).collect())));
                        }
                    }
                }
            }
        }
        if let Const::Unevaluated(u, _) = c {
            v.push(("uneval", J::S(self.path(u.def))));
        }
        J::O(v)
    }

    fn fn_j(&self, owner: LocalDefId, def_id: DefId, args: ty::GenericArgsRef<'tcx>) -> J {
        let tcx = self.tcx;
        let mut v: Vec<(&'static str, J)> = vec![
            ("path", J::S(self.path(def_id))),
            ("crate", J::S(tcx.crate_name(def_id.krate).to_string())),
            ("args", self.generic_args_j(args)),
            ("local", J::B(def_id.is_local())),
        ];
        if let Some(name) = tcx.opt_item_name(def_id) {
            v.push(("name", J::S(name.to_string())));
        }
        if let Some(tr) = tcx.trait_of_assoc(def_id) {
            v.push(("trait", J::S(self.path(tr))));
            if args.len() > 0 {
                if let Some(t) = args.get(0).and_then(|a| a.as_type()) {
                    v.push(("self_ty", J::S(self.ty_s(t))));
                    v.push(("self_head", self.ty_head(t)));
                }
            }
        }
        if let Some(im) = tcx.impl_of_assoc(def_id) {
            let st = tcx.type_of(im).instantiate_identity().skip_norm_wip();
            v.push(("impl_self", J::S(self.ty_s(st))));
            v.push(("impl_self_head", self.ty_head(st)));
        }
        let typing_env = ty::TypingEnv::post_analysis(tcx, owner);
        let kind = tcx.def_kind(def_id);
        if matches!(kind, DefKind::Fn | DefKind::AssocFn) {
            let res = std::panic::catch_unwind(std::panic::AssertUnwindSafe(|| {
                ty::Instance::try_resolve(tcx, typing_env, def_id, args)
            }));
            match res {
                Ok(Ok(Some(inst))) => {
                    let rd = inst.def_id();
                    let mut r: Vec<(&'static str, J)> = vec![
                        ("path", J::S(self.path(rd))),
                        ("crate", J::S(tcx.crate_name(rd.krate).to_string())),
                        ("local", J::B(rd.is_local())),
                        ("args", self.generic_args_j(inst.args)),
                        ("kind", J::S(format!("{:?}", std::mem::discriminant(&inst.def)))),
                    ];
                    let ik = match inst.def {
                        ty::InstanceKind::Item(_) => "item",
                        ty::InstanceKind::Virtual(..) => "virtual",
                        ty::InstanceKind::Intrinsic(_) => "intrinsic",
                        ty::InstanceKind::ClosureOnceShim { .. } => "closure_once_shim",
                        ty::InstanceKind::FnPtrShim(..) => "fnptr_shim",
                        ty::InstanceKind::DropGlue(..) => "drop_glue",
                        ty::InstanceKind::CloneShim(..) => "clone_shim",
                        _ => "other",
                    };
                    r.push(("ik", J::s(ik)));
                    if let Some(im) = tcx.impl_of_assoc(rd) {
                        let st = tcx.type_of(im).instantiate_identity().skip_norm_wip();
                        r.push(("impl_self", J::S(self.ty_s(st))));
                    }
                    v.push(("resolved", J::O(r)));
                }
                Ok(Ok(None)) => v.push(("resolved", J::Null)),
                Ok(Err(_)) => v.push(("resolved", J::s("error"))),
                Err(_) => v.push(("resolved", J::s("panic"))),
            }
        }
        J::O(v)
    }

    fn operand_j(&self, owner: LocalDefId, body: &Body<'tcx>, o: &Operand<'tcx>) -> J {
        match o {
            Operand::Copy(p) => J::O(vec![("k", J::s("copy")), ("place", self.place_j(body, p))]),
            Operand::Move(p) => J::O(vec![("k", J::s("move")), ("place", self.place_j(body, p))]),
            Operand::Constant(c) => self.const_j(owner, &c.const_),
            _ => J::O(vec![("k", J::s("runtime_checks"))]),
        }
    }

    fn rvalue_j(&self, owner: LocalDefId, body: &Body<'tcx>, rv: &Rvalue<'tcx>) -> J {
        let tcx = self.tcx;
        match rv {
            Rvalue::Use(o, ..) => J::O(vec![("k", J::s("use")), ("op", self.operand_j(owner, body, o))]),
            Rvalue::Repeat(o, n) => J::O(vec![
                ("k", J::s("repeat")),
                ("op", self.operand_j(owner, body, o)),
                ("n", J::S(with_no_trimmed_paths!(format!("{}", n)))),
            ]),
            Rvalue::Ref(_, bk, p) => J::O(vec![
                ("k", J::s("ref")),
                ("mut", J::B(matches!(bk, rustc_middle::mir::BorrowKind::Mut { .. }))),
                ("fake", J::B(matches!(bk, rustc_middle::mir::BorrowKind::Fake(_)))),
                ("place", self.place_j(body, p)),
            ]),
            Rvalue::RawPtr(k, p) => J::O(vec![
                ("k", J::s("rawptr")),
                ("mut", J::B(matches!(k, rustc_middle::mir::RawPtrKind::Mut))),
                ("place", self.place_j(body, p)),
            ]),
            Rvalue::ThreadLocalRef(d) => {
                J::O(vec![("k", J::s("tlsref")), ("path", J::S(self.path(*d)))])
            }
            Rvalue::Cast(ck, o, t) => J::O(vec![
                ("k", J::s("cast")),
                ("cast", J::S(format!("{:?}", ck))),
                ("op", self.operand_j(owner, body, o)),
                ("ty", J::S(self.ty_s(*t))),
            ]),
            Rvalue::BinaryOp(op, ab) => J::O(vec![
                ("k", J::s("binop")),
                ("op", J::S(format!("{:?}", op))),
                ("a", self.operand_j(owner, body, &ab.0)),
                ("b", self.operand_j(owner, body, &ab.1)),
            ]),
            Rvalue::UnaryOp(op, o) => J::O(vec![
                ("k", J::s("unop")),
                ("op", J::S(format!("{:?}", op))),
                ("a", self.operand_j(owner, body, o)),
            ]),
            Rvalue::Discriminant(p) => {
                J::O(vec![("k", J::s("discr")), ("place", self.place_j(body, p))])
            }
            Rvalue::Aggregate(ak, ops) => {
                let mut v: Vec<(&'static str, J)> = vec![("k", J::s("agg"))];
                match &**ak {
                    AggregateKind::Array(t) => {
                        v.push(("agg", J::s("array")));
                        v.push(("elem", J::S(self.ty_s(*t))));
                    }
                    AggregateKind::Tuple => v.push(("agg", J::s("tuple"))),
                    AggregateKind::Adt(d, vi, args, _, active) => {
                        let adt = tcx.adt_def(*d);
                        let var = adt.variant(*vi);
                        v.push(("agg", J::s("adt")));
                        v.push(("path", J::S(self.path(*d))));
                        v.push(("variant", J::S(var.name.to_string())));
                        v.push(("vi", J::I(vi.as_usize() as i128)));
                        v.push(("targs", self.generic_args_j(args)));
                        let names: Vec<J> = if let Some(a) = active {
                            vec![J::S(var.fields[*a].name.to_string())]
                        } else {
                            var.fields.iter().map(|f| J::S(f.name.to_string())).collect()
                        };
                        v.push(("fields", J::A(names)));
                    }
                    AggregateKind::Closure(d, _) => {
                        v.push(("agg", J::s("closure")));
                        v.push(("path", J::S(self.path(*d))));
                        v.push(("fields", self.capture_names(*d)));
                    }
                    AggregateKind::Coroutine(d, _) => {
                        v.push(("agg", J::s("coroutine")));
                        v.push(("path", J::S(self.path(*d))));
                        v.push(("fields", self.capture_names(*d)));
                    }
                    AggregateKind::CoroutineClosure(d, _) => {
                        v.push(("agg", J::s("coroutine_closure")));
                        v.push(("path", J::S(self.path(*d))));
                        v.push(("fields", self.capture_names(*d)));
                    }
                    AggregateKind::RawPtr(..) => v.push(("agg", J::s("rawptr"))),
                }
                v.push(("ops", J::A(ops.iter().map(|o| self.operand_j(owner, body, o)).collect())));
                J::O(v)
            }
            Rvalue::CopyForDeref(p) => {
                J::O(vec![("k", J::s("copyforderef")), ("place", self.place_j(body, p))])
            }
            Rvalue::WrapUnsafeBinder(o, _) => {
                J::O(vec![("k", J::s("wrapbinder")), ("op", self.operand_j(owner, body, o))])
            }
            #[allow(unreachable_patterns)]
            _ => J::O(vec![("k", J::s("other")), ("dbg", J::S(format!("{:?}", rv)))]),
        }
    }

    fn capture_names(&self, d: DefId) -> J {
        if let Some(ld) = d.as_local() {
            J::A(self
                .tcx
                .closure_captures(ld)
                .iter()
                .map(|c| J::S(c.to_symbol().to_string()))
                .collect())
        } else {
            J::A(vec![])
        }
    }

    fn bb(&self, b: BasicBlock) -> J {
        J::I(b.as_usize() as i128)
    }

    fn unwind_j(&self, u: &rustc_middle::mir::UnwindAction) -> J {
        match u {
            rustc_middle::mir::UnwindAction::Cleanup(b) => self.bb(*b),
            _ => J::Null,
        }
    }

    fn body_j(&self, owner: LocalDefId, body: &Body<'tcx>) -> J {
        let tcx = self.tcx;
        let did = owner.to_def_id();
        let kind = tcx.def_kind(did);
        let mut v: Vec<(&'static str, J)> = vec![
            ("path", J::S(self.path(did))),
            ("def_kind", J::S(format!("{:?}", kind))),
            ("span", self.span_j(body.span)),
            ("arg_count", J::I(body.arg_count as i128)),
        ];
        if let Some(p) = tcx.opt_parent(did) {
            v.push(("parent", J::S(self.path(p))));
        }
        if let Some(ck) = body.coroutine_kind() {
            v.push(("coroutine", J::S(format!("{:?}", ck))));
        }
        if matches!(kind, DefKind::Fn | DefKind::AssocFn) {
            v.push(("vis", J::S(format!("{:?}", tcx.visibility(did)))));
            let ev = tcx.effective_visibilities(());
            v.push(("reachable", J::B(ev.is_reachable(owner))));
            v.push(("exported", J::B(ev.is_exported(owner))));
            v.push(("is_async", J::B(tcx.asyncness(did).is_async())));
            let sig = tcx.fn_sig(did).instantiate_identity().skip_norm_wip().skip_binder();
            v.push((
                "sig_inputs",
                J::A(sig.inputs().iter().map(|t| J::S(self.ty_s(*t))).collect()),
            ));
            v.push(("sig_output", J::S(self.ty_s(sig.output()))));
            v.push(("sig_output_head", self.ty_head(sig.output())));
            v.push((
                "sig_input_heads",
                J::A(sig.inputs().iter().map(|t| self.ty_head(*t)).collect()),
            ));
            // where-clauses (trait bounds) of the function, e.g. "P: std::convert::AsRef<std::path::Path>"
            let preds = tcx.predicates_of(did).instantiate_identity(tcx);
            let mut bounds: Vec<J> = Vec::new();
            for p in preds.predicates.iter() {
                bounds.push(J::S(with_no_trimmed_paths!(format!("{}", p.skip_norm_wip()))));
            }
            v.push(("bounds", J::A(bounds)));
            if let Some(im) = tcx.impl_of_assoc(did) {
                let st = tcx.type_of(im).instantiate_identity().skip_norm_wip();
                v.push(("impl_self", J::S(self.ty_s(st))));
                v.push(("impl_self_head", self.ty_head(st)));
                if let Some(tr) = tcx.impl_opt_trait_ref(im) {
                    let tr = tr.instantiate_identity().skip_norm_wip();
                    v.push(("impl_trait", J::S(self.path(tr.def_id))));
                }
            }
            if let Some(name) = tcx.opt_item_name(did) {
                v.push(("name", J::S(name.to_string())));
            }
        }
        if matches!(kind, DefKind::Closure) {
            v.push(("captures", self.capture_names(did)));
        }
        // locals
        let mut locals: Vec<J> = Vec::new();
        for (l, decl) in body.local_decls.iter_enumerated() {
            locals.push(J::O(vec![
                ("i", J::I(l.as_usize() as i128)),
                ("ty", J::S(self.ty_s(decl.ty))),
                ("head", self.ty_head(decl.ty)),
                ("user", J::B(decl.is_user_variable())),
                ("mut", J::B(decl.mutability.is_mut())),
            ]));
        }
        v.push(("locals", J::A(locals)));
        // debug info
        let mut dbg: Vec<J> = Vec::new();
        for vdi in body.var_debug_info.iter() {
            let mut e: Vec<(&'static str, J)> = vec![("name", J::S(vdi.name.to_string()))];
            if let Some(ai) = vdi.argument_index {
                e.push(("arg", J::I(ai as i128)));
            }
            match &vdi.value {
                VarDebugInfoContents::Place(p) => e.push(("place", self.place_j(body, p))),
                VarDebugInfoContents::Const(c) => e.push(("const", self.const_j(owner, &c.const_))),
            }
            dbg.push(J::O(e));
        }
        v.push(("debug", J::A(dbg)));
        // blocks
        let mut blocks: Vec<J> = Vec::new();
        for (bbi, data) in body.basic_blocks.iter_enumerated() {
            let mut stmts: Vec<J> = Vec::new();
            for st in data.statements.iter() {
                match &st.kind {
                    StatementKind::Assign(b) => {
                        let (p, rv) = &**b;
                        stmts.push(J::O(vec![
                            ("k", J::s("assign")),
                            ("place", self.place_j(body, p)),
                            ("rv", self.rvalue_j(owner, body, rv)),
                            ("span", self.span_j(st.source_info.span)),
                        ]));
                    }
                    StatementKind::SetDiscriminant { place, variant_index } => {
                        stmts.push(J::O(vec![
                            ("k", J::s("setdiscr")),
                            ("place", self.place_j(body, place)),
                            ("vi", J::I(variant_index.as_usize() as i128)),
                        ]));
                    }
                    StatementKind::StorageDead(l) => {
                        stmts.push(J::O(vec![
                            ("k", J::s("storagedead")),
                            ("l", J::I(l.as_usize() as i128)),
                        ]));
                    }
                    _ => {}
                }
            }
            let term = data.terminator();
            let tspan = self.span_j(term.source_info.span);
            let tj = match &term.kind {
                TerminatorKind::Goto { target } => {
                    J::O(vec![("k", J::s("goto")), ("target", self.bb(*target))])
                }
                TerminatorKind::SwitchInt { discr, targets } => {
                    let dty = discr.ty(&body.local_decls, tcx);
                    let mut ts: Vec<J> = Vec::new();
                    for (val, bb) in targets.iter() {
                        let vj = if val <= i128::MAX as u128 {
                            J::I(val as i128)
                        } else {
                            J::S(format!("{}", val))
                        };
                        ts.push(J::A(vec![vj, self.bb(bb)]));
                    }
                    J::O(vec![
                        ("k", J::s("switch")),
                        ("discr", self.operand_j(owner, body, discr)),
                        ("discr_ty", J::S(self.ty_s(dty))),
                        ("targets", J::A(ts)),
                        ("otherwise", self.bb(targets.otherwise())),
                    ])
                }
                TerminatorKind::UnwindResume => J::O(vec![("k", J::s("resume"))]),
                TerminatorKind::UnwindTerminate(_) => J::O(vec![("k", J::s("terminate"))]),
                TerminatorKind::Return => J::O(vec![("k", J::s("return"))]),
                TerminatorKind::Unreachable => J::O(vec![("k", J::s("unreachable"))]),
                TerminatorKind::Drop { place, target, unwind, .. } => J::O(vec![
                    ("k", J::s("drop")),
                    ("place", self.place_j(body, place)),
                    ("target", self.bb(*target)),
                    ("unwind", self.unwind_j(unwind)),
                ]),
                TerminatorKind::Call { func, args, destination, target, unwind, fn_span, .. } => {
                    let fty = func.ty(&body.local_decls, tcx);
                    J::O(vec![
                        ("k", J::s("call")),
                        ("func", self.operand_j(owner, body, func)),
                        ("func_ty", J::S(self.ty_s(fty))),
                        (
                            "args",
                            J::A(args.iter().map(|a| self.operand_j(owner, body, &a.node)).collect()),
                        ),
                        (
                            "arg_tys",
                            J::A(args
                                .iter()
                                .map(|a| J::S(self.ty_s(a.node.ty(&body.local_decls, tcx))))
                                .collect()),
                        ),
                        ("dest", self.place_j(body, destination)),
                        ("dest_ty", J::S(self.ty_s(destination.ty(&body.local_decls, tcx).ty))),
                        ("target", target.map(|t| self.bb(t)).unwrap_or(J::Null)),
                        ("unwind", self.unwind_j(unwind)),
                        ("fn_span", self.span_j(*fn_span)),
                    ])
                }
                TerminatorKind::TailCall { func, args, .. } => J::O(vec![
                    ("k", J::s("tailcall")),
                    ("func", self.operand_j(owner, body, func)),
                    (
                        "args",
                        J::A(args.iter().map(|a| self.operand_j(owner, body, &a.node)).collect()),
                    ),
                ]),
                TerminatorKind::Assert { cond, expected, msg, target, unwind } => {
                    let mk = {
                        let s = format!("{:?}", msg);
                        s.split(|c: char| c == '(' || c == '{' || c == ' ')
                            .next()
                            .unwrap_or("")
                            .to_string()
                    };
                    J::O(vec![
                        ("k", J::s("assert")),
                        ("cond", self.operand_j(owner, body, cond)),
                        ("expected", J::B(*expected)),
                        ("msg", J::S(mk)),
                        ("msg_full", J::S(format!("{:?}", msg))),
                        ("target", self.bb(*target)),
                        ("unwind", self.unwind_j(unwind)),
                    ])
                }
                TerminatorKind::Yield { value, resume, resume_arg, drop } => J::O(vec![
                    ("k", J::s("yield")),
                    ("value", self.operand_j(owner, body, value)),
                    ("resume", self.bb(*resume)),
                    ("resume_arg", self.place_j(body, resume_arg)),
                    ("drop", drop.map(|d| self.bb(d)).unwrap_or(J::Null)),
                ]),
                TerminatorKind::CoroutineDrop => J::O(vec![("k", J::s("coroutinedrop"))]),
                TerminatorKind::FalseEdge { real_target, imaginary_target } => J::O(vec![
                    ("k", J::s("falseedge")),
                    ("target", self.bb(*real_target)),
                    ("imaginary", self.bb(*imaginary_target)),
                ]),
                TerminatorKind::FalseUnwind { real_target, .. } => {
                    J::O(vec![("k", J::s("falseunwind")), ("target", self.bb(*real_target))])
                }
                TerminatorKind::InlineAsm { .. } => J::O(vec![("k", J::s("asm"))]),
            };
            blocks.push(J::O(vec![
                ("i", J::I(bbi.as_usize() as i128)),
                ("cleanup", J::B(data.is_cleanup)),
                ("stmts", J::A(stmts)),
                ("term", tj),
                ("tspan", tspan),
            ]));
        }
        v.push(("blocks", J::A(blocks)));
        J::O(v)
    }

    fn items_j(&self) -> J {
        let tcx = self.tcx;
        let mut adts: Vec<J> = Vec::new();
        let mut statics: Vec<J> = Vec::new();
        let mut consts: Vec<J> = Vec::new();
        let mut impls: Vec<J> = Vec::new();
        let mut fns: Vec<J> = Vec::new();
        let mut uses_unsafe: Vec<J> = Vec::new();
        for ld in tcx.hir_crate_items(()).definitions() {
            let did = ld.to_def_id();
            let kind = tcx.def_kind(did);
            match kind {
                DefKind::Struct | DefKind::Enum | DefKind::Union => {
                    let adt = tcx.adt_def(did);
                    let mut vars: Vec<J> = Vec::new();
                    for var in adt.variants().iter() {
                        let fields: Vec<J> = var
                            .fields
                            .iter()
                            .map(|f| {
                                let fty = tcx.type_of(f.did).instantiate_identity().skip_norm_wip();
                                J::O(vec![
                                    ("name", J::S(f.name.to_string())),
                                    ("ty", J::S(self.ty_s(fty))),
                                    ("vis", J::S(format!("{:?}", f.vis))),
                                ])
                            })
                            .collect();
                        vars.push(J::O(vec![
                            ("name", J::S(var.name.to_string())),
                            ("fields", J::A(fields)),
                        ]));
                    }
                    let ev = tcx.effective_visibilities(());
                    adts.push(J::O(vec![
                        ("path", J::S(self.path(did))),
                        ("kind", J::S(format!("{:?}", kind))),
                        ("variants", J::A(vars)),
                        ("reachable", J::B(ev.is_reachable(ld))),
                        ("span", self.span_j(tcx.def_span(did))),
                    ]));
                }
                DefKind::Static { mutability, nested, .. } => {
                    let ty = tcx.type_of(did).instantiate_identity().skip_norm_wip();
                    let te = ty::TypingEnv::post_analysis(tcx, ld);
                    let freeze = ty.is_freeze(tcx, te);
                    statics.push(J::O(vec![
                        ("path", J::S(self.path(did))),
                        ("ty", J::S(self.ty_s(ty))),
                        ("head", self.ty_head(ty)),
                        ("mut", J::B(mutability.is_mut())),
                        ("nested", J::B(nested)),
                        ("freeze", J::B(freeze)),
                        ("thread_local", J::B(tcx.is_thread_local_static(did))),
                        ("span", self.span_j(tcx.def_span(did))),
                    ]));
                }
                DefKind::Const { .. } | DefKind::AssocConst { .. } => {
                    let ty = tcx.type_of(did).instantiate_identity().skip_norm_wip();
                    let mut e: Vec<(&'static str, J)> = vec![
                        ("path", J::S(self.path(did))),
                        ("ty", J::S(self.ty_s(ty))),
                        ("span", self.span_j(tcx.def_span(did))),
                    ];
                    let te = ty::TypingEnv::post_analysis(tcx, ld);
                    let simple = matches!(ty.kind(), ty::Bool | ty::Char | ty::Int(_) | ty::Uint(_));
                    let is_str = matches!(ty.kind(), ty::Ref(_, i, _) if i.is_str());
                    if simple || is_str {
                        if let Ok(val) = tcx.const_eval_poly(did) {
                            if simple {
                                if let Some(si) = val.try_to_scalar_int() {
                                    let bits = si.to_bits(si.size());
                                    if bits <= i128::MAX as u128 {
                                        e.push(("val", J::I(bits as i128)));
                                    }
                                }
                            } else if let Some(b) = val.try_get_slice_bytes_for_diagnostics(tcx) {
                                e.push(("str", J::S(String::from_utf8_lossy(b).to_string())));
                            }
                        }
                    }
                    let _ = te;
                    consts.push(J::O(e));
                }
                DefKind::Impl { of_trait } => {
                    let st = tcx.type_of(did).instantiate_identity().skip_norm_wip();
                    let mut e: Vec<(&'static str, J)> = vec![
                        ("self_ty", J::S(self.ty_s(st))),
                        ("self_head", self.ty_head(st)),
                        ("span", self.span_j(tcx.def_span(did))),
                    ];
                    if of_trait {
                        if let Some(tr) = tcx.impl_opt_trait_ref(did) {
                            let tr = tr.instantiate_identity().skip_norm_wip();
                            e.push(("trait", J::S(self.path(tr.def_id))));
                        }
                    }
                    let items: Vec<J> = tcx
                        .associated_item_def_ids(did)
                        .iter()
                        .map(|d| J::S(self.path(*d)))
                        .collect();
                    e.push(("items", J::A(items)));
                    // derive?
                    e.push(("automatically_derived", J::B(tcx.is_automatically_derived(did))));
                    impls.push(J::O(e));
                }
                DefKind::Fn | DefKind::AssocFn => {
                    // Functions without bodies (trait method declarations) are
                    // listed here; those with bodies are described with the body.
                    let ev = tcx.effective_visibilities(());
                    let sig = tcx.fn_sig(did).instantiate_identity().skip_norm_wip().skip_binder();
                    let unsafe_ = sig.safety().is_unsafe();
                    fns.push(J::O(vec![
                        ("path", J::S(self.path(did))),
                        ("vis", J::S(format!("{:?}", tcx.visibility(did)))),
                        ("reachable", J::B(ev.is_reachable(ld))),
                        ("unsafe", J::B(unsafe_)),
                    ]));
                }
                DefKind::Use => {}
                _ => {}
            }
            let _ = &mut uses_unsafe;
        }
        J::O(vec![
            ("adts", J::A(adts)),
            ("statics", J::A(statics)),
            ("consts", J::A(consts)),
            ("impls", J::A(impls)),
            ("fns", J::A(fns)),
        ])
    }
}

// ---------------------------------------------------------------- callbacks

struct Extract {
    out: String,
    nonce: String,
    config: String,
}

impl Callbacks for Extract {
    fn after_expansion<'tcx>(&mut self, _compiler: &Compiler, tcx: TyCtxt<'tcx>) -> Compilation {
        // Phase 1: clone every built body before any other query can steal one.
        let owners: Vec<LocalDefId> = tcx.hir_body_owners().collect();
        let mut bodies: Vec<(LocalDefId, Body<'tcx>)> = Vec::new();
        let mut fallbacks = 0usize;
        for def in owners.iter().copied() {
            let kind = tcx.def_kind(def);
            if !matches!(kind, DefKind::Fn | DefKind::AssocFn | DefKind::Closure) {
                continue;
            }
            let steal = tcx.mir_built(def);
            if steal.is_stolen() {
                fallbacks += 1;
                continue;
            }
            let body = steal.borrow().clone();
            bodies.push((def, body));
        }
        if fallbacks > 0 {
            eprintln!("cacache-facts: {} bodies were already stolen", fallbacks);
            std::process::exit(3);
        }
        // Phase 2: describe.
        let cx = Cx { tcx };
        let mut bj: Vec<J> = Vec::new();
        for (def, body) in bodies.iter() {
            bj.push(cx.body_j(*def, body));
        }
        let items = cx.items_j();
        let doc = J::O(vec![
            ("nonce", J::S(self.nonce.clone())),
            ("config", J::S(self.config.clone())),
            ("crate", J::S(tcx.crate_name(rustc_hir::def_id::LOCAL_CRATE).to_string())),
            ("n_bodies", J::I(bj.len() as i128)),
            ("bodies", J::A(bj)),
            ("items", items),
        ]);
        let mut s = String::new();
        doc.write(&mut s);
        let tmp = format!("{}.tmp", self.out);
        std::fs::write(&tmp, s.as_bytes()).expect("write facts");
        std::fs::rename(&tmp, &self.out).expect("rename facts");
        Compilation::Continue
    }
}

struct Plain;
impl Callbacks for Plain {}

fn main() {
    let mut args: Vec<String> = std::env::args().collect();
    // RUSTC_WORKSPACE_WRAPPER passes the real rustc path as argv[1].
    if args.len() > 1 {
        let a1 = std::path::Path::new(&args[1]);
        if a1.file_stem().map(|s| s == "rustc").unwrap_or(false) {
            args.remove(1);
        }
    }
    let want = std::env::var("VERIF_FACTS_CRATE").unwrap_or_else(|_| "cacache".to_string());
    let mut crate_name = None;
    for (i, a) in args.iter().enumerate() {
        if a == "--crate-name" {
            crate_name = args.get(i + 1).cloned();
        }
    }
    let out = std::env::var("VERIF_FACTS_OUT").ok();
    let is_test = args.iter().any(|a| a == "--test");
    match (crate_name, out) {
        (Some(cn), Some(out)) if cn == want && !is_test => {
            let mut cb = Extract {
                out,
                nonce: std::env::var("VERIF_FACTS_NONCE").unwrap_or_default(),
                config: std::env::var("VERIF_FACTS_CONFIG").unwrap_or_default(),
            };
            rustc_driver::run_compiler(&args, &mut cb);
        }
        _ => {
            rustc_driver::run_compiler(&args, &mut Plain);
        }
    }
}
