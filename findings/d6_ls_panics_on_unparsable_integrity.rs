// D6 (C20, C10): index::ls does `i.parse().unwrap()` on the integrity string of a record that passed the
// checksum; a record with a valid checksum but an unparsable integrity makes list_sync panic, while
// lookups (index::find) skip the same record.
use sha2::{Digest, Sha256};
use std::io::Write;

#[test]
fn listing_skips_a_record_whose_integrity_does_not_parse() {
    let tmp = tempfile::tempdir().unwrap();
    let cache = tmp.path();
    cacache::write_sync(cache, "k", b"hello").unwrap();
    // find the bucket of "k" and append a well-checksummed record with a bogus integrity
    let bucket = walk(&cache.join("index-v5")).into_iter().next().unwrap();
    let json = r#"{"key":"k","integrity":"bogus","time":1,"size":5,"metadata":null,"raw_metadata":null}"#;
    let mut h = Sha256::new();
    h.update(json);
    let line = format!("\n{}\t{}", hex::encode(h.finalize()), json);
    std::fs::OpenOptions::new().append(true).open(&bucket).unwrap().write_all(line.as_bytes()).unwrap();

    let looked_up = cacache::metadata_sync(cache, "k").unwrap();
    let listed: Vec<_> = cacache::list_sync(cache).collect::<Result<Vec<_>, _>>().unwrap(); // panicked here
    assert_eq!(listed.into_iter().find(|m| m.key == "k"), looked_up);
}

fn walk(dir: &std::path::Path) -> Vec<std::path::PathBuf> {
    let mut out = vec![];
    for e in std::fs::read_dir(dir).unwrap() {
        let p = e.unwrap().path();
        if p.is_dir() { out.extend(walk(&p)); } else { out.push(p); }
    }
    out
}
