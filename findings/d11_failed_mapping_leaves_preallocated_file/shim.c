#define _GNU_SOURCE
#include <dlfcn.h>
#include <errno.h>
#include <stdlib.h>
#include <sys/mman.h>
/* Fail shared file mappings while FAIL_MMAP is set (e.g. a filesystem without mmap support / ENOMEM). */
void *mmap64(void *a, size_t l, int p, int f, int fd, off64_t o) {
    static void *(*real)(void *, size_t, int, int, int, off64_t) = 0;
    if (!real) real = dlsym(RTLD_NEXT, "mmap64");
    if (getenv("FAIL_MMAP") && fd >= 0 && (f & MAP_SHARED)) { errno = ENODEV; return MAP_FAILED; }
    return real(a, l, p, f, fd, o);
}
void *mmap(void *a, size_t l, int p, int f, int fd, off_t o) {
    static void *(*real)(void *, size_t, int, int, int, off_t) = 0;
    if (!real) real = dlsym(RTLD_NEXT, "mmap");
    if (getenv("FAIL_MMAP") && fd >= 0 && (f & MAP_SHARED)) { errno = ENODEV; return MAP_FAILED; }
    return real(a, l, p, f, fd, o);
}
