use std::io::Write;
fn main() {
    let tmp = tempfile::tempdir().unwrap();
    let cache = tmp.path().join("c");
    std::env::set_var("FAIL_MMAP", "1");                 // the mapping fails, the writer falls back to plain writes
    let mut w = cacache::WriteOpts::new().size(10).open_hash_sync(&cache).unwrap();
    std::env::remove_var("FAIL_MMAP");
    w.write_all(b"hello").unwrap();                      // fewer bytes than declared
    let res = w.commit();
    println!("commit -> {res:?}");
    let sri = cacache::Integrity::from(b"hello");
    if cacache::exists_sync(&cache, &sri) {
        match cacache::read_hash_sync(&cache, &sri) {
            Ok(d) if d == b"hello" => println!("content file under the address of \"hello\" holds exactly \"hello\""),
            other => { println!("DEFECT: content file under the address of \"hello\" does not match its address: {other:?}"); std::process::exit(1) }
        }
    } else { println!("nothing published under the address of \"hello\""); }
}
