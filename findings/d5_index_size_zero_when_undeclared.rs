// D5 (C11, C12): when no size is declared, the index records `size: 0` instead of the number of bytes written
// (commit never stores its byte counter); the one-shot sync write declares no size, the async one does.
use std::io::Write;

#[test]
fn undeclared_size_is_the_number_of_bytes_written() {
    let tmp = tempfile::tempdir().unwrap();
    cacache::write_sync(tmp.path(), "one-shot", b"hello world").unwrap();
    assert_eq!(cacache::metadata_sync(tmp.path(), "one-shot").unwrap().unwrap().size, 11);

    let mut w = cacache::SyncWriter::create(tmp.path(), "streamed").unwrap();
    w.write_all(b"hello ").unwrap();
    w.write_all(b"world").unwrap();
    w.commit().unwrap();
    assert_eq!(cacache::metadata_sync(tmp.path(), "streamed").unwrap().unwrap().size, 11);
}

#[test]
fn async_streamed_writer_records_bytes_written() {
    use futures::AsyncWriteExt;
    futures::executor::block_on(async {
        let tmp = tempfile::tempdir().unwrap();
        let mut w = cacache::Writer::create(tmp.path(), "k").await.unwrap();
        w.write_all(b"hello world").await.unwrap();
        w.commit().await.unwrap();
        assert_eq!(cacache::metadata(tmp.path(), "k").await.unwrap().unwrap().size, 11);
    });
}
