use std::io::Write;
fn main() {
    let tmp = tempfile::tempdir().unwrap();
    let cache = tmp.path().join("c");
    let data = b"hello world, this is more than eight bytes";
    let mut w = cacache::SyncWriter::create(&cache, "k").unwrap();
    std::env::set_var("SHORT_WRITE_ONCE", "1");
    w.write_all(data).unwrap();             // the kernel accepts 4 bytes first, write_all retries with the rest
    std::env::remove_var("SHORT_WRITE_ONCE");
    let sri = w.commit().unwrap();
    let want = cacache::Integrity::from(&data[..]);
    println!("returned {sri}\nexpected {want}");
    match cacache::read_sync(&cache, "k") {
        Ok(d) => println!("read back {} bytes, equal={}", d.len(), d == data),
        Err(e) => { println!("DEFECT: successful write is not readable: {e}"); std::process::exit(1) }
    }
    if sri.to_string() != want.to_string() { println!("DEFECT: wrong digest returned"); std::process::exit(1) }
}
