#define _GNU_SOURCE
#include <dlfcn.h>
#include <stdlib.h>
#include <unistd.h>
#include <string.h>
/* Make the first write() of more than 8 bytes to a regular temp file short (4 bytes), once. */
static int done = 0;
ssize_t write(int fd, const void *buf, size_t n) {
    static ssize_t (*real)(int, const void *, size_t) = 0;
    if (!real) real = dlsym(RTLD_NEXT, "write");
    if (getenv("SHORT_WRITE_ONCE") && !done && fd > 2 && n > 8) { done = 1; return real(fd, buf, 4); }
    return real(fd, buf, n);
}
