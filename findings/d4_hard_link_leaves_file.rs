// D4 (C18, C12): sync hard_link links first and verifies afterwards; when verification
// fails the destination link (holding the unverified bytes) is left behind.
// Run as an integration test of cacache: copy to <repo>/tests/ and `cargo test --test d4_hard_link_leaves_file`.
use std::fs;

#[test]
fn failed_checked_hard_link_leaves_nothing_behind() {
    let tmp = tempfile::tempdir().unwrap();
    let cache = tmp.path().join("cache");
    let sri = cacache::write_sync(&cache, "k", b"hello world").unwrap();
    // damage the content file
    let hex = sri.to_hex().1;
    let cpath = cache.join("content-v2").join("sha256").join(&hex[0..2]).join(&hex[2..4]).join(&hex[4..]);
    fs::write(&cpath, b"HELLO WORLD").unwrap();
    let dest = tmp.path().join("out.bin");
    let res = cacache::hard_link_sync(&cache, "k", &dest);
    assert!(res.is_err(), "verification must fail");
    assert!(!dest.exists(), "destination holding unverified bytes was left behind");
}
