#define _GNU_SOURCE
#include <dirent.h>
#include <dlfcn.h>
#include <errno.h>
#include <stdlib.h>
static DIR *first = 0; static int calls = 0;
struct dirent64 *readdir64(DIR *d) {
    static struct dirent64 *(*real)(DIR *) = 0;
    if (!real) real = dlsym(RTLD_NEXT, "readdir64");
    const char *after = getenv("FAIL_READDIR_AFTER");
    if (after) {
        if (!first) first = d;
        if (d == first) { calls++; if (calls == atoi(after) + 1) { errno = EIO; return 0; } }
    }
    return real(d);
}
