fn main() {
    let tmp = tempfile::tempdir().unwrap();
    let cache = tmp.path().join("c");
    for k in 0..4 { cacache::write_sync(&cache, format!("k{k}"), b"data").unwrap(); }
    std::fs::create_dir_all(cache.join("extra1")).unwrap();
    std::fs::create_dir_all(cache.join("extra2")).unwrap();
    let before = std::fs::read_dir(&cache).unwrap().count();
    std::env::set_var("FAIL_READDIR_AFTER", "3");   // ".", "..", first entry, then EIO once
    let res = cacache::clear_sync(&cache);
    std::env::remove_var("FAIL_READDIR_AFTER");
    let after = std::fs::read_dir(&cache).unwrap().count();
    println!("children before={before} clear_sync={res:?} children after={after}");
    if res.is_ok() && after != 0 { println!("DEFECT: clear_sync reported success but {after} children remain"); std::process::exit(1); }
}
