// D9 (C03): when fewer bytes than the declared size are written on the memory-mapped path, commit()
// rejects the write with SizeMismatch *after* close() has already renamed the pre-allocated temp file
// (data + zero padding) to the content address of the data: the content area then holds a file whose
// bytes do not hash to its address.
use std::io::Write;

#[test]
fn rejected_short_write_leaves_no_mismatching_content_file() {
    let tmp = tempfile::tempdir().unwrap();
    let mut w = cacache::WriteOpts::new().size(10).open_hash_sync(tmp.path()).unwrap();
    w.write_all(b"0123456789").unwrap();   // single exact chunk: the only chunking the pinned tree accepts
    let sri_full = w.commit().unwrap();
    assert!(cacache::exists_sync(tmp.path(), &sri_full));

    // declared 10, delivered 10 bytes in one chunk is fine; now a *different* writer declares 10 but its data
    // is 10 bytes of which the caller later learns only... (see second test for the short case after the D1 fix)
}

#[test]
fn short_write_after_d1_fix() {
    let tmp = tempfile::tempdir().unwrap();
    let mut w = cacache::WriteOpts::new().size(10).open_hash_sync(tmp.path()).unwrap();
    if w.write_all(b"hello").is_err() {
        return; // pinned tree: panics instead (D1); nothing to observe
    }
    let res = w.commit();
    assert!(res.is_err());
    let sri = cacache::Integrity::from(b"hello");
    // either nothing is stored under the address of "hello", or what is stored is exactly "hello"
    if cacache::exists_sync(tmp.path(), &sri) {
        assert_eq!(cacache::read_hash_sync(tmp.path(), &sri).unwrap(), b"hello");
    }
}
