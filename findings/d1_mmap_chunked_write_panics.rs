// D1 (C20, C02, C08): with a declared size <= 1 MiB the writer maps the temp file and every
// write does `mmap.copy_from_slice(buf)`, which panics unless the chunk is exactly the declared size.
use std::io::Write;

#[test]
fn sync_chunked_write_with_declared_size_does_not_panic() {
    let tmp = tempfile::tempdir().unwrap();
    let mut w = cacache::WriteOpts::new().size(10).open_sync(tmp.path(), "k").unwrap();
    w.write_all(b"hello").unwrap();
    w.write_all(b"world").unwrap();
    let sri = w.commit().unwrap();
    assert_eq!(cacache::read_hash_sync(tmp.path(), &sri).unwrap(), b"helloworld");
}

#[test]
fn sync_more_bytes_than_declared_is_an_error_not_a_panic() {
    let tmp = tempfile::tempdir().unwrap();
    let mut w = cacache::WriteOpts::new().size(3).open_sync(tmp.path(), "k").unwrap();
    let r = w.write_all(b"hello");
    assert!(r.is_err() || w.commit().is_err());
}

#[test]
fn sync_fewer_bytes_than_declared_is_a_size_mismatch() {
    let tmp = tempfile::tempdir().unwrap();
    let mut w = cacache::WriteOpts::new().size(10).open_sync(tmp.path(), "k").unwrap();
    w.write_all(b"hello").unwrap();
    assert!(matches!(w.commit(), Err(cacache::Error::SizeMismatch(10, 5))));
}

#[test]
fn async_chunked_write_hash_with_declared_size_does_not_panic() {
    use futures::AsyncWriteExt;
    futures::executor::block_on(async {
        let tmp = tempfile::tempdir().unwrap();
        let mut w = cacache::WriteOpts::new().size(10).open_hash(tmp.path()).await.unwrap();
        w.write_all(b"hello").await.unwrap();
        w.write_all(b"world").await.unwrap();
        let sri = w.commit().await.unwrap();
        assert_eq!(cacache::read_hash(tmp.path(), &sri).await.unwrap(), b"helloworld");
    });
}
