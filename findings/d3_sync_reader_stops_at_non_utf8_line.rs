// D3 (C06, C12, C13): the sync bucket reader uses `.lines().map_while(Result::ok)`: the first line that is not
// valid UTF-8 (or the first read error) silently ends the record stream, so every record after it is lost for
// sync lookups, while the async reader skips the line and continues.
use std::io::Write;

#[test]
fn records_after_a_non_utf8_line_stay_effective_in_sync_lookups() {
    let tmp = tempfile::tempdir().unwrap();
    let cache = tmp.path();
    cacache::write_sync(cache, "k", b"first").unwrap();
    let bucket = walk(&cache.join("index-v5")).into_iter().next().unwrap();
    std::fs::OpenOptions::new().append(true).open(&bucket).unwrap().write_all(b"\n\xff\xfe garbage").unwrap();
    let sri2 = cacache::write_sync(cache, "k", b"second").unwrap();

    let sync_view = cacache::metadata_sync(cache, "k").unwrap().unwrap();
    assert_eq!(sync_view.integrity, sri2, "sync lookup lost the record written after the damaged line");
    let async_view = futures::executor::block_on(cacache::metadata(cache, "k")).unwrap().unwrap();
    assert_eq!(async_view.integrity, sri2);
    assert_eq!(cacache::read_sync(cache, "k").unwrap(), b"second");
}

fn walk(dir: &std::path::Path) -> Vec<std::path::PathBuf> {
    let mut out = vec![];
    for e in std::fs::read_dir(dir).unwrap() {
        let p = e.unwrap().path();
        if p.is_dir() { out.extend(walk(&p)); } else { out.push(p); }
    }
    out
}
