// D2 (C02): a declared size of 0 reaches posix_fallocate(fd, 0, 0), which fails with EINVAL,
// so storing empty data by address fails on a healthy filesystem.
#[test]
fn write_hash_sync_empty() {
    let tmp = tempfile::tempdir().unwrap();
    let sri = cacache::write_hash_sync(tmp.path(), b"").unwrap();
    assert_eq!(cacache::read_hash_sync(tmp.path(), &sri).unwrap(), b"");
}

#[test]
fn write_hash_async_empty() {
    futures::executor::block_on(async {
        let tmp = tempfile::tempdir().unwrap();
        let sri = cacache::write_hash(tmp.path(), b"").await.unwrap();
        assert_eq!(cacache::read_hash(tmp.path(), &sri).await.unwrap(), b"");
    });
}
