// D7 (C19): link_to* stores the caller's target path verbatim in the symlink; a relative target is then
// resolved relative to the content directory, so the symlink dangles and every read of the key fails.
#[test]
fn relative_target_is_readable_after_linking() {
    let tmp = tempfile::tempdir().unwrap();
    let work = tmp.path().join("work");
    std::fs::create_dir_all(&work).unwrap();
    std::fs::write(work.join("t.txt"), b"linked bytes").unwrap();
    let cache = tmp.path().join("cache");
    std::env::set_current_dir(&work).unwrap();
    let sri = cacache::link_to_sync(&cache, "k", "t.txt").unwrap();
    assert_eq!(cacache::read_sync(&cache, "k").unwrap(), b"linked bytes");
    assert_eq!(cacache::read_hash_sync(&cache, &sri).unwrap(), b"linked bytes");
    assert_eq!(cacache::metadata_sync(&cache, "k").unwrap().unwrap().size, 12);
}
