#!/usr/bin/env python3
"""Records the anchor counts measured on the *current* tree into analysis/floors.json.
Run deliberately (after reviewing the counts) on the pinned tree / after a fix commit; never run by a check."""
import importlib, json, os, sys
HERE = os.path.dirname(os.path.dirname(os.path.abspath(__file__)))
sys.path.insert(0, HERE)
os.environ["VERIF_RECORD_FLOORS"] = "1"
from analysis import framework
from analysis.meta import META
props = sys.argv[1:] or sorted(p for p in META if os.path.exists(os.path.join(HERE, "analysis", "rules", p.lower() + ".py")))
ctx = framework.Ctx("thorough")
p = os.path.join(HERE, "analysis", "floors.json")
cur = json.load(open(p)) if os.path.exists(p) else {}
for pid in props:
    rep = framework.Report(pid)
    importlib.import_module("analysis.rules.%s" % pid.lower()).run(ctx, rep)
    cur[pid] = framework._RECORDED.get(pid, {})
    print(pid, len(cur[pid]), "floors")
json.dump(cur, open(p, "w"), indent=1, sort_keys=True)
