#!/usr/bin/env python3
"""Records the functions of the *current* /repo tree (all 12 feature configurations) into analysis/baseline_fns.json:
path -> signature. Functions that are not listed there are "new helpers" and are looked through by analysis/inline.py.
Run deliberately on the pinned tree / after a fix commit; never run by a check."""
import json, os, subprocess, sys
HERE = os.path.dirname(os.path.dirname(os.path.abspath(__file__)))
sys.path.insert(0, HERE)
from analysis import framework
ctx = framework.Ctx("thorough")
fns = {}
for cfg in ctx.configs:
    j = json.load(open(ctx.paths[cfg]))
    for b in j["bodies"]:
        if b.get("def_kind") in ("Fn", "AssocFn"):
            sig = {"inputs": b.get("sig_inputs"), "output": b.get("sig_output"), "is_async": bool(b.get("is_async"))}
            if sig not in fns.setdefault(b["path"], []):
                fns[b["path"]].append(sig)      # (a signature can differ between feature configurations: the mmap stub type)
head = subprocess.run(["git", "-C", os.environ.get("VERIF_REPO", "/repo"), "rev-parse", "--short", "HEAD"], capture_output=True, text=True).stdout.strip()
out = {"note": "functions of the pinned tree (all 12 feature configurations) with their signatures; helpers NOT listed here are inlined "
               "before analysis (analysis/inline.py), unless they are a listed function under a new name (same module, same "
               "signature, the listed one gone). Recorded by tools/record_baseline_fns.py from /repo.",
       "repo_head": head, "functions": sorted(fns), "signatures": {k: fns[k] for k in sorted(fns)}}
json.dump(out, open(os.path.join(HERE, "analysis", "baseline_fns.json"), "w"), indent=1)
print(len(fns), "functions recorded at", head)
