#!/usr/bin/env python3
"""tools/confirm_seed.py <ID> <agent worktree> [--features F] [--name NAME]
Independently confirms a seeded change written by a sub-agent and files it under /verif/seeded/<NAME>/:
  1. applies _seed/patch.diff to a scratch copy of the *current* /repo (outside /repo and /verif),
  2. the crate must compile in the main feature configurations,
  3. the existing test suite must pass with the change,
  4. the demonstration must FAIL with the change and PASS without it,
  5. runs every static check on the changed tree and records which ones fire.
The scratch copy and its build output are removed afterwards."""
import argparse
import json
import os
import shutil
import subprocess
import sys
import tempfile
import time

HERE = os.path.dirname(os.path.dirname(os.path.abspath(__file__)))
sys.path.insert(0, HERE)
from analysis.meta import META  # noqa: E402

CONFIGS = [[], ["--no-default-features"], ["--no-default-features", "--features", "tokio-runtime,mmap,link_to"], ["--features", "link_to"]]


def sh(cmd, cwd, env=None, timeout=1800):
    r = subprocess.run(cmd, cwd=cwd, env=env, capture_output=True, text=True, timeout=timeout)
    return r.returncode, r.stdout + r.stderr


def main():
    ap = argparse.ArgumentParser()
    ap.add_argument("prop")
    ap.add_argument("worktree")
    ap.add_argument("--features", default="")
    ap.add_argument("--name")
    ap.add_argument("--seed-dir", default="", help="directory holding patch.diff / demo.rs / NOTES.md (default: <worktree>/_seed)")
    ap.add_argument("--demo-args", default="", help="raw extra cargo arguments for the demonstration, e.g. '--no-default-features --features tokio-runtime,mmap'")
    a = ap.parse_args()
    name = a.name or a.prop
    seed = a.seed_dir or os.path.join(a.worktree, "_seed")
    patch = os.path.join(seed, "patch.diff")
    demo_src = os.path.join(seed, "demo.rs")
    root = tempfile.mkdtemp(prefix="cacache-seed-%s-" % name, dir="/tmp")
    log = []
    ok = True
    try:
        for d in ("src", "benches"):
            shutil.copytree(os.path.join("/repo", d), os.path.join(root, d))
        for f in ("Cargo.toml", "Cargo.lock"):
            shutil.copy(os.path.join("/repo", f), os.path.join(root, f))
        shutil.copytree("/repo/target", os.path.join(root, "target"))
        env = dict(os.environ, CARGO_NET_OFFLINE="true", CARGO_TARGET_DIR=os.path.join(root, "target"))
        feat = ["--features", a.features] if a.features else []
        if a.demo_args:
            feat = a.demo_args.split()
        os.makedirs(os.path.join(root, "tests"))
        demo_name = "seed_demo"
        shutil.copy(demo_src, os.path.join(root, "tests", demo_name + ".rs"))
        # 4b. demo passes WITHOUT the change
        rc, out = sh(["cargo", "test", "--offline", "--test", demo_name] + feat, root, env)
        without_ok = rc == 0
        log.append(("demo without change", "PASS" if without_ok else "FAIL", out[-600:] if not without_ok else ""))
        # apply
        rc, out = sh(["patch", "-p1", "-i", patch], root)
        if rc != 0:
            print("patch does not apply to the current /repo:\n", out)
            return 2
        # 2. compiles
        for c in CONFIGS:
            rc, out = sh(["cargo", "check", "--offline", "--lib"] + c, root, env)
            log.append(("cargo check %s" % " ".join(c), "ok" if rc == 0 else "FAIL", out[-800:] if rc else ""))
            ok &= rc == 0
        # 3. existing tests pass (the demo is moved aside)
        os.rename(os.path.join(root, "tests"), os.path.join(root, "tests.aside"))
        for c in ([], ["--features", "link_to"]):
            rc, out = sh(["cargo", "test", "--offline", "--no-fail-fast"] + c, root, env)
            res = [l for l in out.splitlines() if l.startswith("test result")]
            log.append(("cargo test %s" % " ".join(c), "ok" if rc == 0 else "FAIL", " | ".join(res)))
            ok &= rc == 0
        os.rename(os.path.join(root, "tests.aside"), os.path.join(root, "tests"))
        # 4a. demo fails WITH the change
        rc, out = sh(["cargo", "test", "--offline", "--test", demo_name] + feat, root, env)
        with_fails = rc != 0 and "test result: FAILED" in out
        log.append(("demo with change", "FAIL (expected)" if with_fails else "UNEXPECTED rc=%d" % rc, out[-500:] if not with_fails else ""))
        ok &= with_fails and without_ok
        # 5. static checks on the changed tree
        shutil.rmtree(os.path.join(root, "target"), ignore_errors=True)
        shutil.rmtree(os.path.join(root, "tests"), ignore_errors=True)
        src_t = os.path.join(HERE, ".cache", "target")
        subprocess.run(["cp", "-al", src_t, os.path.join(root, "target")], check=False)
        fired = {}
        cenv = dict(os.environ, VERIF_REPO=root, VERIF_TARGET_BASE=os.path.join(root, "target"), VERIF_FACTS_BASE=os.path.join(root, "facts"))
        for p in sorted(META):
            r = subprocess.run([os.path.join(HERE, "check"), p, "quick"], cwd=HERE, env=cenv, capture_output=True, text=True)
            if r.returncode == 1:
                fired[p] = [l.strip()[:300] for l in r.stdout.splitlines() if l.startswith("  ") and not l.startswith("      ")][:4]
            elif r.returncode == 2:
                fired[p] = ["CANNOT-ANALYSE"]
        for step in log:
            print("%-60s %s %s" % step)
        print("checks that fire:", sorted(fired))
        print("target property %s: %s" % (a.prop, "CAUGHT" if a.prop in fired else "MISSED"))
        dst = os.path.join(HERE, "seeded", name)
        os.makedirs(dst, exist_ok=True)
        shutil.copy(patch, os.path.join(dst, "patch.diff"))
        shutil.copy(demo_src, os.path.join(dst, "demo.rs"))
        notes = os.path.join(seed, "NOTES.md")
        if os.path.exists(notes):
            shutil.copy(notes, os.path.join(dst, "NOTES.md"))
        needs = ""
        if os.path.exists(notes):
            txt = open(notes).read()
            needs = txt[:1500]
        meta = {
            "property": a.prop,
            "written_by": "independent sub-agent given only the property text and a scratch worktree",
            "confirmed": bool(ok),
            "repo_head_when_confirmed": subprocess.check_output(["git", "-C", "/repo", "rev-parse", "--short", "HEAD"], text=True).strip(),
            "what_i_ran": [{"step": s, "result": r, "detail": d} for s, r, d in log],
            "demo": "copy demo.rs to <repo>/tests/seed_demo.rs; cargo test --offline --test seed_demo %s" % " ".join(feat),
            "needs_to_manifest": "see NOTES.md",
            "static_checks_that_fire": fired,
            "caught_by_target_property_check": a.prop in fired,
            "confirmed_at": time.strftime("%Y-%m-%dT%H:%M:%SZ", time.gmtime()),
        }
        json.dump(meta, open(os.path.join(dst, "meta.json"), "w"), indent=1)
        return 0 if ok else 1
    finally:
        shutil.rmtree(root, ignore_errors=True)


if __name__ == "__main__":
    sys.exit(main())
