#!/usr/bin/env python3
"""tools/try_seed.py <patch.diff> [props...] — apply a seeded change to a scratch copy of /repo and run the checks on it."""
import os, shutil, subprocess, sys
HERE = os.path.dirname(os.path.dirname(os.path.abspath(__file__)))
sys.path.insert(0, HERE)
from selftest.mutate import make_scratch, run_check
from analysis.meta import META
patch = os.path.abspath(sys.argv[1])
props = sys.argv[2:] or sorted(META)
root = make_scratch("seed")
try:
    r = subprocess.run(["patch", "-p1", "-i", patch], cwd=root, capture_output=True, text=True)
    if r.returncode != 0:
        print("PATCH FAILED", r.stdout, r.stderr); sys.exit(2)
    fired = []
    from concurrent.futures import ThreadPoolExecutor
    def one(p):
        rc, out = run_check(root, p)
        return p, rc, out
    # first run sequentially one property to warm the facts cache, then the rest in parallel
    p0, rc0, out0 = one(props[0])
    res = [(p0, rc0, out0)]
    with ThreadPoolExecutor(max_workers=6) as ex:
        res += list(ex.map(one, props[1:]))
    for p, rc, out in res:
        if rc == 1:
            fired.append(p)
            for l in out.splitlines():
                if l.startswith("  ") and not l.startswith("      "):
                    print("   [%s] %s" % (p, l.strip()[:260]))
        elif rc == 2:
            print("   [%s] CANNOT ANALYSE\n%s" % (p, out[-800:]))
    print("FIRED:", fired)
finally:
    if os.environ.get("KEEP"):
        print("KEPT:", root)
    else:
        shutil.rmtree(root, ignore_errors=True)
