#!/usr/bin/env python3
"""Regenerates /verif/MANIFEST.json from analysis/meta.py (single source of truth)."""
import json, os, sys
HERE = os.path.dirname(os.path.dirname(os.path.abspath(__file__)))
sys.path.insert(0, HERE)
from analysis.meta import META, NOT_APPLICABLE

props = [json.loads(l) for l in open(os.path.join(HERE, "properties.jsonl"))]
checks = []
na = []
for p in props:
    pid = p["id"]
    m = META.get(pid)
    if m and m.get("claimed", True) and os.path.exists(os.path.join(HERE, "analysis", "rules", pid.lower() + ".py")):
        checks.append({
            "property_id": pid,
            "quick_cmd": "./check %s quick" % pid,
            "thorough_cmd": "./check %s thorough" % pid,
            "evidence_file": "/verif/evidence/%s.json" % pid,
            "replay_cmd_template": "./check explain {path}",
            "engine": "mir-rules",
            "level_claimed": {"category": "other", "text": m["level_text"], "design_ref": m["design_ref"]},
            "level_note": "Decides: " + m["explanation"] + " NOT decided: " + m["not_decided"] + " Trusted base: " + "; ".join(m["assumptions"]),
            "technique": "static analysis: " + m["technique"],
        })
    else:
        na.append({"property_id": pid, "reason": NOT_APPLICABLE.get(pid, "check not built yet (implementation in progress); planned static rule in DESIGN.md §5 %s" % pid)})
man = {
    "version": 1,
    "setup_cmd": "./setup.sh",
    "hooks": {
        "guard": "tianying00412_cacache_verif",
        "enable": "none needed: the fact extractor observes the unmodified build through RUSTC_WORKSPACE_WRAPPER under cargo +nightly check; no source hooks exist",
        "baseline_off_cmd": "cd /repo && cargo test --workspace --no-fail-fast --offline",
        "source_commits": [],
        "add_only": True,
    },
    "engines": [
        {"name": "mir-rules", "path": "/verif/check", "serves_properties": [c["property_id"] for c in checks],
         "kind_free_text": "rustc_private fact extractor (/verif/driver) over tcx.mir_built of every feature configuration + stdlib-Python rule engine (/verif/analysis): CFG/dominators, gate-cut reachability, identity/ok-preserving/may-depend value flow, symbolic terms, filesystem-effect inventory with provenance classes, role inference, decision tables"},
    ],
    "checks": checks,
    "notes": "All claimed properties are decided by static analysis of /repo's current working tree (no cacache code is executed). Each check decides named structural clauses that are necessary conditions of the property; the undecided behavioural remainder is listed per check in level_note and in the evidence file (coverage.not_decided). Known findings: /verif/known_findings.txt.",
    "not_applicable": na,
}
json.dump(man, open(os.path.join(HERE, "MANIFEST.json"), "w"), indent=1)
print("checks:", [c["property_id"] for c in checks], "not_applicable:", [n["property_id"] for n in na])
