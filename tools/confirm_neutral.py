#!/usr/bin/env python3
"""tools/confirm_neutral.py <ID> <worktree> [--demo-args "..."] [--name NAME]
Confirms an independently written behaviour-PRESERVING refactoring (<worktree>/_seed/N/patch.diff) and files it under
/verif/neutral/<NAME>/: it must apply to the current /repo, compile in the main feature configurations, pass the existing test
suite, and pass the demonstration written for the companion breaking change (<worktree>/_seed/A/demo.rs). Then every static
check is run on it: any check that fires is either a false alarm of the checker or evidence that the change is not neutral
after all — to be decided by reading. The scratch copy is removed afterwards."""
import argparse, json, os, shutil, subprocess, sys, tempfile, time
HERE = os.path.dirname(os.path.dirname(os.path.abspath(__file__)))
sys.path.insert(0, HERE)
from analysis.meta import META
CONFIGS = [[], ["--no-default-features"], ["--no-default-features", "--features", "tokio-runtime,mmap,link_to"], ["--features", "link_to"]]


def sh(cmd, cwd, env=None, timeout=1800):
    r = subprocess.run(cmd, cwd=cwd, env=env, capture_output=True, text=True, timeout=timeout)
    return r.returncode, r.stdout + r.stderr


def main():
    ap = argparse.ArgumentParser()
    ap.add_argument("prop"); ap.add_argument("worktree"); ap.add_argument("--demo-args", default=""); ap.add_argument("--name"); ap.add_argument("--sub", default="N")
    a = ap.parse_args()
    name = a.name or (a.prop + "-n")
    seed = os.path.join(a.worktree, "_seed", a.sub)
    patch = os.path.join(seed, "patch.diff")
    demo = os.path.join(a.worktree, "_seed", "A", "demo.rs")
    root = tempfile.mkdtemp(prefix="cacache-neutral-%s-" % name, dir="/tmp")
    log, ok = [], True
    try:
        for d in ("src", "benches"):
            shutil.copytree(os.path.join("/repo", d), os.path.join(root, d))
        for f in ("Cargo.toml", "Cargo.lock"):
            shutil.copy(os.path.join("/repo", f), os.path.join(root, f))
        shutil.copytree("/repo/target", os.path.join(root, "target"))
        env = dict(os.environ, CARGO_NET_OFFLINE="true", CARGO_TARGET_DIR=os.path.join(root, "target"))
        rc, out = sh(["patch", "-p1", "-i", patch], root)
        if rc != 0:
            print("patch does not apply:\n", out); return 2
        for c in CONFIGS:
            rc, out = sh(["cargo", "check", "--offline", "--lib"] + c, root, env)
            log.append(("cargo check %s" % " ".join(c), "ok" if rc == 0 else "FAIL", out[-600:] if rc else "")); ok &= rc == 0
        for c in ([], ["--features", "link_to"]):
            rc, out = sh(["cargo", "test", "--offline", "--no-fail-fast"] + c, root, env)
            res = [l for l in out.splitlines() if l.startswith("test result")]
            log.append(("cargo test %s" % " ".join(c), "ok" if rc == 0 else "FAIL", " | ".join(res))); ok &= rc == 0
        if os.path.exists(demo):
            os.makedirs(os.path.join(root, "tests"))
            shutil.copy(demo, os.path.join(root, "tests", "seed_demo.rs"))
            rc, out = sh(["cargo", "test", "--offline", "--test", "seed_demo"] + a.demo_args.split(), root, env)
            log.append(("companion demo with N", "PASS" if rc == 0 else "FAIL", out[-500:] if rc else "")); ok &= rc == 0
        shutil.rmtree(os.path.join(root, "target"), ignore_errors=True)
        shutil.rmtree(os.path.join(root, "tests"), ignore_errors=True)
        subprocess.run(["cp", "-al", os.path.join(HERE, ".cache", "target"), os.path.join(root, "target")], check=False)
        cenv = dict(os.environ, VERIF_REPO=root, VERIF_TARGET_BASE=os.path.join(root, "target"), VERIF_FACTS_BASE=os.path.join(root, "facts"))
        fired = {}
        for p in sorted(META):
            r = subprocess.run([os.path.join(HERE, "check"), p, "quick"], cwd=HERE, env=cenv, capture_output=True, text=True)
            if r.returncode == 1:
                fired[p] = [l.strip()[:300] for l in r.stdout.splitlines() if l.startswith("  ") and not l.startswith("      ")][:4]
            elif r.returncode == 2:
                fired[p] = ["CANNOT-ANALYSE"]
        for step in log:
            print("%-60s %s %s" % step)
        print("confirmed neutral (dynamic):", ok)
        print("checks that fire on the neutral change:", sorted(fired))
        dst = os.path.join(HERE, "neutral", name)
        os.makedirs(dst, exist_ok=True)
        shutil.copy(patch, os.path.join(dst, "patch.diff"))
        if os.path.exists(os.path.join(seed, "NOTES.md")):
            shutil.copy(os.path.join(seed, "NOTES.md"), os.path.join(dst, "NOTES.md"))
        json.dump({"area_of_property": a.prop, "written_by": "independent sub-agent (asked for a behaviour-preserving refactoring next to a breaking change)",
                   "dynamic_confirmation": [{"step": s, "result": r, "detail": d} for s, r, d in log], "confirmed": bool(ok),
                   "static_checks_that_fire": fired,
                   "repo_head": subprocess.check_output(["git", "-C", "/repo", "rev-parse", "--short", "HEAD"], text=True).strip(),
                   "confirmed_at": time.strftime("%Y-%m-%dT%H:%M:%SZ", time.gmtime())}, open(os.path.join(dst, "meta.json"), "w"), indent=1)
        return 0 if ok else 1
    finally:
        shutil.rmtree(root, ignore_errors=True)


if __name__ == "__main__":
    sys.exit(main())
