#!/usr/bin/env python3
"""tools/refresh_seed_checks.py [NAME ...] — re-run every static check on each filed seeded change (applied to a scratch copy of
the current /repo, removed afterwards) and refresh the `static_checks_that_fire` / `caught_by_target_property_check` fields of
its meta.json. The dynamic confirmation recorded in meta.json (compiles, tests pass, demonstration fails/passes) is not redone."""
import json, os, shutil, subprocess, sys, time
from concurrent.futures import ThreadPoolExecutor
HERE = os.path.dirname(os.path.dirname(os.path.abspath(__file__)))
sys.path.insert(0, HERE)
from selftest.mutate import make_scratch, run_check
from analysis.meta import META


def _head():
    try:
        return subprocess.check_output(["git", "-C", HERE, "rev-parse", "--short", "HEAD"], text=True, stderr=subprocess.DEVNULL).strip()
    except Exception:
        return os.environ.get("VERIF_HEAD", "unknown")


def one(name):
    kind = "neutral" if os.path.isdir(os.path.join(HERE, "neutral", name)) else "seeded"
    d = os.path.join(HERE, kind, name)
    meta = json.load(open(os.path.join(d, "meta.json")))
    root = make_scratch("refresh-" + name)
    try:
        r = subprocess.run(["patch", "-p1", "-i", os.path.join(d, "patch.diff")], cwd=root, capture_output=True, text=True)
        if r.returncode != 0:
            return name, "PATCH-DOES-NOT-APPLY", {}
        fired = {}
        props = sorted(META)
        rc0, out0 = run_check(root, props[0])
        res = [(props[0], rc0, out0)]
        with ThreadPoolExecutor(max_workers=5) as ex:
            res += list(ex.map(lambda p: (p,) + run_check(root, p), props[1:]))
        for p, rc, out in res:
            if rc == 1:
                fired[p] = [l.strip()[:300] for l in out.splitlines() if l.startswith("  ") and not l.startswith("      ")][:4]
            elif rc == 2:
                fired[p] = ["CANNOT-ANALYSE"]
        meta["static_checks_that_fire"] = fired
        meta["checks_refreshed_at"] = time.strftime("%Y-%m-%dT%H:%M:%SZ", time.gmtime())
        meta["verif_commit_when_refreshed"] = _head()
        if kind == "neutral":
            meta["all_checks_silent"] = not fired
            json.dump(meta, open(os.path.join(d, "meta.json"), "w"), indent=1)
            return name, "SILENT" if not fired else "NOISY", fired
        meta["caught_by_target_property_check"] = meta["property"] in fired and fired[meta["property"]] != ["CANNOT-ANALYSE"]
        json.dump(meta, open(os.path.join(d, "meta.json"), "w"), indent=1)
        return name, "CAUGHT" if meta["caught_by_target_property_check"] else "MISSED", fired
    finally:
        shutil.rmtree(root, ignore_errors=True)


def main():
    names = sys.argv[1:] or (sorted(os.listdir(os.path.join(HERE, "seeded"))) + sorted(os.listdir(os.path.join(HERE, "neutral"))))
    with ThreadPoolExecutor(max_workers=int(os.environ.get('REFRESH_JOBS', '3'))) as ex:
        for name, verdict, fired in ex.map(one, names):
            print("%-8s %-8s %s" % (name, verdict, sorted(fired)), flush=True)


if __name__ == "__main__":
    main()
