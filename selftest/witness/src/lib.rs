//! Compile-fail witnesses for the typestate / ownership clauses of C03 (d) and C14 (e), seen from an *external*
//! user of the crate. Every witness is paired with a compiling twin that differs only by the offending line, so a
//! witness whose path is merely wrong cannot pass. Run with `cargo +nightly test --doc --offline`.

/// A writer cannot be used after `commit`: commit consumes it (no write can follow publication).
/// ```compile_fail,E0382
/// use std::io::Write;
/// let mut w = cacache::SyncWriter::create("/tmp/cacache-witness", "k").unwrap();
/// let _ = w.commit();
/// w.write_all(b"late").unwrap();
/// ```
/// Twin (compiles):
/// ```no_run
/// use std::io::Write;
/// let mut w = cacache::SyncWriter::create("/tmp/cacache-witness", "k").unwrap();
/// w.write_all(b"early").unwrap();
/// let _ = w.commit();
/// ```
pub struct WriterConsumedByCommit;

/// A reader cannot be read after `check`: check consumes it.
/// ```compile_fail,E0382
/// use std::io::Read;
/// let mut r = cacache::SyncReader::open("/tmp/cacache-witness", "k").unwrap();
/// let _ = r.check();
/// let mut b = [0u8; 4];
/// let _ = r.read(&mut b);
/// ```
/// Twin (compiles):
/// ```no_run
/// use std::io::Read;
/// let mut r = cacache::SyncReader::open("/tmp/cacache-witness", "k").unwrap();
/// let mut b = [0u8; 4];
/// let _ = r.read(&mut b);
/// let _ = r.check();
/// ```
pub struct ReaderConsumedByCheck;

/// The content layer (temp-file writer, content paths) is not nameable from outside: only commit can publish.
/// ```compile_fail,E0603
/// let _ = cacache::content::write::Writer::new;
/// ```
/// Twin (compiles): the public writer is nameable.
/// ```no_run
/// let _ = cacache::SyncWriter::create::<&str, &str>;
/// ```
pub struct ContentLayerIsPrivate;

/// The raw bucket reader is private: external code cannot obtain unvalidated records.
/// ```compile_fail,E0603
/// let _ = cacache::index::bucket_entries;
/// ```
/// Twin (compiles): the validated lookup is public.
/// ```no_run
/// let _ = cacache::index::find;
/// ```
pub struct BucketReaderIsPrivate;

/// WriteOpts fields cannot be written directly: declarations go through the setters.
/// ```compile_fail,E0616
/// let mut o = cacache::WriteOpts::new();
/// o.size = Some(3);
/// ```
/// Twin (compiles):
/// ```no_run
/// let o = cacache::WriteOpts::new().size(3);
/// let _ = o;
/// ```
pub struct WriteOptsFieldsArePrivate;
