//! Positive controls for the zero-count rules of /verif: one instance of every forbidden construct.
//! Compiled only by the fact extractor (never run). Each matcher must find its instance on every setup.
use std::io::{BufRead, Write};
use std::path::Path;

pub static mut COUNTER: usize = 0;                                   // static mut
pub static MEMO: std::sync::Mutex<Vec<String>> = std::sync::Mutex::new(Vec::new()); // non-Freeze static
pub static HITS: std::sync::atomic::AtomicUsize = std::sync::atomic::AtomicUsize::new(0); // allowed: atomic scalar
thread_local! { static LAST: std::cell::RefCell<Option<String>> = std::cell::RefCell::new(None); }

pub fn touch_tls() {
    LAST.with(|l| l.borrow_mut().take());
}

pub fn temp_in_system_dir() -> std::io::Result<()> {
    let mut t = tempfile::NamedTempFile::new()?;                     // CreateTempGlobal
    t.write_all(b"x")?;
    let _ = t.keep();                                                // TempEscape
    Ok(())
}

pub fn forget_temp(dir: &Path) -> std::io::Result<()> {
    let t = tempfile::NamedTempFile::new_in(dir)?;
    std::mem::forget(t);                                             // leak of a temp owner
    Ok(())
}

pub fn abort_now() {
    std::process::abort();                                           // abort site
}

pub fn create_in_place(p: &Path) -> std::io::Result<()> {
    let mut f = std::fs::File::create(p)?;                           // Open{write,create,truncate}
    f.write_all(b"partial")?;
    std::fs::create_dir(p.with_extension("d"))?;                     // non-recursive mkdir
    std::fs::soft_link(p, p.with_extension("l"))?;                   // unmodelled fs API
    Ok(())
}

pub fn unwrap_io(p: &Path) -> u64 {
    std::fs::metadata(p).unwrap().len()                              // unwrap on an io::Result
}

pub fn swallow_lines(p: &Path) -> Vec<String> {
    let f = std::fs::File::open(p).unwrap();
    std::io::BufReader::new(f).lines().map_while(Result::ok).collect() // drops read errors
}

pub fn swallow_entries(p: &Path) -> usize {
    p.read_dir().map(|d| d.flatten().count()).unwrap_or(0)           // drops entry errors
}

pub fn env_tmp() -> std::path::PathBuf {
    std::env::temp_dir()                                             // process-global location
}

pub fn index_past(v: &[u8], n: usize) -> u8 {
    v[n]                                                             // bounds-check assert
}
