#!/usr/bin/env python3
"""Self-validation of the checker (DESIGN §8): applies source-level mutants and
neutral edits to a scratch copy of /repo's *current* working tree (outside /repo
and /verif, removed afterwards), and runs the static checks on the copy.
No cacache code is executed: mutants are only type-checked and analysed.

  selftest/mutate.py [--only ID,...] [--props C01,...] [--kind mutant|neutral|all] [-j N] [--keep]

A mutant passes if the tree still type-checks and every property in `expect`
reports a violation; a neutral edit passes if no property listed in `quiet`
(default: all claimed) reports anything."""
import argparse
import json
import os
import shutil
import subprocess
import sys
import tempfile
import time
from concurrent.futures import ThreadPoolExecutor

HERE = os.path.dirname(os.path.abspath(__file__))
VERIF = os.path.dirname(HERE)
sys.path.insert(0, VERIF)
REPO = os.environ.get("VERIF_REPO", "/repo")

from selftest.corpus import MUTANTS, NEUTRAL  # noqa: E402


def make_scratch(tag):
    base = tempfile.mkdtemp(prefix="cacache-verif-mut-%s-" % tag, dir=os.environ.get("VERIF_SCRATCH", "/tmp"))
    for d in ("src", "benches"):
        if os.path.isdir(os.path.join(REPO, d)):
            shutil.copytree(os.path.join(REPO, d), os.path.join(base, d))
    for f in ("Cargo.toml", "Cargo.lock"):
        shutil.copy(os.path.join(REPO, f), os.path.join(base, f))
    # private target directories: hard-link farm of the warmed dependency artifacts (same filesystem),
    # so parallel mutants never share cargo state
    src = os.path.join(VERIF, ".cache", "target")
    if os.path.isdir(src):
        subprocess.run(["cp", "-al", src, os.path.join(base, "target")], check=False)
    return base


def apply_edit(root, m):
    if m.get("patch"):
        # an independently written refactoring kept under /verif/neutral or /verif/seeded, applied before any edits
        r = subprocess.run(["patch", "-p1", "-s", "--no-backup-if-mismatch", "-i", os.path.join(VERIF, m["patch"])], cwd=root, capture_output=True, text=True)
        if r.returncode != 0:
            return "skip: patch %s does not apply: %s" % (m["patch"], (r.stdout + r.stderr)[-200:])
        if not m.get("edits") and "find" not in m:
            return None
    edits = m.get("edits") or [m]
    for e in edits:
        p = os.path.join(root, e["file"])
        s = open(p, newline="").read()
        if "\r\n" in s and "\r" not in e["find"]:      # the file uses CRLF line endings
            e = dict(e, find=e["find"].replace("\n", "\r\n"), replace=e["replace"].replace("\n", "\r\n"))
        n = s.count(e["find"])
        want = e.get("count", 1)
        if n == 0:
            return "skip: search text not found in %s" % e["file"]
        if e.get("all"):
            s = s.replace(e["find"], e["replace"])
        else:
            if n != want and not e.get("nth"):
                return "skip: search text found %d times (expected %d) in %s" % (n, want, e["file"])
            if e.get("nth"):
                idx = -1
                if n < e["nth"]:
                    return "skip: search text found %d times (need occurrence %d) in %s" % (n, e["nth"], e["file"])
                for _ in range(e["nth"]):
                    idx = s.index(e["find"], idx + 1)
                s = s[:idx] + e["replace"] + s[idx + len(e["find"]):]
            else:
                s = s.replace(e["find"], e["replace"])
        open(p, "w", newline="").write(s)
    return None


def run_check(root, prop, tier="quick", configs=None):
    env = dict(os.environ, VERIF_REPO=root, VERIF_TARGET_BASE=os.path.join(root, "target"),
               VERIF_FACTS_BASE=os.path.join(root, "facts"))
    if configs:
        env["VERIF_CONFIGS"] = ",".join(configs)
    r = subprocess.run([os.path.join(VERIF, "check"), prop, tier], cwd=VERIF, env=env, capture_output=True, text=True)
    return r.returncode, r.stdout + r.stderr


def one(m, kind, props_filter, claimed, keep=False):
    root = make_scratch(m["id"])
    try:
        why = apply_edit(root, m)
        if why:
            return {"id": m["id"], "status": "skipped", "why": why}
        res = {"id": m["id"], "kind": kind, "results": {}}
        if kind == "mutant":
            props = [p for p in m["expect"] if (not props_filter or p in props_filter) and p in claimed]
            quiet_here = [p for p in m.get("quiet", []) if p in claimed and (not props_filter or p in props_filter)]
            ok = bool(props) or bool(quiet_here)
            for p in props:
                rc, out = run_check(root, p, configs=m.get("configs"))
                fired = rc == 1 and "VIOLATION property=%s" % p in out
                if rc == 2:
                    res["results"][p] = "cannot-analyse"
                    res["output"] = out[-1500:]
                    ok = False
                    continue
                if fired and m.get("must_mention"):
                    fired = m["must_mention"] in out
                res["results"][p] = "fired" if fired else "MISSED"
                if not fired:
                    ok = False
                    res["output"] = out[-1500:]
            # optional: properties that must stay quiet on this mutant
            for p in m.get("quiet", []):
                if p in claimed and (not props_filter or p in props_filter):
                    rc, out = run_check(root, p, configs=m.get("configs"))
                    res["results"][p + "(quiet)"] = "quiet" if rc == 0 else "NOISY"
                    if rc != 0:
                        ok = False
                        res["output"] = out[-1500:]
            res["status"] = "ok" if ok else ("no-claimed-property" if not props and not quiet_here else "FAILED")
        else:
            props = [p for p in (m.get("quiet") or claimed) if (not props_filter or p in props_filter) and p in claimed]
            ok = True
            for p in props:
                rc, out = run_check(root, p, configs=m.get("configs"))
                res["results"][p] = "quiet" if rc == 0 else ("cannot-analyse" if rc == 2 else "NOISY")
                if rc != 0:
                    ok = False
                    res.setdefault("output", "")
                    res["output"] += out[-1200:]
            res["status"] = "ok" if ok else "FAILED"
        return res
    finally:
        if not keep:
            shutil.rmtree(root, ignore_errors=True)


def main():
    ap = argparse.ArgumentParser()
    ap.add_argument("--only")
    ap.add_argument("--props")
    ap.add_argument("--kind", default="all")
    ap.add_argument("-j", type=int, default=4)
    ap.add_argument("--keep", action="store_true")
    ap.add_argument("--json")
    a = ap.parse_args()
    from analysis.meta import META
    claimed = [p for p in META if os.path.exists(os.path.join(VERIF, "analysis", "rules", p.lower() + ".py"))]
    only = set(a.only.split(",")) if a.only else None
    pf = set(a.props.split(",")) if a.props else None
    jobs = []
    if a.kind in ("all", "mutant"):
        jobs += [(m, "mutant") for m in MUTANTS if (not only or m["id"] in only)]
    if a.kind in ("all", "neutral"):
        jobs += [(m, "neutral") for m in NEUTRAL if (not only or m["id"] in only)]
    if pf:
        jobs = [(m, k) for m, k in jobs if k == "neutral" or (set(m["expect"]) | set(m.get("quiet", []))) & pf]
    t0 = time.time()
    out = []
    with ThreadPoolExecutor(max_workers=a.j) as ex:
        for r in ex.map(lambda mk: one(mk[0], mk[1], pf, claimed, a.keep), jobs):
            out.append(r)
            print("%-44s %-8s %s" % (r["id"], r["status"], r.get("results", r.get("why", ""))))
            if r["status"] == "FAILED" and r.get("output"):
                print("    " + r["output"].replace("\n", "\n    ")[-1400:])
    bad = [r for r in out if r["status"] == "FAILED"]
    print("%d run, %d failed, %d skipped, %.0fs" % (len(out), len(bad), len([r for r in out if r["status"] == "skipped"]), time.time() - t0))
    if a.json:
        json.dump(out, open(a.json, "w"), indent=1)
    return 1 if bad else 0


if __name__ == "__main__":
    sys.exit(main())
