#!/usr/bin/env python3
"""Runs the compile-fail witnesses (and their compiling twins) against /repo's current tree. Exit 0 if every witness
fails to compile with its expected error code and every twin compiles; 1 if a witness now compiles (the typestate clause
is broken); 2 if the harness itself cannot be built."""
import os
import re
import subprocess
import sys

HERE = os.path.dirname(os.path.abspath(__file__))
VERIF = os.path.dirname(HERE)


def run():
    wd = os.path.join(HERE, "witness")
    env = dict(os.environ, CARGO_NET_OFFLINE="true", CARGO_TARGET_DIR=os.path.join(VERIF, ".cache", "target", "_witness"))
    r = subprocess.run(["cargo", "+nightly", "test", "--doc", "--offline"], cwd=wd, env=env, capture_output=True, text=True)
    out = r.stdout + r.stderr
    m = re.search(r"test result: (\w+)\. (\d+) passed; (\d+) failed", out)
    if not m:
        return 2, out[-2000:], 0
    passed, failed = int(m.group(2)), int(m.group(3))
    if failed:
        bad = re.findall(r"^test (src/lib.rs - \S+ .*?) \.\.\. FAILED", out, re.M)
        return 1, "\n".join(bad) + "\n" + out[-1500:], passed
    return 0, "", passed


if __name__ == "__main__":
    rc, msg, n = run()
    print("compile-fail witnesses + twins: %d doctests passed" % n if rc == 0 else msg)
    sys.exit(rc)
