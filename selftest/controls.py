#!/usr/bin/env python3
"""Positive controls (DESIGN §8): the fixture crate selftest/fixture contains one instance of each forbidden construct;
every matcher used by a zero-count rule must find its instance. Exit 0 if all found, 2 otherwise."""
import os
import subprocess
import sys
import uuid
import shutil

HERE = os.path.dirname(os.path.abspath(__file__))
VERIF = os.path.dirname(HERE)
sys.path.insert(0, VERIF)
from analysis import extract  # noqa: E402
from analysis.facts import Facts  # noqa: E402
from analysis.core import Program  # noqa: E402
from analysis.world import World  # noqa: E402


def extract_fixture():
    fx = os.path.join(HERE, "fixture")
    tdir = os.path.join(VERIF, ".cache", "target", "_fixture")
    os.makedirs(tdir, exist_ok=True)
    fp = os.path.join(tdir, "debug", ".fingerprint")
    if os.path.isdir(fp):
        for d in os.listdir(fp):
            if d.startswith("vfix-"):
                shutil.rmtree(os.path.join(fp, d), ignore_errors=True)
    out = os.path.join(VERIF, ".cache", "facts", "_fixture.json")
    os.makedirs(os.path.dirname(out), exist_ok=True)
    if os.path.exists(out):
        os.remove(out)
    if not os.path.exists(extract.DRIVER):
        extract.build_driver()
    nonce = uuid.uuid4().hex
    env = dict(os.environ)
    env.update({
        "LD_LIBRARY_PATH": os.path.join(extract.sysroot(), "lib") + ":" + env.get("LD_LIBRARY_PATH", ""),
        "RUSTFLAGS": "-Zmir-opt-level=0 -Awarnings", "RUSTC_WORKSPACE_WRAPPER": extract.DRIVER, "CARGO_TARGET_DIR": tdir,
        "CARGO_NET_OFFLINE": "true", "CARGO_INCREMENTAL": "0", "VERIF_FACTS_OUT": out, "VERIF_FACTS_NONCE": nonce,
        "VERIF_FACTS_CONFIG": "fixture", "VERIF_FACTS_CRATE": "vfix",
    })
    r = subprocess.run(["cargo", "+nightly", "check", "--offline", "--lib"], cwd=fx, env=env, capture_output=True, text=True)
    if r.returncode != 0 or not os.path.exists(out):
        sys.stderr.write(r.stderr[-3000:])
        return None
    return out


def main():
    out = extract_fixture()
    if out is None:
        print("CHECKER-SELFTEST-FAILED: the positive-control fixture could not be analysed")
        return 2
    w = World(Program(Facts(out)))
    prog = w.prog
    found = {}
    st = {s["path"]: s for s in prog.facts.items["statics"]}
    found["static mut"] = any(s["mut"] for s in st.values())
    found["non-Freeze static"] = any((not s["freeze"]) and "Mutex" in s["ty"] for s in st.values())
    from analysis.rules.c07 import ATOMIC
    found["atomic scalar static is recognised as exempt"] = any(ATOMIC.match(s["ty"]) for s in st.values())
    found["thread_local"] = any(s.get("thread_local") for s in st.values()) or any(
        s.k == "assign" and s.rv.k == "tlsref" for b in prog.bodies for blk in b.blocks for s in blk.stmts)
    kinds = {}
    for e in w.inv.effects:
        kinds.setdefault(e.kind, []).append(e)
    found["NamedTempFile::new() (CreateTempGlobal)"] = "CreateTempGlobal" in kinds
    found["keep() (TempEscape)"] = "TempEscape" in kinds
    found["File::create (mutating Open)"] = any(e.mutating for e in kinds.get("Open", []))
    found["create_dir non-recursive"] = any(e.flags.get("recursive") is False for e in kinds.get("CreateDir", []))
    found["unmodelled fs API"] = "Unmodelled" in kinds
    found["env::temp_dir (EnvPath)"] = "EnvPath" in kinds
    from analysis.rules.c14 import ESCAPES
    found["mem::forget of a temp owner"] = any(
        t.callee is not None and ESCAPES.search(t.callee.path) and "tempfile::" in (t.j.get("arg_tys") or [""])[0]
        for b in prog.bodies for _, t in b.calls())
    from analysis.rules.c20 import enumerate_sites
    sites = enumerate_sites(w)
    found["process::abort site"] = any(s.kind == "abort" for s in sites)
    found["unwrap site"] = any(s.kind == "unwrap" for s in sites)
    found["bounds-check assert"] = any(s.kind == "assert:BoundsCheck" for s in sites)
    from analysis.rules.c13 import ERR_DROPPING_ADAPTORS, ITER_OF_IO_RESULT
    ad = [(t.callee.path, (t.callee.args or [""])[0]) for b in prog.bodies for _, t in b.calls()
          if t.callee is not None and ERR_DROPPING_ADAPTORS.search(t.callee.path)]
    found["map_while(Result::ok) over io lines"] = any(p.endswith("map_while") and ITER_OF_IO_RESULT.search(a) for p, a in ad)
    found["flatten over ReadDir"] = any(p.endswith("flatten") and ITER_OF_IO_RESULT.search(a) for p, a in ad)
    bad = [k for k, v in found.items() if not v]
    for k, v in found.items():
        print("  control %-45s %s" % (k, "found" if v else "NOT FOUND"))
    if bad:
        print("CHECKER-SELFTEST-FAILED: positive controls not matched: %s" % bad)
        return 2
    print("positive controls: %d/%d matched" % (len(found), len(found)))
    return 0


if __name__ == "__main__":
    sys.exit(main())
