#!/bin/sh
# Builds the fact extractor and warms the per-configuration target directories (offline).
set -e
cd "$(dirname "$0")"
export CARGO_NET_OFFLINE=true
(cd driver && cargo +nightly build --release --offline)
python3 -m analysis.extract thorough
